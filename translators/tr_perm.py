"""C17 — audit of every place in supp/ where the iteration order of a `set` (or of a dict whose
insertion order comes from one) could reach an output.

`discover(repo)` walks the `ast` of every supp/*.py file and lists
  * every maximal set-producing expression (`set(...)`, `frozenset(...)`, set literal, set comprehension,
    `.union/.difference/.intersection/.symmetric_difference(...)`, `| & - ^` with a set-producing operand),
  * every iteration over a mapping (`iteritems/iterkeys/itervalues/list*(d)`, `d.items()/.keys()/.values()`)
together with HOW IT IS CONSUMED: the syntactic parent (sorted(..), for .. in, list(..), `in`, len(..), return,
assignment) and, for values that are bound to a variable / attribute or returned, every use of that variable
(in the function), attribute (in the whole package) or every call site of the returning function.

A site is identified by a line-independent fingerprint (file, function, unparsed expression, consumption).
`KNOWN` classifies the fingerprints that were audited by hand:
    membership     only `in`, len, add/update/discard, truthiness
    sorted         sorted(...) before anything order-sensitive sees it
    mapBuild       order only decides the insertion order of a dict / another set that is itself audited
    orderReaches   the order is observable in a result -> must have a counterpart in the Lean model
A fingerprint that is not in `KNOWN` (a new set, or a known one whose consumption changed, e.g.
`sorted(set(allnames))` -> `list(set(allnames))`) is emitted as `orderReachesOutput, modelled := false`, which
breaks `C17_sites_audited`, and is reported by `unknown_sites` so that the harness fails the tie.
"""
import ast
import os

SET_METHODS = {'union', 'difference', 'intersection', 'symmetric_difference'}
MAP_ITER_FUNCS = {'iteritems', 'iterkeys', 'itervalues', 'listitems', 'listkeys', 'listvalues'}
MAP_ITER_METHODS = {'items', 'keys', 'values', 'iteritems', 'iterkeys', 'itervalues'}
SKIP_FILES = {'umsgpack.py', 'compat.py'}     # vendored codec (C14) / the py2-py3 aliases themselves


class Untranslatable(Exception):
    pass


def is_set_expr(n):
    if isinstance(n, (ast.Set, ast.SetComp)):
        return True
    if isinstance(n, ast.Call):
        f = n.func
        if isinstance(f, ast.Name) and f.id in ('set', 'frozenset'):
            return True
        if isinstance(f, ast.Attribute) and f.attr in SET_METHODS:
            return True
    if isinstance(n, ast.BinOp) and isinstance(n.op, (ast.BitOr, ast.BitAnd, ast.Sub, ast.BitXor)):
        return is_set_expr(n.left) or is_set_expr(n.right)
    return False


def is_map_iter(n):
    if isinstance(n, ast.Call):
        f = n.func
        if isinstance(f, ast.Name) and f.id in MAP_ITER_FUNCS:
            return True
        if isinstance(f, ast.Attribute) and f.attr in MAP_ITER_METHODS and not n.args:
            return True
    return False


def up(s):
    return ast.unparse(s)


def parents_of(tree):
    par = {}
    for n in ast.walk(tree):
        for c in ast.iter_child_nodes(n):
            par[c] = n
    return par


def enclosing_func(n, par):
    names = []
    while n in par:
        n = par[n]
        if isinstance(n, (ast.FunctionDef, ast.AsyncFunctionDef, ast.ClassDef, ast.Lambda)):
            names.append(getattr(n, 'name', 'lambda'))
    return '.'.join(reversed(names)) or '<module>'


def enclosing_def(n, par):
    while n in par:
        n = par[n]
        if isinstance(n, (ast.FunctionDef, ast.AsyncFunctionDef, ast.Lambda)):
            return n
    return None


def head_of(stmt):
    """a statement without its body (so that the fingerprint of a loop does not contain the loop body)"""
    if isinstance(stmt, (ast.For, ast.AsyncFor)):
        return 'for %s in %s' % (up(stmt.target), up(stmt.iter))
    if isinstance(stmt, (ast.If, ast.While)):
        return '%s %s' % (type(stmt).__name__.lower(), up(stmt.test))
    if isinstance(stmt, (ast.FunctionDef, ast.AsyncFunctionDef, ast.ClassDef)):
        return 'def ' + stmt.name
    if isinstance(stmt, (ast.With, ast.Try)):
        return type(stmt).__name__.lower()
    return up(stmt)


def context(n, par):
    """how the value of expression node `n` is consumed by its parent -> (kind, text)"""
    p = par.get(n)
    if p is None:
        return 'none', ''
    if isinstance(p, ast.Call) and n in p.args and isinstance(p.func, ast.Name):
        if p.func.id == 'sorted':
            return 'sorted', up(p)
        if p.func.id in ('len', 'bool', 'any', 'all'):
            return 'membership', up(p)
        if p.func.id in ('list', 'tuple', 'iter', 'next', 'enumerate', 'reversed'):
            return 'list', up(p)
        if p.func.id in ('set', 'frozenset'):
            return 'toset', up(p)
        return 'arg', up(p)
    if isinstance(p, ast.Call) and n in p.args:
        return 'arg', up(p)
    if isinstance(p, ast.Attribute) and p.value is n:
        gp = par.get(p)
        if isinstance(gp, ast.Call) and gp.func is p:
            if p.attr in ('add', 'update', 'discard', 'remove', 'clear', 'difference_update', 'intersection_update',
                          '__contains__', 'issubset', 'issuperset', 'isdisjoint'):
                return 'membership', '.%s(...)' % p.attr
            if p.attr in SET_METHODS or p.attr == 'copy':
                return 'setop', up(gp)
            if p.attr == 'get':
                return 'lookup', '.get(...)'
            return 'method', up(gp)
        return 'attr', up(p)
    if isinstance(p, ast.Compare) and n in p.comparators and all(isinstance(o, (ast.In, ast.NotIn)) for o in p.ops):
        return 'membership', 'in'
    if isinstance(p, ast.comprehension) and p.iter is n:
        comp = par[p]
        return 'iterate', context_of_comp(comp, par)
    if isinstance(p, (ast.For, ast.AsyncFor)) and p.iter is n:
        return 'iterate', head_of(p)
    if isinstance(p, (ast.Assign, ast.AnnAssign, ast.AugAssign)):
        tgt = p.targets[0] if isinstance(p, ast.Assign) else p.target
        return 'bind', up(tgt)
    if isinstance(p, ast.Return):
        return 'return', ''
    if isinstance(p, ast.BinOp) and isinstance(p.op, (ast.BitOr, ast.BitAnd, ast.Sub, ast.BitXor)):
        return 'setop', up(p)
    if isinstance(p, (ast.If, ast.While, ast.IfExp)) and p.test is n:
        return 'membership', 'truth'
    if isinstance(p, (ast.BoolOp,)) or (isinstance(p, ast.UnaryOp) and isinstance(p.op, ast.Not)):
        return 'membership', 'truth'
    if isinstance(p, ast.Subscript) and p.value is n:
        return 'lookup', '[...]'
    if isinstance(p, ast.Starred):
        return 'list', up(p)
    if isinstance(p, ast.Expr):
        return 'discard', ''
    return 'other', up(p) if isinstance(p, ast.expr) else head_of(p)


def context_of_comp(comp, par):
    """a comprehension iterating over the value: what is built and what consumes it"""
    kind, text = context(comp, par)
    build = {ast.ListComp: 'listcomp', ast.SetComp: 'setcomp', ast.DictComp: 'dictcomp', ast.GeneratorExp: 'genexp'}[type(comp)]
    return '%s %s -> %s %s' % (build, up(comp), kind, text)


def uses_of_name(name, scope_node, par, skip):
    out = []
    for n in ast.walk(scope_node):
        if isinstance(n, ast.Name) and n.id == name and isinstance(n.ctx, ast.Load) and n is not skip:
            k, t = context(n, par)
            out.append('%s %s' % (k, t))
    return sorted(set(out))


def uses_of_attr(attr, trees, skip):
    out = []
    for fname, (tree, par) in sorted(trees.items()):
        for n in ast.walk(tree):
            if isinstance(n, ast.Attribute) and n.attr == attr and isinstance(n.ctx, ast.Load) and n is not skip:
                k, t = context(n, par)
                out.append('%s:%s %s' % (fname, k, t))
    return sorted(set(out))


def call_sites(funcname, trees):
    """how the result of every call of `funcname` is consumed; a result bound to a variable is followed
    to the uses of that variable in the calling function"""
    out = []
    for fname, (tree, par) in sorted(trees.items()):
        for n in ast.walk(tree):
            if isinstance(n, ast.Call):
                f = n.func
                nm = f.attr if isinstance(f, ast.Attribute) else f.id if isinstance(f, ast.Name) else None
                if nm == funcname:
                    k, t = context(n, par)
                    out.append('%s:%s %s' % (fname, k, t))
                    if k == 'bind':
                        tgt = par[n].targets[0] if isinstance(par[n], ast.Assign) else par[n].target
                        if isinstance(tgt, ast.Name):
                            for u in uses_of_name(tgt.id, enclosing_def(n, par) or tree, par, None):
                                out.append('%s:%s: %s' % (fname, tgt.id, u))
    return sorted(set(out))


def discover(repo):
    """-> list of {file, func, kind, expr, consumer, uses}"""
    d = os.path.join(repo, 'supp')
    trees = {}
    for f in sorted(os.listdir(d)):
        if f.endswith('.py') and f not in SKIP_FILES:
            tree = ast.parse(open(os.path.join(d, f)).read())
            trees[f] = (tree, parents_of(tree))
    sites = []
    for fname, (tree, par) in sorted(trees.items()):
        for n in ast.walk(tree):
            if not isinstance(n, ast.expr):
                continue
            setp, mapi = is_set_expr(n), is_map_iter(n)
            if not (setp or mapi):
                continue
            p = par.get(n)
            if setp and isinstance(p, ast.expr) and is_set_expr(p) and not isinstance(p, ast.SetComp):
                continue        # not maximal: part of a bigger set expression
            if setp and isinstance(p, ast.Attribute) and isinstance(par.get(p), ast.Call) and is_set_expr(par[p]):
                continue        # receiver of .union(...) etc.
            kind, text = context(n, par)
            uses = []
            if kind == 'bind':
                tgt = par[n].targets[0] if isinstance(par[n], ast.Assign) else par[n].target
                if isinstance(tgt, ast.Name):
                    scope_node = enclosing_def(n, par) or tree
                    uses = uses_of_name(tgt.id, scope_node, par, None)
                    if setp and any(u.startswith('return') for u in uses):
                        fn = enclosing_def(n, par)
                        uses = uses + ['caller ' + c for c in call_sites(getattr(fn, 'name', 'lambda'), trees)]
                elif isinstance(tgt, ast.Attribute):
                    uses = uses_of_attr(tgt.attr, trees, None)
                else:
                    uses = ['target ' + up(tgt)]
            elif kind == 'return' and setp:
                fn = enclosing_def(n, par)
                uses = call_sites(getattr(fn, 'name', 'lambda'), trees)
            sites.append({'file': fname, 'func': enclosing_func(n, par), 'kind': 'set' if setp else 'mapIter',
                          'expr': up(n), 'consumer': ('%s %s' % (kind, text)).strip(), 'uses': uses})
    return sites


def fingerprint(s):
    return (s['file'], s['func'], s['expr'], s['consumer'], tuple(s['uses']))


# ------------------------------------------------------------------------------------------------ the audit
# class, modelled-by (Lean definition in SuppModel/Perm/Model.lean, '' when no counterpart is needed), reason
M, S, B, R = 'membership', 'sorted', 'mapBuild', 'orderReaches'

def pin(s):
    """short hash of the consumption of a site (consumer + every traced use)"""
    import hashlib
    import json
    return hashlib.sha1(json.dumps([s['consumer'], list(s['uses'])]).encode()).hexdigest()[:12]


# (file, function, expression) -> (class, Lean counterpart, -, why); the audited consumption is pinned in PINS
AUDIT = {
    ('assistant.py', 'assist', 'set(plist) | set(module.attr_list(ctx))'):
        (S, 'assist', 'PIN', 'sorted(...) is the returned proposal list'),
    ('evaluator.py', 'EvalCtx.__init__', 'set()'):
        (M, '', 'PIN', 'self.nodes: add / remove / in (recursion guard)'),
    ('linter.py', 'lint', 'set()'):
        (M, '', 'PIN', 'qualified_imports: add / in'),
    ('linter.py', 'lint', 'itervalues(flow.names_at(location))'):
        (B, '', 'PIN', "locals(): marks every name of the scope as used; the marks commute"),
    ('merged_dict.py', 'MergedDict.iteritems', 'iteritems(result)'):
        (B, '', 'PIN', 'order of a merged mapping = order of its parts; every iteration of a MergedDict is a site of its own '
                       '(exported_names, lint locals(), nameset.update, assist)'),
    ('merged_dict.py', 'MergedDict.__iter__', 'self.iteritems()'): (B, '', 'PIN', 'see MergedDict.iteritems'),
    ('merged_dict.py', 'MergedDict.itervalues', 'self.iteritems()'): (B, '', 'PIN', 'see MergedDict.iteritems'),
    ('module.py', 'ImportedModule._attrs', 'iteritems(vars(self.module))'):
        (B, '', 'PIN', 'dict of a runtime module -> dict; read by key, listed through assist (sorted)'),
    ('name.py', 'CompositeValue.attr_list', 'set()'):
        (S, 'assist', 'PIN', 'union of attribute names; every caller sorts (assist) or re-unions'),
    ('name.py', 'MultiValue.attr_list', 'set()'):
        (S, 'assist', 'PIN', 'union of attribute names; every caller sorts (assist) or re-unions'),
    ('name.py', 'AdditionalNameWrapper.attr_list', 'set(self._names) | set(self.value.attr_list(ctx))'):
        (S, 'assist', 'PIN', 'union of attribute names; every caller sorts (assist) or re-unions'),
    ('name.py', 'MultiName.__init__', 'set(allnames)'):
        (S, 'altNames', 'PIN', 'sorted(set(allnames)) by Location.__lt__ / UndefinedName.__lt__ (fix de6288d); independent of the '
                               'set order when the alternatives are tie-free (C17_multiname_det; NoTies is evaluated on every real MultiName)'),
    ('name.py', 'RuntimeName._attrs', 'iteritems(vars(self.value))'):
        (B, '', 'PIN', 'dict of a runtime object -> dict; read by key, listed through assist (sorted)'),
    ('project.py', 'Project.__init__', 'set()'):
        (B, '', 'PIN', '_missing: _appeared() walks list(_missing) and answers whether ANY of them exists now; the set is '
                       'cleared when the answer is yes and refilled with the same names when it is no'),
    ('project.py', 'Project.__init__', 'set(dyn_modules or [])'): (M, '', 'PIN', 'dyn_modules: in'),
    ('project.py', 'Project.list_packages', 'set()'):
        (S, 'assist', 'PIN', 'the returned set has ONE direct consumer: sorted(r for r in project.list_packages(root)) in '
                             'assistant.list_packages (the tracer also lists the callers of that same-named function: they receive '
                             'the sorted list or [] -- `plist` -- and return it as is or re-union it and sort again)'),
    ('project.py', 'Project.check_changes', 'self._module_cache.values()'): (M, '', 'PIN', 'any(...)'),
    ('project.py', 'Project._renormed', 'self._norm_cache.items()'):
        (M, '', 'PIN', 'any(parts changed for root, parts in items): a boolean, independent of the iteration order'),
    ('scope.py', 'Scope.__init__', 'set()'):
        (B, '', 'PIN', 'locals / globals / nonlocals (d10f08d: update, in): add, remove, in, difference; {n: names[n] for n in locals} builds '
                       'the class attribute dict (read by key, listed through assist)'),
    ('scope.py', 'loop_tracked', 'set()'):
        (M, '', 'PIN', 'LoopFlow.cut[-1]: the (loop, resolution) pairs a computation met: add / update, popped into `deps`'),
    ('scope.py', 'loop_tracked', 'frozenset((d for d in deps if d[0] is not obj))'):
        (M, '', 'PIN', 'dependencies of a cached table: filtered into a frozenset, merged with update(), tested with all(...) '
                       '(a conjunction of side-effect-free comparisons)'),
    ('scope.py', 'SourceScope.resolve_star_imports', 'iterkeys(module._attrs)'):
        (B, '', 'PIN', "order of the exporter's dict decides the order of equal-location ImportedNames in flow._names; they have distinct "
                       'names (dict of them is read by key), bisect takes all or none of them, lint skips is_star names'),
    ('scope.py', 'Flow.parent_names', 'set()'):
        (B, 'parentNames', 'PIN', 'nameset: insertion order of the joined table only (C17_parent_names_det: same function)'),
    ('scope.py', 'SourceScope.exported_names', 'iteritems(self.names)'):
        (B, 'exportedNames', 'PIN', 'dict comprehension: insertion order of the exported dict only'),
    ('scope.py', 'BuiltinScope.names', 'iteritems(vars(builtins))'): (B, '', 'PIN', 'dict -> dict'),
    ('scope.py', 'BuiltinScope.names', 'iteritems(vars(compat))'): (B, '', 'PIN', 'dict -> dict'),
    ('scope.py', 'Flow.parent_names', 'set((r.get(n, UndefinedName(n)) for r in pnames))'):
        (R, 'rowValue', 'PIN', 'list(nrow) is the argument of MultiName(...): the order of the row reaches the alternatives unless '
                               'MultiName orders them (C17_parent_names_det / C17_multiname_det; Witness.C17_perm for the old code)'),
    ('scope.py', 'Flow.parent_names', 'set(snames).difference(self.scope.locals)'):
        (B, '', 'PIN', 'function scope: {n: snames[n] for n in outer_names}, insertion order of a dict only'),
    ('util.py', 'dumptree', 'set((k for k, _ in fields))'): (M, '', 'PIN', 'in (debug dump)'),
    ('util.py', 'dump_flows', 'iteritems(scopes)'): (B, '', 'PIN', 'debug helper (prints), dict filled in list order'),
    ('util.py', 'dumptree', 'iteritems(vars(node))'):
        (S, '', 'PIN', 'sorted (debug dump)'),
}
PINS = {
    ('scope.py', 'loop_tracked', 'set()'): ('7363546954f5',),
    ('scope.py', 'loop_tracked', 'frozenset((d for d in deps if d[0] is not obj))'): ('fc946ab16b40',),
    ('assistant.py', 'assist', 'set(plist) | set(module.attr_list(ctx))'): ('15db633d5d80',),
    ('evaluator.py', 'EvalCtx.__init__', 'set()'): ('2b6c06891122',),
    ('linter.py', 'lint', 'set()'): ('a03c62c751e5',),
    ('linter.py', 'lint', 'itervalues(flow.names_at(location))'): ('6db219a908c5',),
    ('merged_dict.py', 'MergedDict.iteritems', 'iteritems(result)'): ('2aa5f5a2493e',),
    ('merged_dict.py', 'MergedDict.__iter__', 'self.iteritems()'): ('b4499c801066',),
    ('merged_dict.py', 'MergedDict.itervalues', 'self.iteritems()'): ('cd1dc9bc735b',),
    ('module.py', 'ImportedModule._attrs', 'iteritems(vars(self.module))'): ('c1efeb371c1e',),
    ('name.py', 'CompositeValue.attr_list', 'set()'): ('062be4d02126',),
    ('name.py', 'MultiValue.attr_list', 'set()'): ('062be4d02126',),
    ('name.py', 'AdditionalNameWrapper.attr_list', 'set(self._names) | set(self.value.attr_list(ctx))'): ('f0eedc654a8d',),
    ('name.py', 'MultiName.__init__', 'set(allnames)'): ('b200c3634326',),
    ('name.py', 'RuntimeName._attrs', 'iteritems(vars(self.value))'): ('2918a9f10593',),
    ('project.py', 'Project.__init__', 'set()'): ('312408ef1df8',),
    ('project.py', 'Project.__init__', 'set(dyn_modules or [])'): ('018c17cee725',),
    ('project.py', 'Project.list_packages', 'set()'): ('c93883abcb17',),
    ('project.py', 'Project.check_changes', 'self._module_cache.values()'): ('15161338bf82',),
    ('project.py', 'Project._renormed', 'self._norm_cache.items()'): ('915a1da17991',),
    ('scope.py', 'Scope.__init__', 'set()'): ('bb25f8f19765', 'f00aa2331fa8', '6c781a90af17'),
    ('scope.py', 'SourceScope.resolve_star_imports', 'iterkeys(module._attrs)'): ('5468ce19e3fc',),
    ('scope.py', 'Flow.parent_names', 'set()'): ('9b34d7fd9035',),
    ('scope.py', 'SourceScope.exported_names', 'iteritems(self.names)'): ('0c9a53424808',),
    ('scope.py', 'BuiltinScope.names', 'iteritems(vars(builtins))'): ('7bf2a2e3e95d',),
    ('scope.py', 'Flow.parent_names', 'set((r.get(n, UndefinedName(n)) for r in pnames))'): ('48ae45fa1fc3',),
    ('scope.py', 'BuiltinScope.names', 'iteritems(vars(compat))'): ('48e69cd9ae98',),
    ('scope.py', 'Flow.parent_names', 'set(snames).difference(self.scope.locals)'): ('ac298f442145',),
    ('util.py', 'dumptree', 'set((k for k, _ in fields))'): ('28c137331512',),
    ('util.py', 'dump_flows', 'iteritems(scopes)'): ('aac437f0aec0',),
    ('util.py', 'dumptree', 'iteritems(vars(node))'): ('f66c7047ea19',),
}


def known_key(s):
    return (s['file'], s['func'], s['expr'])


def lean_str(s):
    return '"' + s.replace('\\', '\\\\').replace('"', '\\"').replace('\n', '\\n') + '"'


def classify(sites):
    """-> (classified sites, unknown sites, audited-but-vanished keys)"""
    out, unknown, seen = [], [], {}
    for s in sites:
        k = known_key(s)
        seen[k] = seen.get(k, 0) + 1
        # two sites may share (file, func, expr) (Scope.__init__: locals / globals): the pin then lists both
        ent = AUDIT.get(k)
        ok = ent is not None and pin(s) in PINS.get(k, ())
        if ok:
            cls, model, _, why = ent
            out.append(dict(s, cls=cls, modelled=bool(model), model=model, why=why))
        else:
            why = 'NOT AUDITED: new site' if ent is None else 'NOT AUDITED: consumption changed (pin %s)' % pin(s)
            out.append(dict(s, cls=R, modelled=False, model='', why=why))
            unknown.append(dict(s, why=why))
    missing = [k for k in AUDIT if k not in seen]
    return out, unknown, missing


def render(classified):
    L = ['/- GENERATED by translators/tr_perm.py from the ast of supp/*.py -- do not edit.',
         '   Every set-producing expression / mapping iteration of the package with its consumption and audit class. -/',
         'namespace SuppModel.Perm.Generated',
         '',
         'inductive SiteClass where',
         '  | membership | sortedBeforeOutput | mapConstruction | orderReachesOutput',
         '  deriving DecidableEq, Repr',
         '',
         'structure Site where',
         '  file : String',
         '  func : String',
         '  expr : String',
         '  consumer : String',
         '  cls : SiteClass',
         '  modelled : Bool',
         '  model : String',
         '  note : String',
         '  deriving Repr',
         '',
         'def sites : List Site := [']
    cn = {M: '.membership', S: '.sortedBeforeOutput', B: '.mapConstruction', R: '.orderReachesOutput'}
    rows = []
    for s in classified:
        rows.append('  { file := %s, func := %s, expr := %s,\n    consumer := %s,\n    cls := %s, modelled := %s, model := %s,\n    note := %s }'
                    % (lean_str(s['file']), lean_str(s['func']), lean_str(s['expr']),
                       lean_str('; '.join([s['consumer']] + list(s['uses']))[:600]),
                       cn[s['cls']], 'true' if s['modelled'] else 'false', lean_str(s['model']), lean_str(s['why'])))
    L.append(',\n'.join(rows))
    L += [']', '', 'end SuppModel.Perm.Generated', '']
    return '\n'.join(L)


def translate(repo):
    """-> (lean source, unknown sites, known-but-missing fingerprints)"""
    classified, unknown, missing = classify(discover(repo))
    return render(classified), unknown, missing


def outputs(repo):
    return {'SuppModel/Generated/Perm.lean': translate(repo)[0]}


if __name__ == '__main__':
    import sys
    import json
    repo = sys.argv[1] if len(sys.argv) > 1 else '/repo'
    for s in discover(repo):
        mark = ' ' if pin(s) in PINS.get(known_key(s), ()) else '?'
        print(mark, known_key(s), pin(s))
