#!/usr/bin/env python3
"""Source pins: the degenerate translator for hand-written models.

A hand-written Lean model transliterates particular functions of supp.  The correspondence runs compare model and code on
generated inputs, which a change built around a size threshold or a rare input evades (seeded batch 6 in DESIGN.md section 10).
So every check also verifies that the functions in the FOOTPRINT of its models are, as abstract syntax, exactly the ones that
were read when the model was written or last re-audited: `pins.json` holds sha1(ast.dump(function without docstring)) for every
function and method of supp, FOOTPRINT says which of them each property's models speak about.  A differing, missing or new
function in the footprint breaks the obligation "the model transliterates the current source"; it is not by itself a violation
of the property (the check then relies on its searches for a failing input and otherwise reports `no-failing-input-found`).

    tr_pins.py --update [repo]     rewrite pins.json from the working tree (after re-auditing the models against a changed source)
    tr_pins.py --show Cxx [repo]   list the footprint of a property with the current verdict per function
"""
import ast
import fnmatch
import hashlib
import json
import os
import sys

HERE = os.path.dirname(os.path.abspath(__file__))
PINS = os.path.join(HERE, 'pins.json')

UTIL_ANALYSIS = ['Location.*', 'insert_loc', 'visitor', 'StopVisiting.*', 'get_expr_end_visitor.*', 'get_name_usages_visitor.*',
                 'StopNodeVisitor.*', 'get_indexes_for_target', 'np', 'clone_node']
UTIL_MARK = ['Source.*', 'splitlines', 'unmark', 'marked', 'get_marked_*', 'get_any_marked_*', 'split_pkg', 'join_pkg', '_join_level_pkg']
UTIL_MEMO = ['cycle_guard.*', 'cached_property.*', 'context_property']
COMPAT = ('supp/compat.py', ['*'])       # iteritems / itervalues / range / builtins shims used by every analysis module
ANALYSIS = [('supp/nast.py', ['*']), ('supp/scope.py', ['*']), ('supp/merged_dict.py', ['*']), ('supp/util.py', UTIL_ANALYSIS + ['<module>']), COMPAT]
NAMES = ['MultiName.*', 'UndefinedName.*', 'Name.*', 'AssignedName.*', 'ArgumentName.__init__']
ATTRS = ['<module>', 'first_name', 'ArgumentName.*', 'Callable.*', 'Resolvable.*', 'Name.*', 'Object.*', 'ClassObject.*', 'InstanceValue.*', 'FuncObject.*', 'RuntimeName.*', 'MultiValue.*', 'CompositeValue.*',
         'AssignedAttribute.*', 'AttrObject.*', 'AdditionalNameWrapper.*']

FOOTPRINT = {
    'C01': ANALYSIS + [('supp/linter.py', ['*']), ('supp/name.py', NAMES)],
    'C02': ANALYSIS + [('supp/linter.py', ['*']), ('supp/name.py', NAMES)],
    'C03': ANALYSIS + [('supp/linter.py', ['*']), ('supp/name.py', NAMES)],
    'C04': [COMPAT, ('supp/scope.py', ['*']), ('supp/merged_dict.py', ['*']), ('supp/util.py', ['Location.*', 'insert_loc'] + UTIL_MEMO),
            ('supp/evaluator.py', ['EvalCtx.__init__', 'EvalCtx.evaluate']),
            ('supp/name.py', ['MultiValue.*', 'CompositeValue.*', 'ImportedName.*'])],
    'C05': ANALYSIS,
    'C06': [COMPAT, ('supp/name.py', ATTRS), ('supp/evaluator.py', ['*']),
            ('supp/scope.py', ['SourceScope.assigns', 'SourceScope.add_attr_assign', 'SourceScope.names', 'SourceScope.exported_names',
                               'SourceScope.resolve_star_imports', 'ClassScope.*', 'FuncScope.*']),
            ('supp/module.py', ['*'])],
    'C07': [COMPAT, ('supp/project.py', ['Project.__init__', 'Project.get_path', 'Project.list_packages', 'Project.get_module', 'Project.get_nmodule',
                                 'Project.norm_package', 'Project._package_parts', 'Project._renormed']),
            ('supp/assistant.py', ['list_packages', 'assist']), ('supp/util.py', ['split_pkg', 'join_pkg', '_join_level_pkg'])],
    'C08': ANALYSIS + [('supp/assistant.py', ['*']), ('supp/linter.py', ['*']), ('supp/util.py', UTIL_MARK)],
    'C09': [COMPAT, ('supp/project.py', ['*']), ('supp/module.py', ['*']), ('supp/name.py', ['ImportedName.*'])],
    'C10': [COMPAT, ('supp/linter.py', ['*']), ('supp/scope.py', ['SourceScope.find_id_loc', 'SourceScope.alias_start']),
            ('supp/nast.py', ['extract_visitor.visit_Import', 'extract_visitor.visit_ImportFrom'])],
    'C11': [COMPAT, ('supp/scope.py', ['SourceScope.find_id_loc', 'SourceScope.alias_start', 'FuncScope.__init__', 'ClassScope.__init__']),
            ('supp/util.py', ['splitlines', 'Source.*']),
            ('supp/nast.py', ['extract_visitor.visit_Import', 'extract_visitor.visit_ImportFrom'])],
    'C12': ANALYSIS + [('supp/assistant.py', ['assist', 'list_packages']), ('supp/util.py', UTIL_MARK)],
    'C13': ANALYSIS + [('supp/linter.py', ['*'])],
    'C14': [('supp/umsgpack.py', ['*'])],
    'C15': [COMPAT, ('supp/server.py', ['*']), ('supp/remote.py', ['*']), ('supp/umsgpack.py', ['*'])],
    'C16': [('supp/remote.py', ['*']), ('supp/server.py', ['Server.run', 'Server.__init__'])],
    'C17': [COMPAT, ('supp/name.py', ['MultiName.*', 'UndefinedName.*']), ('supp/scope.py', ['*']), ('supp/merged_dict.py', ['*']),
            ('supp/assistant.py', ['*']), ('supp/linter.py', ['*'])],
}


def _strip_doc(node):
    body = getattr(node, 'body', None)
    if isinstance(body, list) and body and isinstance(body[0], ast.Expr) and isinstance(getattr(body[0], 'value', None), ast.Constant) \
            and isinstance(body[0].value.value, str):
        node.body = body[1:] or [ast.Pass()]


def _dump(n):
    """ast.dump without positions and without empty / None fields (the same text under every interpreter version: 3.12 added
    `type_params=[]`, 3.13 stopped printing empty lists)"""
    if isinstance(n, ast.AST):
        parts = []
        for f, v in ast.iter_fields(n):
            if v is None or v == []:
                continue
            parts.append('%s=%s' % (f, _dump(v)))
        return '%s(%s)' % (type(n).__name__, ', '.join(parts))
    if isinstance(n, list):
        return '[%s]' % ', '.join(_dump(x) for x in n)
    return repr(n)


def _h(nodes):
    return hashlib.sha1('\n'.join(_dump(n) for n in nodes).encode()).hexdigest()[:12]


def hash_file(path):
    """-> {qualname: hash}: every function / method (nested functions belong to their parent), plus `<module>` and `Class.<class>`
    for the statements that are not definitions (tables, constants, decorators' targets, base lists)"""
    tree = ast.parse(open(path, encoding='utf-8').read())
    for n in ast.walk(tree):
        _strip_doc(n)
    out = {}
    rest = []
    for n in tree.body:
        if isinstance(n, (ast.FunctionDef, ast.AsyncFunctionDef)):
            out[n.name] = _h([n])
        elif isinstance(n, ast.ClassDef):
            crest = [ast.Expr(value=b) for b in n.bases] + [ast.Expr(value=k.value) for k in n.keywords] + \
                [ast.Expr(value=d) for d in n.decorator_list]
            for m in n.body:
                if isinstance(m, (ast.FunctionDef, ast.AsyncFunctionDef)):
                    out['%s.%s' % (n.name, m.name)] = _h([m])
                else:
                    crest.append(m)
            out['%s.<class>' % n.name] = _h(crest)
        else:
            rest.append(n)
    out['<module>'] = _h(rest)
    return out


def current(repo):
    out = {}
    d = os.path.join(repo, 'supp')
    for f in sorted(os.listdir(d)):
        if f.endswith('.py'):
            out['supp/' + f] = hash_file(os.path.join(d, f))
    return out


def selected(names, patterns):
    sel = set()
    for p in patterns:
        pats = [p] if p != '*' else ['*']
        for q in names:
            if any(fnmatch.fnmatchcase(q, x) for x in pats):
                sel.add(q)
    if '*' in patterns:
        sel |= set(names)
    else:
        # the class-level statements of every class one of whose methods is selected
        for q in list(sel):
            if '.' in q:
                c = q.split('.')[0] + '.<class>'
                if c in names:
                    sel.add(c)
    return sel


def audit(repo, prop):
    """-> (ok, problems, n_functions)"""
    pins = json.load(open(PINS))
    problems = []
    n = 0
    for rel, patterns in FOOTPRINT[prop]:
        path = os.path.join(repo, rel)
        if not os.path.exists(path):
            problems.append('%s: file is gone' % rel)
            continue
        try:
            now = hash_file(path)
        except SyntaxError as e:
            problems.append('%s: does not parse (%s)' % (rel, e))
            continue
        was = pins.get(rel, {})
        names = set(now) | set(was)
        for q in sorted(selected(names, patterns)):
            n += 1
            if q not in now:
                problems.append('%s: %s no longer exists' % (rel, q))
            elif q not in was:
                problems.append('%s: %s is new (not audited)' % (rel, q))
            elif now[q] != was[q]:
                problems.append('%s: %s changed since the models were audited against it (pin %s, now %s)' % (rel, q, was[q], now[q]))
    return not problems, problems, n


if __name__ == '__main__':
    args = sys.argv[1:]
    repo = '/repo'
    if args and args[0] == '--update':
        repo = args[1] if len(args) > 1 else repo
        json.dump(current(repo), open(PINS, 'w'), indent=1, sort_keys=True)
        print('pins.json rewritten from', repo)
    elif args and args[0] == '--show':
        repo = args[2] if len(args) > 2 else repo
        ok, problems, n = audit(repo, args[1])
        print('%s: %d functions in the footprint, %s' % (args[1], n, 'all pinned' if ok else '%d problems' % len(problems)))
        for p in problems:
            print('  ' + p)
    else:
        print(__doc__)
