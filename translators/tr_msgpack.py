"""Translator: supp/umsgpack.py -> lean/SuppModel/Generated/Msgpack.lean

Regenerated on every run of the C14/C15 checks.  Two parts:

* the unpack dispatch table, read from the *loaded module object*
  (``umsgpack._unpack_dispatch_table``: byte -> name of the family decoder);
* the ``_pack_integer/_pack_string/_pack_binary/_pack_ext/_pack_array/_pack_map``
  format-selection chains, translated from their ``ast`` into Lean if-chains
  over the hand-written ``struct.pack`` model (SuppModel/Msgpack/Struct.lean).

Only a small Python subset is recognised; anything else raises
``Untranslatable`` -- the caller treats that as a broken tie, not a crash.
"""
import ast, os, sys, importlib, io


class Untranslatable(Exception):
    pass


FAMILY = {
    '_unpack_integer': 'integer', '_unpack_map': 'map', '_unpack_array': 'array',
    '_unpack_string': 'string', '_unpack_nil': 'nil', '_unpack_reserved': 'reserved',
    '_unpack_boolean': 'boolean', '_unpack_binary': 'binary', '_unpack_ext': 'ext',
    '_unpack_float': 'float',
}

FMT = {  # struct format -> Lean packers, one per argument
    'b': ['packI8'], 'B': ['packU8'], '>h': ['packI16'], '>H': ['packU16'],
    '>i': ['packI32'], '>I': ['packU32'], '>q': ['packI64'], '>Q': ['packU64'],
    'BB': ['packU8', 'packU8'], '>HB': ['packU16', 'packU8'], '>IB': ['packU32', 'packU8'],
}


def const_int(node):
    """integer constant expressions: literals, unary minus, **, -, +, *"""
    try:
        src = ast.unparse(node)
    except Exception:
        raise Untranslatable('const')
    for n in ast.walk(node):
        if not isinstance(n, (ast.Constant, ast.BinOp, ast.UnaryOp, ast.Pow, ast.Sub, ast.Add,
                              ast.Mult, ast.USub, ast.Expression)):
            raise Untranslatable('non-constant bound: ' + src)
        if isinstance(n, ast.Constant) and not (isinstance(n.value, int) and not isinstance(n.value, bool)):
            raise Untranslatable('non-int constant: ' + src)
    return eval(compile(ast.Expression(node), '<const>', 'eval'), {'__builtins__': {}})


def lean_int(n):
    return '(%d)' % n if n < 0 else str(n)


class FnTranslator:
    """one _pack_* function: `subject` describes what the chain compares"""

    def __init__(self, fn, kind):
        self.fn = fn
        self.kind = kind  # 'int' | 'bytes' (str/bin payload) | 'ext' | 'len' (array/map header)

    def scalar(self, node):
        """expression usable as a comparison subject / struct.pack argument -> Lean Int term"""
        s = ast.unparse(node)
        if self.kind == 'int' and s == 'obj':
            return 'obj'
        if self.kind in ('bytes', 'len') and s == 'len(obj)':
            return 'len'
        if self.kind == 'ext' and s == 'len(obj.data)':
            return 'len'
        if self.kind == 'ext' and s in ('obj.type & 255', 'obj.type & 0xff'):
            return '(ty % 256)'
        if self.kind in ('bytes', 'len') and isinstance(node, ast.BinOp) and isinstance(node.op, ast.BitOr) \
                and ast.unparse(node.right) == 'len(obj)':
            return '(orNat %s len)' % lean_int(const_int(node.left))
        raise Untranslatable('scalar: ' + s)

    def cond(self, node):
        if not (isinstance(node, ast.Compare) and len(node.ops) == 1):
            raise Untranslatable('condition: ' + ast.unparse(node))
        op = {ast.Lt: '<', ast.LtE: '≤', ast.Gt: '>', ast.GtE: '≥', ast.Eq: '='}.get(type(node.ops[0]))
        if op is None:
            raise Untranslatable('operator: ' + ast.unparse(node))
        return '%s %s %s' % (self.scalar(node.left), op, lean_int(const_int(node.comparators[0])))

    def bytes_expr(self, node):
        """-> list of Lean terms of type Except Err Bytes"""
        if isinstance(node, ast.BinOp) and isinstance(node.op, ast.Add):
            return self.bytes_expr(node.left) + self.bytes_expr(node.right)
        if isinstance(node, ast.Constant) and isinstance(node.value, bytes):
            return ['(.ok [%s])' % ', '.join(str(b) for b in node.value)]
        if isinstance(node, ast.Call) and ast.unparse(node.func) == 'struct.pack':
            fmt = node.args[0].value
            if fmt not in FMT or len(FMT[fmt]) != len(node.args) - 1:
                raise Untranslatable('struct format: %r' % (fmt,))
            return ['(%s %s)' % (p, self.scalar(a)) for p, a in zip(FMT[fmt], node.args[1:])]
        s = ast.unparse(node)
        if (self.kind == 'bytes' and s == 'obj') or (self.kind == 'ext' and s == 'obj.data'):
            return ['(.ok payload)']
        raise Untranslatable('bytes expression: ' + s)

    def stmts(self, body, ind):
        pad = '  ' * ind
        if len(body) != 1:
            raise Untranslatable('branch with %d statements in %s' % (len(body), self.fn.name))
        st = body[0]
        if isinstance(st, ast.If):
            out = pad + 'if %s then\n' % self.cond(st.test)
            out += self.stmts(st.body, ind + 1)
            out += pad + 'else\n'
            if not st.orelse:
                raise Untranslatable('if without else in ' + self.fn.name)
            out += self.stmts(st.orelse, ind + 1)
            return out
        if isinstance(st, ast.Raise):
            exc = ast.unparse(st.exc.func) if isinstance(st.exc, ast.Call) else ast.unparse(st.exc)
            if exc != 'UnsupportedTypeException':
                raise Untranslatable('raise ' + exc)
            return pad + '.error .unsupported\n'
        if isinstance(st, ast.Expr) and isinstance(st.value, ast.Call) and ast.unparse(st.value.func) == 'fp.write' \
                and len(st.value.args) == 1:
            parts = self.bytes_expr(st.value.args[0])
            return pad + 'catBytes [%s]\n' % ', '.join(parts)
        raise Untranslatable('statement: ' + ast.unparse(st))


def translate(repo):
    path = os.path.join(repo, 'supp', 'umsgpack.py')
    src = open(path).read()
    tree = ast.parse(src)
    fns = {n.name: n for n in tree.body if isinstance(n, ast.FunctionDef)}
    out = io.StringIO()
    w = out.write
    w('/- GENERATED by translators/tr_msgpack.py from supp/umsgpack.py -- do not edit. -/\n')
    w('import SuppModel.Msgpack.Struct\n\nnamespace SuppModel.Msgpack.Generated\nopen SuppModel.Msgpack\n\n')

    # ---- pack chains
    def emit(name, lean_name, kind, params, strip_head=0, strip_tail=0):
        fn = fns.get(name)
        if fn is None:
            raise Untranslatable('missing function ' + name)
        body = [s for s in fn.body if not (isinstance(s, ast.Expr) and isinstance(s.value, ast.Constant))]
        head, body = body[:strip_head], body[strip_head:]
        tail = body[len(body) - strip_tail:] if strip_tail else []
        body = body[:len(body) - strip_tail] if strip_tail else body
        t = FnTranslator(fn, kind)
        w('def %s %s : Except Err Bytes :=\n' % (lean_name, params))
        w(t.stmts(body, 1))
        w('\n')
        return head, tail

    emit('_pack_integer', 'packInteger', 'int', '(obj : Int)')
    head, _ = emit('_pack_string', 'packString', 'bytes', '(len : Int) (payload : Bytes)', strip_head=1)
    if ast.unparse(head[0]) != "obj = obj.encode('utf-8')":
        raise Untranslatable('_pack_string head: ' + ast.unparse(head[0]))
    emit('_pack_binary', 'packBinary', 'bytes', '(len : Int) (payload : Bytes)')
    emit('_pack_ext', 'packExt', 'ext', '(len : Int) (ty : Int) (payload : Bytes)')
    _, tail = emit('_pack_array', 'packArrayHeader', 'len', '(len : Int)', strip_tail=1)
    if ast.unparse(tail[0]).replace('\n', ';').replace(' ', '') != 'foreinobj:;pack(e,fp)':
        raise Untranslatable('_pack_array loop: ' + ast.unparse(tail[0]))
    _, tail = emit('_pack_map', 'packMapHeader', 'len', '(len : Int)', strip_tail=1)
    if ast.unparse(tail[0]).replace('\n', ';').replace(' ', '') not in ('fork,vinobj.items():;pack(k,fp);pack(v,fp)',
                                                                       'for(k,v)inobj.items():;pack(k,fp);pack(v,fp)'):
        raise Untranslatable('_pack_map loop: ' + ast.unparse(tail[0]))

    # fixed one-liners, checked by shape
    expect = {
        '_pack_nil': "fp.write(b'\\xc0')",
        '_pack_boolean': "fp.write(b'\\xc3' if obj else b'\\xc2')",
    }
    for name, shape in expect.items():
        fn = fns.get(name)
        got = '; '.join(ast.unparse(s) for s in fn.body) if fn else None
        if got != shape:
            raise Untranslatable('%s is %r' % (name, got))
    fl = fns.get('_pack_float')
    got = ast.unparse(fl).replace('\n', ';').replace(' ', '') if fl else ''
    if got != "def_pack_float(obj,fp):;if_float_size==64:;fp.write(b'\\xcb'+struct.pack('>d',obj));else:;fp.write(b'\\xca'+struct.pack('>f',obj))":
        raise Untranslatable('_pack_float: ' + got)

    # ---- type dispatch order of _pack3 (isinstance chain)
    p3 = fns.get('_pack3')
    chain = []
    node = [s for s in p3.body if isinstance(s, ast.If)]
    if len(node) != 1:
        raise Untranslatable('_pack3 shape')
    node = node[0]
    while True:
        chain.append((ast.unparse(node.test), ast.unparse(node.body[0])))
        if len(node.orelse) == 1 and isinstance(node.orelse[0], ast.If):
            node = node.orelse[0]
        else:
            chain.append(('else', ast.unparse(node.orelse[0])))
            break
    want = [
        ('obj is None', '_pack_nil(obj, fp)'),
        ('isinstance(obj, bool)', '_pack_boolean(obj, fp)'),
        ('isinstance(obj, int)', '_pack_integer(obj, fp)'),
        ('isinstance(obj, float)', '_pack_float(obj, fp)'),
        ('compatibility and isinstance(obj, str)', "_pack_oldspec_raw(obj.encode('utf-8'), fp)"),
        ('compatibility and isinstance(obj, bytes)', '_pack_oldspec_raw(obj, fp)'),
        ('isinstance(obj, str)', '_pack_string(obj, fp)'),
        ('isinstance(obj, bytes)', '_pack_binary(obj, fp)'),
        ('isinstance(obj, list) or isinstance(obj, tuple)', '_pack_array(obj, fp)'),
        ('isinstance(obj, dict)', '_pack_map(obj, fp)'),
        ('isinstance(obj, Ext)', '_pack_ext(obj, fp)'),
    ]
    if chain[:-1] != want or not chain[-1][1].startswith('raise UnsupportedTypeException'):
        raise Untranslatable('_pack3 type dispatch changed: %r' % (chain,))

    # ---- dispatch table from the loaded module
    sys.path.insert(0, repo)
    for k in [k for k in sys.modules if k == 'supp' or k.startswith('supp.')]:
        del sys.modules[k]
    um = importlib.import_module('supp.umsgpack')
    if um.compatibility:
        raise Untranslatable('compatibility mode enabled')
    table = um._unpack_dispatch_table
    rows = []
    for b in range(256):
        fn = table.get(bytes([b]))
        fam = FAMILY.get(getattr(fn, '__name__', None))
        rows.append(fam or 'missing')
    w('inductive Family where\n  | integer | map | array | string | nil | reserved | boolean | binary | ext | float | missing\n  deriving DecidableEq, Repr\n\n')
    w('def dispatchTable : List Family := [\n')
    for i in range(0, 256, 8):
        w('  ' + ', '.join('.' + r for r in rows[i:i + 8]) + (',' if i < 248 else '') + '\n')
    w(']\n\n')
    w('def dispatch (code : Nat) : Family := dispatchTable.getD code .missing\n\n')
    w('end SuppModel.Msgpack.Generated\n')
    return out.getvalue()


def outputs(repo):
    return {'SuppModel/Generated/Msgpack.lean': translate(repo)}


if __name__ == '__main__':
    sys.stdout.write(translate(sys.argv[1] if len(sys.argv) > 1 else '/repo'))
