"""Translator: text-search constants of supp -> lean/SuppModel/Generated/Text.lean

Read from the *source* (ast only, nothing is imported or executed apart from the constant
expression ``string.whitespace + '<literal>'``):

* supp/scope.py     IMPORT_DELIMETERS, IMPORT_END_DELIMETERS; the body of SourceScope.find_id_loc
                    (compared against a template with holes for the two window constants);
                    the find_id_loc call in FuncScope.__init__ and ClassScope.__init__
* supp/nast.py      the find_id_loc calls in visit_Import / visit_ImportFrom
* supp/util.py      SOURCE_MARK; the bodies of unmark / marked / split_pkg / join_pkg, of Source.__init__ (mark
                    insertion) and Source.lines (template comparison); splitlines (template with a hole for the regex)
* supp/assistant.py the prefix expression ``re.split(<regex>, line)[-1]`` (only r'\\W' is modelled),
                    the ``from`` branch: the regex of ``re.match(<regex>, line)`` (one modelled shape) and the rpartition separator,
                    the proposal expression ``sorted(n for n in names if not marked(n))``,
                    the body of ``location`` (its ``loc`` projection un-shifts positions right of the cursor) and ``_loc``

Anything else raises ``Untranslatable`` -- the caller treats that as a broken tie, not a crash.
"""
import ast
import os
import string


class Untranslatable(Exception):
    pass


REL = 'SuppModel/Generated/Text.lean'


# ----------------------------------------------------------------------------- helpers

def parse(repo, rel):
    path = os.path.join(repo, rel)
    with open(path, encoding='utf-8') as f:
        return ast.parse(f.read(), path)


def lean_char(c):
    o = ord(c)
    if c == "'":
        return "'\\''"
    if c == '\\':
        return "'\\\\'"
    if 32 <= o < 127:
        return "'%s'" % c
    if o < 256:
        return "'\\x%02x'" % o
    return "'\\u{%x}'" % o


def lean_chars(s):
    return '[' + ', '.join(lean_char(c) for c in s) + ']'


def str_const(node, what):
    """a str literal, or string.whitespace + a str literal"""
    if isinstance(node, ast.Constant) and isinstance(node.value, str):
        return node.value
    if (isinstance(node, ast.BinOp) and isinstance(node.op, ast.Add)
            and isinstance(node.left, ast.Attribute) and isinstance(node.left.value, ast.Name)
            and node.left.value.id == 'string' and node.left.attr == 'whitespace'
            and isinstance(node.right, ast.Constant) and isinstance(node.right.value, str)):
        return string.whitespace + node.right.value
    raise Untranslatable('%s: unsupported constant expression %s' % (what, ast.unparse(node)))


def module_const(tree, name):
    found = [n for n in tree.body if isinstance(n, ast.Assign) and len(n.targets) == 1
             and isinstance(n.targets[0], ast.Name) and n.targets[0].id == name]
    if len(found) != 1:
        raise Untranslatable('%s: expected exactly one module-level assignment, found %d' % (name, len(found)))
    return str_const(found[0].value, name)


def find_def(body, name, kind=(ast.FunctionDef,)):
    found = [n for n in body if isinstance(n, kind) and n.name == name]
    if len(found) != 1:
        raise Untranslatable('definition %s: found %d' % (name, len(found)))
    return found[0]


def norm_body(fn):
    """ast dump of a function body without docstring-like/type-comment noise"""
    return [ast.dump(s) for s in fn.body
            if not (isinstance(s, ast.Expr) and isinstance(s.value, ast.Constant))]


def same_body(fn, template_src, what):
    t = ast.parse(template_src).body[0]
    if [a.arg for a in fn.args.args] != [a.arg for a in t.args.args] or \
            [ast.dump(d) for d in fn.args.defaults] != [ast.dump(d) for d in t.args.defaults]:
        raise Untranslatable('%s: signature changed: %s' % (what, ast.unparse(fn.args)))
    if norm_body(fn) != norm_body(t):
        raise Untranslatable('%s: body is not the modelled shape' % what)


# ----------------------------------------------------------------------------- templates (the modelled shapes)

FIND_ID_LOC = '''
def find_id_loc(self, id, start, shift=0, delimeters=True):
    sl, pos = start
    source = '\\n'.join(self.source.lines[sl-%d:sl+%d])
    source_len = len(source)
    while True:
        pos = source.find(id, pos + 1)
        if pos < 0:
            break

        if pos == 0 or not delimeters or source[pos-1] in IMPORT_DELIMETERS:
            ep = pos + len(id)
            if ep >= source_len or not delimeters or source[ep] in IMPORT_END_DELIMETERS:
                return (sl + source.count('\\n', 0, pos),
                        pos - source.rfind('\\n', 0, pos) - 1 + shift)

    return start
'''

UNMARK = '''
def unmark(name):
    pos = name.find(SOURCE_MARK)
    result = name[:pos] + name[pos+len(SOURCE_MARK):]
    dpos = result.find('.', pos)
    if dpos >= 0:
        result = result[:dpos]
    return result
'''

MARKED = '''
def marked(name):
    return SOURCE_MARK in name
'''

JOIN_PKG = '''
def join_pkg(package, module):
    if package.endswith('.'):
        return package + module
    else:
        return package + '.' + module
'''

SPLIT_PKG = '''
def split_pkg(package):
    if not package.strip('.'):
        return package, ''

    head, sep, tail = package.rpartition('.')
    if not head:
        if sep:
            head = sep
    elif head.endswith('.'):
        head += '.'
    return head, tail
'''

SOURCE_INIT = '''
def __init__(self, source, filename=None, position=None):
    self.orig_source = source
    self.filename = filename or '<string>'
    if position:
        ln, col = position
        lines = splitlines(source) or ['']
        if ln > len(lines):
            lines.extend([''] * (ln - len(lines)))
        line = lines[ln-1]
        lines[ln-1] = line[:col] + SOURCE_MARK + line[col:]
        self.source = '\\n'.join(lines)
        self.lines = lines
    else:
        self.source = source
'''

SOURCE_LINES = '''
def lines(self):
    return splitlines(self.source) or ['']
'''

SPLITLINES = '''
def splitlines(source):
    lines = re.split(%r, source)
    if not lines[-1]:
        lines.pop()
    return lines
'''

ASSIST_HEAD = '''
def assist(project, source, position, filename=None, debug=False):
    cycle_guard.request()
    source = Source(source, filename, position)
    ctx = EvalCtx(project)
    ln, col = position
    line = source.lines[ln - 1][:col]
    from_module = re.match(%r, line)
    if from_module:
        package, sep, prefix = from_module.group(1).rpartition(%r)
        if (not package or package.startswith('.')) and sep:
            package += '.'
        return prefix, list_packages(project, package, filename)
'''

LOCATION = '''
def location(project, source, position, filename=None, debug=False):
    cycle_guard.request()
    source = Source(source, filename, position)

    debug and print_dump(source.tree)
    scope = extract_scope(source, project)

    result = []
    marked_import = get_marked_import(source.tree)
    ctx = EvalCtx(project)

    if marked_import:
        head, tail = marked_import
        try:
            if tail is None:
                name = project.get_nmodule(head, filename)
            else:
                if not tail:
                    full = head
                    head, tail = split_pkg(head)
                else:
                    full = join_pkg(head, tail)

                module = project.get_nmodule(head, filename)
                name = module.get_attr(ctx, tail)
                if not name:
                    name = project.get_nmodule(full, filename)
        except ImportError:
            name = None

        if name:
            result = ctx.declarations(name, [])
    else:
        node = get_marked_name(source.tree) or get_marked_atribute(source.tree)
        if node:
            result = ctx.declarations(node, [])

    def loc(n):
        ln, col = n.declared_at
        if n.filename == source.filename and ln == position[0] and col > position[1]:
            col -= len(SOURCE_MARK)
        return _loc((ln, col), n.filename)

    locs = []
    for r in result:
        if isinstance(r, list):
            alts = [loc(n) for n in r if hasattr(n, 'declared_at')]
            if alts:
                locs.append(alts)
        elif hasattr(r, 'declared_at'):
            locs.append(loc(r))

    return locs
'''

LOC_HELPER = '''
def _loc(location, filename):
    return {'loc': location, 'file': filename}
'''

ASSIST_RETURN = "return prefix, sorted(n for n in names if not marked(n))"


# ----------------------------------------------------------------------------- extraction

def window_constants(fn):
    """the a, b of lines[sl-a:sl+b] in find_id_loc"""
    for n in ast.walk(fn):
        if isinstance(n, ast.Subscript) and isinstance(n.slice, ast.Slice):
            lo, hi = n.slice.lower, n.slice.upper
            if (isinstance(lo, ast.BinOp) and isinstance(lo.op, ast.Sub) and isinstance(lo.left, ast.Name)
                    and lo.left.id == 'sl' and isinstance(lo.right, ast.Constant) and type(lo.right.value) is int
                    and isinstance(hi, ast.BinOp) and isinstance(hi.op, ast.Add) and isinstance(hi.left, ast.Name)
                    and hi.left.id == 'sl' and isinstance(hi.right, ast.Constant) and type(hi.right.value) is int):
                return lo.right.value, hi.right.value
    raise Untranslatable('find_id_loc: window slice lines[sl-a:sl+b] not found')


def call_site(fn, what, name_exprs):
    """the unique find_id_loc call whose first argument is one of name_exprs or ' ' + one of them
    -> (space_prefixed, shift, delims)"""
    sites = []
    for n in ast.walk(fn):
        if isinstance(n, ast.Call) and isinstance(n.func, ast.Attribute) and n.func.attr == 'find_id_loc':
            if n.keywords or not (2 <= len(n.args) <= 4):
                raise Untranslatable('%s: find_id_loc call with unsupported arguments: %s' % (what, ast.unparse(n)))
            a0 = n.args[0]
            if isinstance(a0, ast.BinOp) and isinstance(a0.op, ast.Add) and isinstance(a0.left, ast.Constant) \
                    and a0.left.value == ' ' and ast.unparse(a0.right) in name_exprs:
                spaced = True
            elif ast.unparse(a0) in name_exprs:
                spaced = False
            else:
                continue          # e.g. the PY2-only '*'/'**' argument search
            if not (isinstance(n.args[1], ast.Name) and n.args[1].id == 'start'
                    or isinstance(n.args[1], ast.Call) and isinstance(n.args[1].func, ast.Name)
                    and n.args[1].func.id == 'np' and len(n.args[1].args) == 1
                    and isinstance(n.args[1].args[0], ast.Name)
                    or ast.unparse(n.args[1]) == ALIAS_START_CALL):
                raise Untranslatable('%s: start argument is neither np(node) nor %s: %s' % (what, ALIAS_START_CALL, ast.unparse(n)))
            shift, delims = 0, True
            if len(n.args) >= 3:
                if not (isinstance(n.args[2], ast.Constant) and type(n.args[2].value) is int and n.args[2].value >= 0):
                    raise Untranslatable('%s: shift is not a literal: %s' % (what, ast.unparse(n)))
                shift = n.args[2].value
            if len(n.args) == 4:
                if not (isinstance(n.args[3], ast.Constant) and type(n.args[3].value) is bool):
                    raise Untranslatable('%s: delimiter flag is not a literal: %s' % (what, ast.unparse(n)))
                delims = n.args[3].value
            sites.append((spaced, shift, delims))
    if len(sites) != 1:
        raise Untranslatable('%s: expected one find_id_loc call on the bound name, found %d' % (what, len(sites)))
    return sites[0]


ALIAS_START_CALL = 'self.top.alias_start(node, a)'

# SourceScope.alias_start (supp 8033e90): the search for an imported name starts at its alias, not at the statement.  The Lean
# theorems about find_id_loc quantify over every start; the harness (textgen.alias_start) re-implements this start independently.
ALIAS_START = '''
def alias_start(self, node, alias):
    try:
        if alias.asname:
            ln, col = alias.end_lineno, alias.end_col_offset - len(alias.asname.encode('utf-8'))
        else:
            ln, col = alias.lineno, alias.col_offset
        line = self.source.lines[ln - 1]
    except (AttributeError, TypeError, IndexError):
        return np(node)
    col = len(line.encode('utf-8')[:col].decode('utf-8', 'ignore'))
    if col == 0:
        return ln - 1, len(self.source.lines[ln - 2])
    return ln, col - 1
'''


def start_is_alias_start(fn, what, scope_tree):
    """visit_Import*: the start argument is `self.top.alias_start(node, a)` inside `for a in node.names`, and
    SourceScope.alias_start is the audited function"""
    loops = [s for s in fn.body if isinstance(s, ast.For) and ast.unparse(s.target) == 'a' and ast.unparse(s.iter) == 'node.names']
    if len(loops) != 1:
        raise Untranslatable('%s: `for a in node.names` not found' % what)
    cls = find_def(scope_tree.body, 'SourceScope', (ast.ClassDef,))
    fn2 = find_def(cls.body, 'alias_start')
    body = [s for s in fn2.body if not (isinstance(s, ast.Expr) and isinstance(s.value, ast.Constant))]
    tmpl = ast.parse(ALIAS_START).body[0]
    if ast.dump(fn2.args) != ast.dump(tmpl.args) or [ast.dump(s) for s in body] != [ast.dump(s) for s in tmpl.body]:
        raise Untranslatable('SourceScope.alias_start is not the modelled shape')


def assist_parts(fn):
    """-> (from_regex, sep2, regex)"""
    body = [s for s in fn.body if not (isinstance(s, ast.Expr) and isinstance(s.value, ast.Constant))]
    if len(body) < 8 or not isinstance(body[6], ast.If):
        raise Untranslatable('assist: head is not the modelled shape')
    try:
        from_regex = body[5].value.args[0].value
        sep2 = body[6].body[0].value.args[0].value
    except (AttributeError, IndexError):
        raise Untranslatable('assist: from-branch is not the modelled shape')
    for v in (from_regex, sep2):
        if not isinstance(v, str):
            raise Untranslatable('assist: from-branch constants are not strings')
    if len(sep2) != 1:
        raise Untranslatable('assist: the rpartition separator must be a single character')
    tmpl = ast.parse(ASSIST_HEAD % (from_regex, sep2)).body[0]
    if [ast.dump(s) for s in body[:7]] != [ast.dump(s) for s in tmpl.body]:
        raise Untranslatable('assist: head (request start, line = ...[:col], from-branch) is not the modelled shape')
    # the generic prefix
    regex = None
    for s in body[7:]:
        if isinstance(s, ast.Assign) and len(s.targets) == 1 and isinstance(s.targets[0], ast.Name) \
                and s.targets[0].id == 'prefix':
            v = s.value
            if (isinstance(v, ast.Subscript) and ast.unparse(v.slice) == '-1' and isinstance(v.value, ast.Call)
                    and ast.unparse(v.value.func) == 're.split' and len(v.value.args) == 2 and not v.value.keywords
                    and isinstance(v.value.args[0], ast.Constant) and isinstance(v.value.args[0].value, str)
                    and ast.unparse(v.value.args[1]) == 'line'):
                if regex is not None:
                    raise Untranslatable('assist: prefix assigned twice')
                regex = v.value.args[0].value
            else:
                raise Untranslatable('assist: prefix expression is not re.split(<literal>, line)[-1]: ' + ast.unparse(s))
    if regex is None:
        raise Untranslatable('assist: no prefix = re.split(<literal>, line)[-1]')
    # every other return hands back that prefix; the last one filters marked names and sorts
    rets = [n for s in body[7:] for n in ast.walk(s) if isinstance(n, ast.Return)]
    for r in rets:
        if not (isinstance(r.value, ast.Tuple) and len(r.value.elts) == 2 and ast.unparse(r.value.elts[0]) == 'prefix'):
            raise Untranslatable('assist: a return does not hand back the text prefix: ' + ast.unparse(r))
    if not rets or ast.dump(rets[-1]) != ast.dump(ast.parse(ASSIST_RETURN).body[0]):
        raise Untranslatable('assist: final return is not `%s`' % ASSIST_RETURN)
    return from_regex, sep2, regex


REGEX_SHAPES = {
    # regex literal -> Lean body of `isSep isWord c`
    '\\W': '!isWord c',
}


FROM_REGEX_SHAPES = {
    # regex literal of `from_module = re.match(<regex>, line)` -> Lean body of `fromModule isWord isSpace line` (group 1 or none).
    # \\s and [\\w.] are disjoint and 'f' is not whitespace, so the match is unique: all leading whitespace, `from`, all the
    # whitespace that follows (at least one), and the rest of the line, which must consist of word characters and dots.
    # (`$` also matches before a final '\\n'; a line never contains one.)
    '\\s*from\\s+([\\w.]*)$': """\
  let r := line.dropWhile isSpace
  if ['f', 'r', 'o', 'm'].isPrefixOf r then
    let r2 := r.drop 4
    let m := r2.dropWhile isSpace
    if m.length < r2.length && m.all (fun c => isWord c || c == '.') then some m else none
  else none""",
}

LINE_REGEX_SHAPES = {
    # regex literal of util.splitlines -> (Lean body of `isLineSep c`, \\r\\n counts as one separator)
    '\r\n|\r|\n': ("c == '\\r' || c == '\\n'", True),
}


def site_lean(name, doc, site):
    spaced, shift, delims = site
    return ('/-- %s -/\ndef %s : CallSite := { spacePrefixed := %s, shift := %d, delims := %s }\n'
            % (doc, name, 'true' if spaced else 'false', shift, 'true' if delims else 'false'))


def translate(repo):
    scope = parse(repo, 'supp/scope.py')
    nast = parse(repo, 'supp/nast.py')
    util = parse(repo, 'supp/util.py')
    assistant = parse(repo, 'supp/assistant.py')

    delims = module_const(scope, 'IMPORT_DELIMETERS')
    end_delims = module_const(scope, 'IMPORT_END_DELIMETERS')
    mark = module_const(util, 'SOURCE_MARK')
    if not mark:
        raise Untranslatable('SOURCE_MARK is empty')

    src_scope = find_def(scope.body, 'SourceScope', (ast.ClassDef,))
    fil = find_def(src_scope.body, 'find_id_loc')
    lo, hi = window_constants(fil)
    if lo != 1:
        raise Untranslatable('find_id_loc: window must start at line sl (lines[sl-1:...]), found sl-%d' % lo)
    same_body(fil, FIND_ID_LOC % (lo, hi), 'find_id_loc')

    func_init = find_def(find_def(scope.body, 'FuncScope', (ast.ClassDef,)).body, '__init__')
    class_init = find_def(find_def(scope.body, 'ClassScope', (ast.ClassDef,)).body, '__init__')
    func_site = call_site(func_init, 'FuncScope.__init__', ('fnode.name', 'node.name'))
    class_site = call_site(class_init, 'ClassScope.__init__', ('node.name',))
    visitor = find_def(nast.body, 'extract_visitor', (ast.ClassDef,))
    v_import = find_def(visitor.body, 'visit_Import')
    v_from = find_def(visitor.body, 'visit_ImportFrom')
    start_is_alias_start(v_import, 'visit_Import', scope)
    start_is_alias_start(v_from, 'visit_ImportFrom', scope)
    import_site = call_site(v_import, 'visit_Import', ('name',))
    from_site = call_site(v_from, 'visit_ImportFrom', ('name',))

    same_body(find_def(util.body, 'unmark'), UNMARK, 'unmark')
    same_body(find_def(util.body, 'marked'), MARKED, 'marked')
    same_body(find_def(util.body, 'join_pkg'), JOIN_PKG, 'join_pkg')
    same_body(find_def(util.body, 'split_pkg'), SPLIT_PKG, 'split_pkg')
    source_cls = find_def(util.body, 'Source', (ast.ClassDef,))
    same_body(find_def(source_cls.body, '__init__'), SOURCE_INIT, 'Source.__init__')
    same_body(find_def(source_cls.body, 'lines'), SOURCE_LINES, 'Source.lines')
    spl = find_def(util.body, 'splitlines')
    try:
        line_regex = [st for st in spl.body if isinstance(st, ast.Assign)][0].value.args[0].value
    except (AttributeError, IndexError):
        raise Untranslatable('splitlines: body is not the modelled shape')
    if not isinstance(line_regex, str) or line_regex not in LINE_REGEX_SHAPES:
        raise Untranslatable('splitlines: line-separator regex %r is not one of the modelled shapes' % (line_regex,))
    same_body(spl, SPLITLINES % line_regex, 'splitlines')

    from_regex, sep2, regex = assist_parts(find_def(assistant.body, 'assist'))
    if from_regex not in FROM_REGEX_SHAPES:
        raise Untranslatable('assist: from-branch regex %r is not one of the modelled shapes' % (from_regex,))
    same_body(find_def(assistant.body, 'location'), LOCATION, 'location')
    same_body(find_def(assistant.body, '_loc'), LOC_HELPER, '_loc')
    if regex not in REGEX_SHAPES:
        raise Untranslatable('assist: prefix regex %r is not one of the modelled shapes %r' % (regex, sorted(REGEX_SHAPES)))

    out = []
    out.append('/- GENERATED by translators/tr_text.py from supp/scope.py, supp/nast.py, supp/util.py, supp/assistant.py')
    out.append('   -- do not edit. -/')
    out.append('')
    out.append('namespace SuppModel.Text.Generated')
    out.append('')
    out.append('/-- IMPORT_DELIMETERS (supp/scope.py): characters accepted right before a searched identifier -/')
    out.append('def importDelims : List Char := ' + lean_chars(delims))
    out.append('')
    out.append('/-- IMPORT_END_DELIMETERS (supp/scope.py): characters accepted right after a searched identifier -/')
    out.append('def importEndDelims : List Char := ' + lean_chars(end_delims))
    out.append('')
    out.append('/-- SOURCE_MARK (supp/util.py) -/')
    out.append('def sourceMark : List Char := ' + lean_chars(mark))
    out.append('')
    out.append('/-- find_id_loc searches `lines[sl-1 : sl+windowAfter]` -/')
    out.append('def windowAfter : Nat := %d' % hi)
    out.append('')
    out.append('/-- how a binding site calls find_id_loc: `find_id_loc((\' \' +)? name, np(node), shift, delims)` -/')
    out.append('structure CallSite where')
    out.append('  spacePrefixed : Bool')
    out.append('  shift : Nat')
    out.append('  delims : Bool')
    out.append('  deriving DecidableEq, Repr')
    out.append('')
    out.append(site_lean('funcSite', 'FuncScope.__init__ (def / async def)', func_site))
    out.append(site_lean('classSite', 'ClassScope.__init__', class_site))
    out.append(site_lean('importSite', 'extract_visitor.visit_Import', import_site))
    out.append(site_lean('importFromSite', 'extract_visitor.visit_ImportFrom', from_site))
    out.append('/-- separator class of the regex literal %r in `prefix = re.split(%r, line)[-1]` (assist),' % (regex, regex))
    out.append('    relative to the word-character class `isWord` (Python\'s `\\w` on str) -/')
    out.append('def isSep (isWord : Char → Bool) (c : Char) : Bool := ' + REGEX_SHAPES[regex])
    out.append('')
    out.append('/-- the `from` branch of assist: `from_module = re.match(%r, line)`; the result is `group(1)` of the match, or none.' % from_regex)
    out.append('    `isSpace` is the class `\\s` of Python\'s `re` on str -/')
    out.append('def fromModule (isWord isSpace : Char → Bool) (line : List Char) : Option (List Char) :=')
    out.append(FROM_REGEX_SHAPES[from_regex])
    out.append('')
    out.append('/-- ... `package, sep, prefix = from_module.group(1).rpartition(fromSep2)` -/')
    out.append('def fromSep2 : Char := ' + lean_char(sep2))
    out.append('')
    out.append('/-- util.splitlines: `re.split(%r, source)`, one trailing empty piece dropped -/' % line_regex)
    out.append('def isLineSep (c : Char) : Bool := ' + LINE_REGEX_SHAPES[line_regex][0])
    out.append('/-- the two-character sequence `\\r\\n` is one separator -/')
    out.append('def crlfIsOne : Bool := ' + ('true' if LINE_REGEX_SHAPES[line_regex][1] else 'false'))
    out.append('')
    out.append('end SuppModel.Text.Generated')
    return '\n'.join(out) + '\n'


def outputs(repo):
    return {REL: translate(repo)}


if __name__ == '__main__':
    import sys
    sys.stdout.write(translate(sys.argv[1] if len(sys.argv) > 1 else '/repo'))
