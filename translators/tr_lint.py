"""Translator: supp/linter.py -> lean/SuppModel/Generated/Lint.lean

Regenerated on every run of the C10 check.  From the ``ast`` of ``linter.lint``:

* the report loop ``for flow, name in scope.all_names:`` is *translated*: its body (constant
  assignments to ``w`` / ``message``, ``if <cond>: continue`` tests, nested ``if``/``else`` and the
  final ``result.append((w, message.format(name.name), name.declared_at[0], name.declared_at[1], flow))``)
  becomes the Lean decision function ``Generated.reportFull : Facts -> Option (Code x String)`` (an
  if-chain over the boolean atoms of ``SuppModel/Lint/Facts.lean``), and what the tuple copies from the
  binding becomes ``Generated.reportMsgArg / reportLine / reportCol : NameView -> ...``;
* ``IGNORED_SCOPES`` is read and must be the pair (SourceScope, ClassScope) -- the meaning of the atom
  ``scopeIgnored``;
* everything else of ``lint`` (the usage loop with E42 / E02, the ``locals`` branch, the
  ``qualified_imports.add`` condition, ``use_name``) is a *checked shape*: it must unparse to exactly the
  text the hand-written model ``SuppModel/Lint/Model.lean`` transliterates.

Only a small Python subset is recognised; anything else raises ``Untranslatable`` -- the caller treats
that as a broken tie, not a crash.
"""
import ast
import io
import json
import os
import sys


class Untranslatable(Exception):
    pass


def U(node):
    try:
        return ast.unparse(node)
    except Exception:  # noqa
        raise Untranslatable('cannot unparse %r' % (node,))


def lean_str(s):
    if not all(32 <= ord(c) < 127 for c in s):
        raise Untranslatable('non-ASCII string constant %r' % (s,))
    return json.dumps(s)


# ------------------------------------------------------------------------------------ conditions

# recognised atomic tests (by unparsed text, after the structural checks below) -> Facts field
def atom(node, names):
    """node: a Python test over the loop variables names=(flow, name); -> Lean Bool term"""
    fl, nm = names
    if isinstance(node, ast.BoolOp):
        op = ' && ' if isinstance(node.op, ast.And) else ' || '
        return '(' + op.join(atom(v, names) for v in node.values) + ')'
    if isinstance(node, ast.UnaryOp) and isinstance(node.op, ast.Not):
        return '(!' + atom(node.operand, names) + ')'
    if isinstance(node, ast.Call) and not node.keywords:
        f = U(node.func)
        args = [U(a) for a in node.args]
        if f == 'hasattr' and args == [nm, "'used'"]:
            return 'f.used'
        if f == 'getattr' and args == [nm, "'is_star'", 'None']:
            return 'f.isStar'
        if f == nm + '.name.startswith' and args == ["'_'"]:
            return 'f.underscore'
        if f == 'isinstance' and len(args) == 2:
            subj, cls = args
            if subj == fl + '.scope' and cls in ('IGNORED_SCOPES', '(SourceScope, ClassScope)'):
                return 'f.scopeIgnored'
            if subj == nm and cls == 'ImportedName':
                return 'f.isImported'
            if subj == nm and cls == 'ArgumentName':
                return 'f.isArgument'
            if subj == fl + '.scope.parent' and cls == 'ClassScope':
                return 'f.parentIsClass'
    if isinstance(node, ast.Compare) and len(node.ops) == 1:
        left, op, right = U(node.left), node.ops[0], U(node.comparators[0])
        if left == nm + '.module' and isinstance(op, (ast.Eq, ast.NotEq)):
            if right != "'__future__'":
                raise Untranslatable("%s: the atom `future` means name.module == '__future__'" % U(node))
            return 'f.future' if isinstance(op, ast.Eq) else '(!f.future)'
        if left == nm + '.name' and right == 'qualified_imports' and isinstance(op, (ast.In, ast.NotIn)):
            return 'f.qualifiedUsed' if isinstance(op, ast.In) else '(!f.qualifiedUsed)'
    raise Untranslatable('condition not recognised: ' + U(node))


# ------------------------------------------------------------------------------------ report loop

CODES = {'W01': '.W01', 'W02': '.W02'}


def message_prefix(s):
    if not (isinstance(s, str) and s.endswith('{}') and '{' not in s[:-2] and '}' not in s[:-2]):
        raise Untranslatable('message template %r is not "<text>{}"' % (s,))
    return s[:-2]


class ReportLoop:
    def __init__(self, loop):
        if not (isinstance(loop.target, ast.Tuple) and len(loop.target.elts) == 2
                and all(isinstance(e, ast.Name) for e in loop.target.elts)):
            raise Untranslatable('report loop target: ' + U(loop.target))
        if loop.orelse:
            raise Untranslatable('report loop has an else clause')
        self.names = tuple(e.id for e in loop.target.elts)   # (flow, name)
        self.fields = None                                   # (msgarg, line, col) selectors
        self.text = self.block(loop.body, {}, 1)

    def selector(self, node):
        nm = self.names[1]
        s = U(node)
        table = {nm + '.name': 'n.name',
                 nm + '.declared_at[0]': 'n.declLine', nm + '.declared_at[1]': 'n.declCol',
                 nm + '.location[0]': 'n.locLine', nm + '.location[1]': 'n.locCol'}
        if s not in table:
            raise Untranslatable('report field not recognised: ' + s)
        return table[s]

    def final(self, st, env):
        """result.append((w, message.format(name.name), name.declared_at[0], name.declared_at[1], flow))"""
        v = st.value
        if not (isinstance(v, ast.Call) and U(v.func) == 'result.append' and len(v.args) == 1 and not v.keywords
                and isinstance(v.args[0], ast.Tuple) and len(v.args[0].elts) == 5):
            raise Untranslatable('report statement: ' + U(st))
        e = v.args[0].elts
        if not (isinstance(e[0], ast.Name) and isinstance(e[1], ast.Call) and isinstance(e[1].func, ast.Attribute)
                and isinstance(e[1].func.value, ast.Name) and e[1].func.attr == 'format' and len(e[1].args) == 1
                and not e[1].keywords):
            raise Untranslatable('report tuple: ' + U(v.args[0]))
        wvar, mvar = e[0].id, e[1].func.value.id
        if wvar not in env or mvar not in env:
            raise Untranslatable('report uses %s / %s before assignment' % (wvar, mvar))
        if U(e[4]) != self.names[0]:
            raise Untranslatable('fifth report field is not the flow: ' + U(e[4]))
        code = env[wvar]
        if code not in CODES:
            raise Untranslatable('diagnostic code %r' % (code,))
        fields = (self.selector(e[1].args[0]), self.selector(e[2]), self.selector(e[3]))
        if self.fields is not None and self.fields != fields:
            raise Untranslatable('two report statements with different fields')
        self.fields = fields
        return 'some (%s, %s)' % (CODES[code], lean_str(message_prefix(env[mvar])))

    def block(self, stmts, env, ind):
        """stmts: the rest of the loop body on this path; env: constant values of local variables"""
        pad = '  ' * ind
        if not stmts:
            raise Untranslatable('a path through the report loop ends without continue / result.append')
        st, rest = stmts[0], stmts[1:]
        if isinstance(st, ast.Continue):
            return pad + 'none\n'
        if isinstance(st, ast.Assign) and len(st.targets) == 1 and isinstance(st.targets[0], ast.Name) \
                and isinstance(st.value, ast.Constant) and isinstance(st.value.value, str):
            env = dict(env)
            env[st.targets[0].id] = st.value.value
            return self.block(rest, env, ind)
        if isinstance(st, ast.If):
            c = atom(st.test, self.names)
            return (pad + 'if %s then\n' % c + self.block(st.body + rest, env, ind + 1) +
                    pad + 'else\n' + self.block(st.orelse + rest, env, ind + 1))
        if isinstance(st, ast.Expr) and isinstance(st.value, ast.Constant):
            return self.block(rest, env, ind)       # a docstring-like constant
        if isinstance(st, ast.Expr):
            if rest:
                raise Untranslatable('statements after the report: ' + U(rest[0]))
            return pad + self.final(st, env) + '\n'
        raise Untranslatable('statement not recognised in the report loop: ' + U(st).splitlines()[0])


# ------------------------------------------------------------------------------------ checked shapes

USAGE_LOOP = '''for name in name_usages:
    location = np(name)
    try:
        flow = name.flow
    except AttributeError:
        result.append(('E42', 'UNKNOWN NAME: {}'.format(name.id), location[0], location[1], None))
        continue
    snames = flow.names_at(location)
    try:
        sname = snames[name.id]
    except KeyError:
        result.append(('E02', 'Undefined name: {}'.format(name.id), location[0], location[1], flow))
    else:
        if sname.name == 'locals' and getattr(sname, 'location', None) == (0, 0):
            for n in itervalues(flow.names_at(location)):
                if getattr(n, 'scope', None) is flow.scope:
                    use_name(n)
        else:
            if type(sname) is ImportedName and sname.qualified:
                qualified_imports.add(sname.name)
            use_name(sname)'''

USE_NAME = '''def use_name(name):
    if isinstance(name, MultiName):
        for n in name.alt_names:
            n.used = True
    else:
        name.used = True'''

# the statements of lint() around the two loops, in order ('<usage>' / '<report>' mark the loops)
LINT_FRAME = [
    'cycle_guard.request()',
    'source = Source(source, filename)',
    "try:\n    source.tree\nexcept SyntaxError as e:\n    return [('E01', e.msg, e.lineno, e.offset, None)]",
    'if debug:\n    from .util import print_dump\n    print_dump(source.tree)',
    'result = []',
    'scope = extract_scope(source, project)',
    'name_usages = get_name_usages(source.tree)',
    'qualified_imports = set()',
    '<usage>',
    '<report>',
    'return result',
]


def translate(repo):
    path = os.path.join(repo, 'supp', 'linter.py')
    try:
        tree = ast.parse(open(path).read())
    except (OSError, SyntaxError) as e:
        raise Untranslatable('cannot read/parse %s: %r' % (path, e))
    fns = {n.name: n for n in tree.body if isinstance(n, ast.FunctionDef)}
    lint = fns.get('lint')
    if lint is None or 'use_name' not in fns:
        raise Untranslatable('lint / use_name not found')
    if U(lint.args) != 'project, source, filename=None, debug=False' or lint.decorator_list:
        raise Untranslatable('signature of lint: ' + U(lint.args))

    # IGNORED_SCOPES
    ign = [s for s in tree.body if isinstance(s, ast.Assign) and U(s.targets[0]) == 'IGNORED_SCOPES']
    if len(ign) != 1 or len(ign[0].targets) != 1 or U(ign[0].value) != '(SourceScope, ClassScope)':
        raise Untranslatable('IGNORED_SCOPES is not (SourceScope, ClassScope): %s' % [U(s) for s in ign])
    # the classes named by the tests must be the ones of supp.scope / supp.name, bound once by import
    imported = {}
    for s in tree.body:
        if isinstance(s, ast.ImportFrom):
            for a in s.names:
                imported.setdefault(a.asname or a.name, []).append(('.' * s.level + (s.module or ''), a.name))
    want = {'SourceScope': ('.scope', 'SourceScope'), 'ClassScope': ('.scope', 'ClassScope'),
            'ImportedName': ('.name', 'ImportedName'), 'ArgumentName': ('.name', 'ArgumentName'),
            'MultiName': ('.name', 'MultiName'), 'itervalues': ('.compat', 'itervalues'),
            'get_name_usages': ('.util', 'get_name_usages'), 'np': ('.util', 'np'),
            'extract_scope': ('.nast', 'extract_scope')}
    for k, v in want.items():
        if imported.get(k) != [v]:
            raise Untranslatable('%s is not imported (once) from %s: %r' % (k, v[0], imported.get(k)))
    rebound = [U(s).splitlines()[0] for s in tree.body
               if isinstance(s, (ast.Assign, ast.FunctionDef, ast.ClassDef)) and
               any(n in want for n in ([t.id for t in getattr(s, 'targets', []) if isinstance(t, ast.Name)] +
                                       [getattr(s, 'name', '')]))]
    if rebound:
        raise Untranslatable('names of the tests rebound at module level: %r' % (rebound,))

    # frame + usage loop + use_name: checked shapes
    if U(fns['use_name']) != USE_NAME:
        raise Untranslatable('use_name changed:\n' + U(fns['use_name']))
    body = [s for s in lint.body if not (isinstance(s, ast.Expr) and isinstance(s.value, ast.Constant))]
    if len(body) != len(LINT_FRAME):
        raise Untranslatable('lint() has %d statements, %d expected' % (len(body), len(LINT_FRAME)))
    report = None
    for st, shape in zip(body, LINT_FRAME):
        if shape == '<usage>':
            if U(st) != USAGE_LOOP:
                raise Untranslatable('usage loop changed:\n' + U(st))
        elif shape == '<report>':
            if not (isinstance(st, ast.For) and U(st.iter) == 'scope.all_names'):
                raise Untranslatable('report loop not found where expected: ' + U(st).splitlines()[0])
            report = ReportLoop(st)
        elif U(st) != shape:
            raise Untranslatable('statement of lint() changed: %r, expected %r' % (U(st), shape))
    if report.fields is None:
        raise Untranslatable('the report loop never reports')

    out = io.StringIO()
    w = out.write
    w('/- GENERATED by translators/tr_lint.py from supp/linter.py -- do not edit. -/\n')
    w('import SuppModel.Lint.Facts\n\nnamespace SuppModel.Lint.Generated\nopen SuppModel.Lint\n\n')
    w('/-- the body of `for %s, %s in scope.all_names:` -- diagnostic code and message prefix, or nothing -/\n' % report.names)
    w('def reportFull (f : Facts) : Option (Code × String) :=\n')
    w(report.text)
    w('\ndef reportDecision (f : Facts) : Option Code := (reportFull f).map (·.1)\n\n')
    w('/-- what the report tuple copies from the binding: argument of `message.format`, third and fourth field -/\n')
    w('def reportMsgArg (n : NameView) : String := %s\n' % report.fields[0])
    w('def reportLine (n : NameView) : Int := %s\n' % report.fields[1])
    w('def reportCol (n : NameView) : Int := %s\n\n' % report.fields[2])
    w('/-- IGNORED_SCOPES, the classes behind the atom `scopeIgnored` -/\n')
    w('def ignoredScopes : List String := ["SourceScope", "ClassScope"]\n\n')
    w('/-- message prefixes of the usage loop (checked shape) -/\n')
    w('def unknownNamePrefix : String := "UNKNOWN NAME: "\n')
    w('def undefinedNamePrefix : String := "Undefined name: "\n\n')
    w('end SuppModel.Lint.Generated\n')
    return out.getvalue()


def outputs(repo):
    return {'SuppModel/Generated/Lint.lean': translate(repo)}


if __name__ == '__main__':
    sys.stdout.write(translate(sys.argv[1] if len(sys.argv) > 1 else '/repo'))
