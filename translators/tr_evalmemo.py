"""Pin of the source the EvalMemo model (lean/SuppModel/EvalMemo/Basic.lean) transliterates.

No table is generated: the five functions below are small and were transliterated by hand.  What is pinned is
their shape: sha1 of `ast.dump` (docstrings and comments dropped) of each function.  A function whose hash is
not listed changed since the transliteration was audited — the obligation `translator evalmemo pin` is then
broken and the correspondence stream of harness/evalmemo.py is what finds a failing input.

  cycle_guard.cached        -> `evalM` (final slot, provisional slot of this epoch, compute, `store`)
  cached_property.__get__   -> slot = (obj.__dict__, func.__name__), goes through cycle_guard.cached
  context_property          -> slot = (obj._ctx_values, func.__name__), goes through cycle_guard.cached
  EvalCtx.__init__          -> `St.bump` (epoch += 1), empty in-progress set
  EvalCtx.evaluate          -> the `n ∈ stack` cut (`St.fire`), push/pop around `_evaluate`
"""
import ast
import hashlib
import os

# (file, qualified name) -> accepted hashes
PINS = {
    ('util.py', 'cycle_guard.cached'): ('68ec78625c8c',),
    ('util.py', 'cached_property.__get__'): ('86b107d89d9d',),
    ('util.py', 'context_property'): ('cfd4d7351509',),
    ('evaluator.py', 'EvalCtx.__init__'): ('7a0ce1b1159a',),
    ('evaluator.py', 'EvalCtx.evaluate'): ('047425892b36',),
}
# class attributes the model's `St.empty` stands for
CLASS_ATTRS = {('util.py', 'cycle_guard'): {'fired': 0, 'epoch': 0}}


def _strip_doc(fn):
    if fn.body and isinstance(fn.body[0], ast.Expr) and isinstance(getattr(fn.body[0], 'value', None), ast.Constant) \
            and isinstance(fn.body[0].value.value, str):
        fn.body = fn.body[1:] or [ast.Pass()]
    return fn


def find(tree, qual):
    node = tree
    for part in qual.split('.'):
        for ch in node.body:
            if isinstance(ch, (ast.FunctionDef, ast.ClassDef)) and ch.name == part:
                node = ch
                break
        else:
            return None
    return node


def pin_of(fn):
    for sub in ast.walk(fn):
        if isinstance(sub, ast.FunctionDef):
            _strip_doc(sub)
    return hashlib.sha1(ast.dump(fn, annotate_fields=True, include_attributes=False).encode()).hexdigest()[:12]


def audit(repo):
    """-> (ok, problems, {qualname: hash})"""
    problems, seen, trees = [], {}, {}
    for (fname, qual), accepted in sorted(PINS.items()):
        path = os.path.join(repo, 'supp', fname)
        try:
            tree = trees.setdefault(fname, ast.parse(open(path).read()))
        except (OSError, SyntaxError) as e:
            problems.append('%s: %r' % (fname, e))
            continue
        fn = find(tree, qual)
        if fn is None:
            problems.append('%s: %s not found' % (fname, qual))
            continue
        h = pin_of(fn)
        seen[qual] = h
        if h not in accepted:
            problems.append('%s: %s changed since the transliteration was audited (pin %s)' % (fname, qual, h))
    for (fname, cls), attrs in CLASS_ATTRS.items():
        tree = trees.get(fname)
        node = find(tree, cls) if tree else None
        got = {}
        for ch in (node.body if node else []):
            if isinstance(ch, ast.Assign) and len(ch.targets) == 1 and isinstance(ch.targets[0], ast.Name) \
                    and isinstance(ch.value, ast.Constant):
                got[ch.targets[0].id] = ch.value.value
        if got != attrs:
            problems.append('%s: class attributes of %s are %r, expected %r' % (fname, cls, got, attrs))
    return not problems, problems, seen


def outputs(repo):
    return {}


if __name__ == '__main__':
    import sys
    print(audit(sys.argv[1] if len(sys.argv) > 1 else '/repo'))
