#!/bin/bash
# usage: tools_try_mutant.sh <patch.diff> <Cxx> [more Cxx...]   -- runs the quick checks against a scratch worktree with the patch applied
set -u
PATCH=$1; shift
WT=/tmp/mutwt-$$
git -C /repo worktree add -q $WT HEAD || exit 2
( cd $WT && git apply $PATCH ) || { echo "patch does not apply"; git -C /repo worktree remove --force $WT; exit 2; }
for P in "$@"; do
  SUPP_REPO=$WT timeout 1500 /verif/check $P --tier quick > /tmp/mutrun-$P.log 2>&1
  echo "$P exit=$? :: $(grep -c 'FAILING INPUT' /tmp/mutrun-$P.log) failing inputs :: $(grep '^VIOLATION\|^OK' /tmp/mutrun-$P.log | head -1 | cut -c1-120)"
  grep 'BROKEN\|FAILING INPUT' /tmp/mutrun-$P.log | head -3 | cut -c1-260
done
git -C /repo worktree remove --force $WT
