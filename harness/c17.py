"""C17 — deterministic output.

tie    : translator/audit (every set / mapping-iteration site of supp/ with its consumption -> Generated/Perm.lean,
         `C17_sites_audited` re-proved; a new site or a changed consumption breaks the tie)
         + correspondence of the model (`multiName`, `parentNames`, `assist` of SuppModel/Perm/Model.lean, driven with
         several different set orders) with every real MultiName / join table built while answering generated requests
search : the REAL code in >= 6 fresh interpreter processes (different PYTHONHASHSEED, different amounts of prior
         allocation): outputs must be identical, element by element; alternatives must be in source order
"""
import json
import os
import shutil
import subprocess
import sys

from . import common
from .common import REPO

sys.path.insert(0, os.path.join(common.VERIF, 'translators'))
import tr_perm  # noqa: E402

RUNNER = os.path.join(os.path.dirname(os.path.abspath(__file__)), 'c17_runner.py')
PY = '/venv/bin/python'
# (PYTHONHASHSEED, number of objects allocated and kept before supp is imported)
CONFIGS = [('0', 0), ('1', 1000), ('2', 50000), ('random', 7), ('4242', 200001), ('random', 12345)]
SCRATCH = '/tmp/Perm'
INPROC_PROGRAMS = 100        # programs whose requests are also answered in the instrumented checking process


# ----------------------------------------------------------------------------- programs

class Gen(object):
    """a generated program: lines, the reads in it and which names are bound where"""

    def __init__(self, rng, names):
        self.rng, self.names = rng, names
        self.lines, self.reads = [], []
        self.nc = 0
        self.constructs = {}

    def emit(self, indent, text):
        self.lines.append(' ' * indent + text)

    def cond(self):
        self.nc += 1
        return 'c%d' % (self.nc % 6 + 1)

    def count(self, k):
        self.constructs[k] = self.constructs.get(k, 0) + 1

    def read(self, indent, name):
        self.emit(indent, 'print(%s)' % name)
        self.reads.append((name, len(self.lines), indent + 6))

    def bind(self, indent, name):
        r = self.rng
        k = r.randrange(9)
        self.count('bind')
        if k <= 3:
            self.emit(indent, '%s = %d' % (name, r.randrange(100)))
        elif k == 4:
            self.emit(indent, r.choice(['import os as %s', 'from os import path as %s', 'import %s']) % name)
        elif k == 5:
            self.emit(indent, 'def %s(): pass' % name)
        elif k == 6:
            self.emit(indent, 'class %s: pass' % name)
        elif k == 7:
            self.emit(indent, 'with open("f") as %s:' % name)
            self.emit(indent + 4, 'pass')
        else:
            self.emit(indent, '%s, q%d = 1, 2' % (name, r.randrange(3)))

    def block(self, indent, depth):
        r = self.rng
        n = r.choice([1, 1, 1, 2])
        for _ in range(n):
            k = r.random()
            if depth <= 0 or k < 0.6:
                if r.random() < 0.85:
                    self.bind(indent, r.choice(self.names))
                else:
                    self.read(indent, r.choice(self.names))
            else:
                self.compound(indent, depth - 1)

    def compound(self, indent, depth):
        r = self.rng
        k = r.randrange(11)
        if k == 10:
            # two alternatives of one name on ONE line (a binding, then a comprehension on the same line that may or may not rebind it):
            # their order is decided by the column alone (found missing by seeded change C17-4: alternatives sorted by line only)
            self.count('two-alternatives-one-line')
            nm = r.choice(self.names)
            self.emit(indent, r.choice(['%s = 0; r9 = [(%s := i9) for i9 in range(3)]', '%s = 0; r9 = [%s for %s in range(3)]',
                                        '%s = 0; r9 = {%s: 1 for %s in range(3)}; s9 = {(%s := i9) for i9 in range(2)}']).replace('%s', nm))
        elif k <= 4:
            n = r.choice([2, 2, 3, 4, 5, 6])
            self.count('if%d' % n)
            has_else = r.random() < 0.6
            for i in range(n):
                if i == 0:
                    self.emit(indent, 'if %s:' % self.cond())
                elif i == n - 1 and has_else:
                    self.emit(indent, 'else:')
                else:
                    self.emit(indent, 'elif %s:' % self.cond())
                self.block(indent + 4, depth)
        elif k <= 6:
            self.count('try')
            self.emit(indent, 'try:')
            self.block(indent + 4, depth)
            for _ in range(r.choice([1, 1, 2])):
                self.emit(indent, 'except %s:' % r.choice(['ValueError', 'KeyError', 'Exception']))
                self.block(indent + 4, depth)
            if r.random() < 0.4:
                self.emit(indent, 'else:')
                self.block(indent + 4, depth)
            if r.random() < 0.3:
                self.emit(indent, 'finally:')
                self.block(indent + 4, depth)
        elif k <= 8:
            self.count('for')
            self.emit(indent, 'for %s in range(3):' % r.choice(self.names + ['i', 'j']))
            self.block(indent + 4, depth)
            if r.random() < 0.3:
                self.emit(indent, 'else:')
                self.block(indent + 4, depth)
        else:
            self.count('while')
            self.emit(indent, 'while %s:' % self.cond())
            self.block(indent + 4, depth)
            if r.random() < 0.3:
                self.emit(indent, 'else:')
                self.block(indent + 4, depth)


def gen_flow_program(rng, idx):
    """a function or module body of nested branching constructs, then a read of every name"""
    names = rng.sample(['x', 'yy', 'val', 'zed', 'w'], rng.choice([2, 3, 4]))
    g = Gen(rng, names)
    in_func = rng.random() < 0.6
    if in_func:
        g.emit(0, 'def f(c1, c2, c3, c4, c5, c6):')
        ind = 4
    else:
        g.emit(0, 'c1 = c2 = c3 = c4 = c5 = c6 = 0')
        ind = 0
    for _ in range(rng.choice([1, 2, 2, 3])):
        g.compound(ind, rng.choice([1, 1, 2, 2, 3]))
        if rng.random() < 0.5:
            g.read(ind, rng.choice(names))
    for n in names:
        g.read(ind, n)
    src = '\n'.join(g.lines) + '\n'
    files = {'p%d.py' % idx: src}
    reqs = []
    main = 'p%d.py' % idx
    for name, ln, col in g.reads[-8:]:
        reqs.append({'kind': 'location', 'src_file': main, 'pos': [ln, col + 1]})
    name, ln, col = g.reads[-1]
    reqs.append({'kind': 'assist', 'src_file': main, 'pos': [ln, col + 1]})
    reqs.append({'kind': 'lint', 'src_file': main})
    if not in_func:
        # the same module seen through a star import
        u = 'from p%d import *\n' % idx + ''.join('print(%s)\n' % n for n in names)
        files['u%d.py' % idx] = u
        for i, n in enumerate(names):
            reqs.append({'kind': 'location', 'src_file': 'u%d.py' % idx, 'pos': [i + 2, 7]})
        reqs.append({'kind': 'assist', 'src_file': 'u%d.py' % idx, 'pos': [2, 7]})
        reqs.append({'kind': 'lint', 'src_file': 'u%d.py' % idx})
        reqs.append({'kind': 'exported', 'module': 'p%d' % idx})
    return {'files': files, 'requests': reqs, 'constructs': g.constructs, 'scope': 'func' if in_func else 'module'}


def gen_composite_program(rng, idx):
    """x = A() / B() / ... on different branches; x.attr with attr defined in several of the classes"""
    ncls = rng.choice([2, 2, 3, 4])
    attrs = ['foo', 'bar', 'baz', 'qux']
    L = []
    have = []
    for i in range(ncls):
        mine = [a for a in attrs if rng.random() < 0.7] or ['foo']
        have.append(mine)
        L.append('class K%d(object):' % i)
        for a in mine:
            L.append('    def %s(self):' % a)
            L.append('        return %d' % i)
    L.append('def g(c1, c2, c3, c4):')
    order = list(range(ncls))
    rng.shuffle(order)
    for j, i in enumerate(order):
        L.append('    %s:' % ('if c1' if j == 0 else ('else' if j == ncls - 1 else 'elif c%d' % (j + 1))))
        L.append('        v = K%d()' % i)
    reqs = []
    main = 'k%d.py' % idx
    for a in attrs:
        L.append('    v.%s' % a)
        reqs.append({'kind': 'location', 'src_file': main, 'pos': [len(L), 7]})
    reqs.append({'kind': 'assist', 'src_file': main, 'pos': [len(L), 7]})
    L.append('    print(v)')
    reqs.append({'kind': 'location', 'src_file': main, 'pos': [len(L), 11]})
    reqs.append({'kind': 'lint', 'src_file': main})
    return {'files': {main: '\n'.join(L) + '\n'}, 'requests': reqs, 'constructs': {'composite%d' % ncls: 1}, 'scope': 'composite'}


def big_program(n):
    """more candidates than any cap a proposal list might get: n names bound in both branches of an if (their tables merge through
    hash-ordered containers), completed as names and as attributes of the imported module"""
    names = ['nm%04d_%s' % (i, 'abcdefghij'[i % 10] * (i % 7)) for i in range(n)]
    body = 'import sys\nif sys.argv:\n' + ''.join('    %s = 0\n' % x for x in names) + 'else:\n' + ''.join('    %s = 1\n' % x for x in reversed(names))
    return {'files': {'zq_big.py': body, 'zq_big_cur.py': body + 'nm', 'zq_big_use.py': 'import zq_big\nzq_big.', 'zq_big_star.py': 'from zq_big import *\nnm'},
            'requests': [{'kind': 'assist', 'src_file': 'zq_big_cur.py', 'pos': [2 * n + 4, 2]},
                         {'kind': 'assist', 'src_file': 'zq_big_use.py', 'pos': [2, 7]},
                         {'kind': 'assist', 'src_file': 'zq_big_star.py', 'pos': [2, 2]},
                         {'kind': 'lint', 'src_file': 'zq_big_star.py'}],
            'constructs': {'big-%d-names' % n: 1}, 'scope': 'module'}


def materialise(prog, root):
    """write the files of a program under `root` -> concrete requests for the runner"""
    os.makedirs(root, exist_ok=True)
    for rel, content in prog['files'].items():
        with open(os.path.join(root, rel), 'w') as f:
            f.write(content)
    out = []
    for r in prog['requests']:
        q = {'kind': r['kind'], 'roots': [root] if prog['files'] else list(r['roots'])}
        if 'src_file' in r:
            q['src'] = prog['files'][r['src_file']]
            q['file'] = os.path.join(root, r['src_file'])
        elif 'abs_file' in r:
            q['src'] = open(r['abs_file']).read()
            q['file'] = r['abs_file']
        if 'pos' in r:
            q['pos'] = r['pos']
        if 'module' in r:
            q['module'] = r['module']
        out.append(q)
    return out


# ----------------------------------------------------------------------------- fresh processes

def run_fresh(requests, tag, configs=CONFIGS, repo=None):
    """the same requests in one fresh interpreter per configuration -> {config: [outputs]}"""
    os.makedirs(SCRATCH, exist_ok=True)
    job = os.path.join(SCRATCH, 'job-%s-%d.json' % (tag, os.getpid()))
    with open(job, 'w') as f:
        json.dump(requests, f)
    procs = []
    for seed, junk in configs:
        env = dict(os.environ)
        env['PYTHONHASHSEED'] = seed
        env['PYTHONDONTWRITEBYTECODE'] = '1'
        env.pop('PYTHONPATH', None)
        procs.append(((seed, junk), subprocess.Popen([PY, RUNNER, repo or REPO, job, str(junk)], env=env,
                                                     stdout=subprocess.PIPE, stderr=subprocess.PIPE, text=True)))
    res = {}
    for cfg, p in procs:
        o, e = p.communicate(timeout=900)
        if p.returncode != 0:
            raise common.Infra('runner %r failed: %s' % (cfg, e[-800:]))
        res['seed=%s,junk=%d' % cfg] = json.loads(o)
    os.unlink(job)
    return res


def compare_runs(res, n):
    """-> indices of requests whose outputs are not identical in all processes"""
    cfgs = sorted(res)
    bad = []
    for i in range(n):
        first = json.dumps(res[cfgs[0]][i])
        if any(json.dumps(res[c][i]) != first for c in cfgs[1:]):
            bad.append(i)
    return bad


def source_order_violations(out):
    """location() result: a list entry holds the alternatives of a multiply-bound name; within one file they
    must be in increasing source position"""
    bad = []
    if not isinstance(out, list):
        return bad
    for e in out:
        if isinstance(e, list) and len(e) > 1:
            by_file = {}
            for d in e:
                by_file.setdefault(d.get('file'), []).append(tuple(d.get('loc') or ()))
            for f, locs in by_file.items():
                if any(not (a < b) for a, b in zip(locs, locs[1:])):
                    bad.append({'file': f, 'locs': [list(l) for l in locs]})
    return bad


def n_alternatives(out):
    if not isinstance(out, list):
        return 0
    return max([len(e) for e in out if isinstance(e, list)] or [0])


# ----------------------------------------------------------------------------- in-process instrumentation

class Recorder(object):
    """wraps MultiName.__init__ and Flow.parent_names (from outside) and records their inputs and results"""

    def __init__(self):
        self.multi, self.joins = [], []
        self.ids, self.keep = {}, []

    def oid(self, o):
        k = id(o)
        if k not in self.ids:
            self.ids[k] = len(self.ids) + 1
            self.keep.append(o)
        return self.ids[k]

    def install(self, name_mod, scope_mod):
        rec = self
        orig_init = name_mod.MultiName.__init__

        def init(self, names):
            names = list(names)
            orig_init(self, names)
            rec.multi.append((names, self))
        name_mod.MultiName.__init__ = init
        desc = scope_mod.Flow.__dict__['parent_names']
        orig_pn = desc.func

        def parent_names(self):
            res = orig_pn(self)
            if len(self.parents) > 1:
                pn = [p.names for p in self.parents if p.names is not scope_mod.UNRESOLVED]
                rec.joins.append((pn, res))
            return res
        desc.func = parent_names
        self.undo = lambda: (setattr(name_mod.MultiName, '__init__', orig_init), setattr(desc, 'func', orig_pn))

    # -- serialisation
    def alt(self, n, UndefinedName):
        if type(n) is UndefinedName:
            return {'u': str(n)}
        loc = tuple(getattr(n, 'location', (0, 0)) or (0, 0))
        dec = tuple(getattr(n, 'declared_at', (0, 0)) or (0, 0))
        try:
            fn = n.filename or ''
        except AttributeError:
            fn = ''
        return {'n': [self.oid(n), str(n.name), loc[0], loc[1], dec[0], dec[1], str(fn)]}

    def item(self, n, MultiName, UndefinedName):
        if type(n) is MultiName:
            return {'m': [self.oid(n), [self.alt(a, UndefinedName) for a in n.alt_names]]}
        return self.alt(n, UndefinedName)

    def aid(self, n, UndefinedName):
        return 0 if type(n) is UndefinedName else self.oid(n)


def wellformed_alt(j):
    return 'u' in j or all(isinstance(v, int) and v >= 0 for v in j['n'][2:6])


# ----------------------------------------------------------------------------- the check

def audit_sites(check):
    """translate: regenerate the site list; unknown / changed / vanished sites break the tie"""
    try:
        src, unknown, missing = tr_perm.translate(REPO)
        changed = common.regen('SuppModel/Generated/Perm.lean', src)
        check.extra['generated_changed'] = changed
        check.extra['sites'] = len(tr_perm.discover(REPO))
        if not unknown and not missing:
            check.oblige('translator tr_perm (set / mapping-iteration sites of supp/*.py -> Generated/Perm.lean): every site audited', True)
        for s in unknown:
            check.oblige('set-order site audit', False,
                         '%s %s: `%s` consumed as [%s] -- %s' % (s['file'], s['func'], s['expr'],
                                                               '; '.join([s['consumer']] + list(s['uses']))[:300], s['why']))
        for k in missing:
            check.oblige('set-order site audit', False, 'audited site no longer found (moved or rewritten): %r' % (k,))
        return unknown
    except SyntaxError as e:
        check.oblige('translator tr_perm', False, 'source does not parse: %r' % e)
    except Exception as e:  # noqa
        check.oblige('translator tr_perm', False, repr(e))
    return []


def corpus_requests(check, sup, limit):
    """reads in the repo's own files whose answer is a MultiName with more than one alternative"""
    Source, get_name_usages, np = sup['util'].Source, sup['util'].get_name_usages, sup['util'].np
    out = []
    d = os.path.join(REPO, 'supp')
    project = sup['project'].Project([REPO])
    for f in sorted(os.listdir(d)):
        if not f.endswith('.py'):
            continue
        path = os.path.join(d, f)
        text = open(path).read()
        try:
            src = Source(text, path)
            sup['nast'].extract_scope(src, project)
            found = []
            for name in get_name_usages(src.tree):
                flow = getattr(name, 'flow', None)
                if flow is None:
                    continue
                v = flow.names_at(np(name)).get(name.id)
                if type(v) is sup['name'].MultiName and len(v.valid_names) > 1:
                    found.append((np(name), name.id))
        except Exception:  # noqa
            continue
        for (ln, col), ident in found:
            out.append({'kind': 'location', 'abs_file': path, 'pos': [ln, col + 1], 'roots': [REPO]})
        if found:
            out.append({'kind': 'lint', 'abs_file': path, 'roots': [REPO]})
    check.extra['corpus_multi_reads_found'] = sum(1 for r in out if r['kind'] == 'location')
    if len(out) > limit:
        idx = sorted(check.rng.sample(range(len(out)), limit))
        out = [out[i] for i in idx]
    return out


def run(check):
    quick = check.tier == 'quick'
    rng = check.rng
    # 1. translate / audit
    audit_sites(check)
    # 2. prove
    check.prove(extra_targets=('drv_perm',))

    for k in [k for k in sys.modules if k == 'supp' or k.startswith('supp.')]:
        del sys.modules[k]
    sys.path.insert(0, REPO)
    import logging
    logging.disable(logging.CRITICAL)
    import supp.name as name_mod
    import supp.scope as scope_mod
    import supp.util as util_mod
    import supp.nast as nast_mod
    import supp.project as project_mod
    import supp.assistant as assistant_mod
    import supp.linter as linter_mod
    sup = {'name': name_mod, 'scope': scope_mod, 'util': util_mod, 'nast': nast_mod, 'project': project_mod}
    MultiName, UndefinedName = name_mod.MultiName, name_mod.UndefinedName

    # 3. programs
    n_prog = 40 if quick else 400
    progs = []
    for i in range(n_prog):
        progs.append(gen_composite_program(rng, i) if i % 5 == 4 else gen_flow_program(rng, i))
    progs.append(big_program(1200))
    root = os.path.join(SCRATCH, 'run-%d' % os.getpid())
    shutil.rmtree(root, ignore_errors=True)
    try:
        requests, owner = [], []
        for i, p in enumerate(progs):
            for q in materialise(p, os.path.join(root, 'prog%d' % i)):
                requests.append(q)
                owner.append(i)
        corpus = corpus_requests(check, sup, 60 if quick else 2000)
        for q in materialise({'files': {}, 'requests': corpus}, root):
            requests.append(q)
            owner.append(-1)

        # 4. oracle: the real code in fresh processes
        res = run_fresh(requests, 'oracle')
        cfgs = sorted(res)
        bad = compare_runs(res, len(requests))
        for i in bad[:8]:
            q = requests[i]
            files = progs[owner[i]]['files'] if owner[i] >= 0 else {}
            check.fail('%s() output differs between fresh processes (hash seed / allocation)' % q['kind'],
                       {'request': strip_root(q, root), 'files': files, 'outputs': {c: res[c][i] for c in cfgs}})
        n_multi_answers, order_bad = 0, 0
        kinds, excs = {}, {}
        distinct = set()
        for i, q in enumerate(requests):
            o = res[cfgs[0]][i]
            kinds[q['kind']] = kinds.get(q['kind'], 0) + 1
            if isinstance(o, dict) and 'exc' in o:
                excs[o['exc']] = excs.get(o['exc'], 0) + 1
            if q['kind'] == 'location':
                k = n_alternatives(o)
                if k > 1:
                    n_multi_answers += 1
                    distinct.add(json.dumps([q.get('src'), q.get('pos')]))
                for v in source_order_violations(o):
                    order_bad += 1
                    if order_bad <= 5:
                        files = progs[owner[i]]['files'] if owner[i] >= 0 else {}
                        check.fail('location(): alternatives of a multiply-bound name are not in source order',
                                   {'request': strip_root(q, root), 'files': files, 'got': v})
            elif q['kind'] in ('assist', 'exported') and isinstance(o, list) and len(o) > 1:
                distinct.add(json.dumps([q['kind'], q.get('src'), q.get('pos'), q.get('module')]))
            elif q['kind'] == 'lint' and isinstance(o, list) and len(o) > 1:
                distinct.add(json.dumps(['lint', q.get('src')]))
        check.oblige('oracle: %d requests x %d fresh processes give identical outputs' % (len(requests), len(cfgs)), not bad,
                     '%d requests differ' % len(bad))
        check.oblige('oracle: alternatives listed in source order', order_bad == 0, '%d answers out of order' % order_bad)

        # 5. correspondence: model = code on every MultiName / join built while answering the same requests in-process
        rec = Recorder()
        rec.install(name_mod, scope_mod)
        inproc_diff = 0
        try:
            for i, q in enumerate(requests):
                if owner[i] >= INPROC_PROGRAMS:
                    continue        # the recorder keeps every table alive: bounded number of programs in-process
                try:
                    pr = project_mod.Project(list(q['roots']))
                    if q['kind'] == 'location':
                        o = assistant_mod.location(pr, q['src'], tuple(q['pos']), q['file'])
                    elif q['kind'] == 'assist':
                        m, props = assistant_mod.assist(pr, q['src'], tuple(q['pos']), q['file'])
                        o = [m, list(props)]
                    elif q['kind'] == 'lint':
                        o = [list(d[:4]) for d in linter_mod.lint(pr, q['src'], q['file'])]
                    else:
                        continue
                    o = json.loads(json.dumps(o))
                except Exception as e:  # noqa
                    o = {'exc': type(e).__name__}
                if json.dumps(o) != json.dumps(res[cfgs[0]][i]):
                    inproc_diff += 1
                    if inproc_diff <= 3:
                        files = progs[owner[i]]['files'] if owner[i] >= 0 else {}
                        check.fail('%s() output in the (instrumented) checking process differs from the fresh processes' % q['kind'],
                                   {'request': strip_root(q, root), 'files': files, 'in_process': o, 'fresh': res[cfgs[0]][i]})
        finally:
            rec.undo()
        correspond_multiname(check, rec, MultiName, UndefinedName, quick)
        correspond_joins(check, rec, MultiName, UndefinedName, quick)
    finally:
        shutil.rmtree(root, ignore_errors=True)
        try:
            os.rmdir(SCRATCH)
        except OSError:
            pass

    constructs = {}
    for p in progs:
        for k, v in p['constructs'].items():
            constructs[k] = constructs.get(k, 0) + v
    check.cov['evaluations'] = len(requests) * len(cfgs) + check.extra.get('model_requests', 0)
    check.cov['distinct_nontrivial'] = len(distinct)
    check.cov['rule'] = ('requests = location() on reads after nested if/elif(2-6)/try/for/while constructs in function and module scope, '
                         'the same modules through `from m import *`, attribute lookups on values with 2-4 class alternatives, assist(), '
                         'lint(), exported names, plus every read of /repo/supp/*.py whose answer is a MultiName; each request is answered '
                         'in %d fresh interpreters (%s). non-trivial = distinct request whose answer has more than one alternative / '
                         'proposal / diagnostic / module member' % (len(cfgs), ', '.join(cfgs)))
    check.extra.update({'programs': len(progs), 'requests': len(requests), 'request_kinds': kinds, 'processes': len(cfgs),
                        'answers_with_several_alternatives': n_multi_answers, 'exceptions': excs, 'constructs': constructs,
                        'scopes': {s: sum(1 for p in progs if p['scope'] == s) for s in ('func', 'module', 'composite')},
                        'requests_differing': len(bad), 'source_order_violations': order_bad, 'corpus_requests': len(corpus)})
    for p in progs[:2]:
        check.sample({'program': list(p['files'].values())[0][:400], 'requests': len(p['requests'])})
    check.assumptions += [
        'iterating a Python set / dict yields each element exactly once (a permutation of its content): the only property of '
        'hashing the theorems use; which permutation is the parameter SetOrder',
        "sorted() is modelled as a stable insertion sort observing elements only through `<` (Name: tuple order of .location; "
        'UndefinedName.__lt__ is always True); validated by the correspondence on every real MultiName',
        'NoTies (distinct alternatives have distinct locations, at most one Undefined) is evaluated by the driver on every real MultiName '
        'and join row of the run (counts in the evidence); with ties sorted(set(...)) would again depend on the set order',
        'the evaluator (`chase`, `ev` in the model) and everything else that involves no set is a deterministic function: covered only by '
        'the fresh-process runs',
        'object identity is the `id` field; equal ids carry equal fields (the harness serialises each live object once)',
    ]
    check.trusted += ['translators/tr_perm.py (syntactic discovery of set / mapping-iteration sites, consumption tracing one level deep, '
                      'hand classification AUDIT + PINS)',
                      'harness/c17_runner.py (fresh-process runner) and CPython 3.12 as the source of real hash orders']
    # the lookup chain every table is made of: iteration order of a merged table is a function of its parts' orders (family MDict);
    # last, so that the streams above draw the same random numbers as before this stream existed
    from . import mdict
    mdict.run(check)


def strip_root(q, root):
    q = dict(q)
    q.pop('src', None)
    if 'file' in q and q['file'].startswith(root):
        q['file'] = os.path.relpath(q['file'], root).split(os.sep, 1)[-1]
        q['roots'] = ['@ROOT']
    return q


def canon_alts(alts):
    """address- and pid-independent description of a list of alternatives"""
    out = []
    for a in alts:
        try:
            fn = a.filename or ''
        except AttributeError:
            fn = ''
        out.append(('/'.join(str(fn).split(os.sep)[-2:]), tuple(getattr(a, 'location', (0, 0)) or (0, 0)), type(a).__name__))
    return tuple(sorted(out))


def perm_ranks(rng, ids):
    ids = list(ids)
    order = ids[:]
    rng.shuffle(order)
    return [[i, r] for r, i in enumerate(order)]


def real_first(rec, mn, UndefinedName):
    """the real supp.name.first_name on the real object"""
    first_name = sys.modules['supp.name'].first_name
    try:
        return rec.aid(first_name(mn), UndefinedName)
    except IndexError:
        return 'IndexError'


def correspond_multiname(check, rec, MultiName, UndefinedName, quick):
    rng = check.rng
    reqs, meta = [], []
    malformed = 0
    cap = 1500 if quick else 8000
    # the order in which MultiNames are built depends on this process's own hash seed: canonical order first
    todo = sorted(rec.multi, key=lambda t: (str(t[1].name), canon_alts(t[1].alt_names), len(t[0])))
    if len(todo) > cap:
        todo = [todo[i] for i in sorted(rng.sample(range(len(todo)), cap))]
    for names, mn in todo:
        items = [rec.item(n, MultiName, UndefinedName) for n in names]
        flat = []
        for n in names:
            flat.extend(n.alt_names if type(n) is MultiName else [n])
        if not all(wellformed_alt(rec.alt(a, UndefinedName)) for a in flat):
            malformed += 1
            continue
        real_order = [rec.aid(a, UndefinedName) for a in list(set(flat))]
        ids = sorted(set(real_order))
        expect = {'alts': [rec.aid(a, UndefinedName) for a in mn.alt_names], 'name': str(mn.name),
                  'valid': [rec.aid(a, UndefinedName) for a in mn.valid_names], 'has_undefined': bool(mn.has_undefined),
                  'first': real_first(rec, mn, UndefinedName)}
        perms = [('actual', [[i, r] for r, i in enumerate(real_order)]),
                 ('reversed', [[i, r] for r, i in enumerate(reversed(real_order))]),
                 ('random', perm_ranks(rng, ids))]
        for tag, rank in perms:
            reqs.append({'op': 'multiname', 'names': items, 'rank_alt': rank})
            meta.append((tag, expect, items))
    replies = common.ask_driver(reqs, exe='drv_perm')
    dis, ties, checked = 0, 0, 0
    sizes = {}
    for (tag, expect, items), r in zip(meta, replies):
        if 'driver_error' in r:
            dis += 1
            check.oblige('correspondence multiName', False, 'driver: %r' % r)
            continue
        if tag == 'actual':
            sizes[len(expect['alts'])] = sizes.get(len(expect['alts']), 0) + 1
            if not r.get('noties'):
                ties += 1
        if not r.get('noties') and tag != 'actual':
            continue        # with ties the result may legitimately depend on the set order: only the real order is compared
        checked += 1
        got = {k: r.get(k) for k in expect}
        if got != expect:
            dis += 1
            if dis <= 5:
                check.oblige('correspondence multiName', False,
                             'set order %s: model %r, code %r, input %s' % (tag, got, expect, json.dumps(items)[:600]))
    if dis == 0:
        check.oblige('correspondence multiName (model altNames/name/valid_names/has_undefined/first_name = real MultiName, '
                     '3 set orders each)', True)
    check.extra['model_requests'] = check.extra.get('model_requests', 0) + len(reqs)
    check.extra.update({'multinames_seen': len(rec.multi), 'multinames_checked': len(todo), 'multiname_sizes': sizes,
                        'multinames_with_ties(NoTies false)': ties, 'multinames_malformed_location': malformed,
                        'multiname_disagreements': dis})
    if malformed:
        check.oblige('every alternative has a non-negative location', False, '%d MultiNames with a negative coordinate' % malformed)


def correspond_joins(check, rec, MultiName, UndefinedName, quick):
    rng = check.rng
    cap = 120 if quick else 1000
    todo = sorted(rec.joins, key=lambda t: (sorted((str(k), canon_alts(v.alt_names)) for k, v in t[1].items()
                                                   if type(v) is MultiName), len(t[1]), len(t[0])))
    if len(todo) > cap:
        todo = [todo[i] for i in sorted(rng.sample(range(len(todo)), cap))]
    reqs, meta, sort_reqs, sort_meta = [], [], [], []
    for pnames, res in todo:
        tables = [[[str(k), rec.item(v, MultiName, UndefinedName)] for k, v in p.items()] for p in pnames]
        keys = list(res)
        expect = [[str(k), ({'m': [rec.aid(a, UndefinedName) for a in v.alt_names]} if type(v) is MultiName
                            else {'s': rec.aid(v, UndefinedName)})] for k, v in res.items()]
        all_ids = set([0])
        for t in tables:
            for _, it in t:
                if 'm' in it:
                    all_ids.add(it['m'][0])
                    all_ids.update(a['n'][0] for a in it['m'][1] if 'n' in a)
                elif 'n' in it:
                    all_ids.add(it['n'][0])
        all_ids = sorted(all_ids)
        shuffled = sorted(keys)
        rng.shuffle(shuffled)
        for tag, korder in (('actual', keys), ('random', shuffled)):
            reqs.append({'op': 'parent', 'tables': tables, 'rank_str': [[k, r] for r, k in enumerate(korder)],
                         'rank_item': perm_ranks(rng, all_ids) if tag == 'random' else [],
                         'rank_alt': perm_ranks(rng, all_ids) if tag == 'random' else []})
            meta.append((tag, expect))
        sort_reqs.append({'op': 'assist', 'names': shuffled, 'marked': []})
        sort_meta.append(sorted(keys))
    replies = common.ask_driver(reqs, exe='drv_perm')
    dis, ties, nmulti = 0, 0, 0
    for (tag, expect), r in zip(meta, replies):
        if 'rows' not in r:
            dis += 1
            check.oblige('correspondence parentNames', False, 'driver: %r' % (r,))
            continue
        if tag == 'actual':
            nmulti += sum(1 for _, v in expect if 'm' in v)
            if not r.get('noties'):
                ties += 1
        if not r.get('noties'):
            continue
        ok = (r['rows'] == expect) if tag == 'actual' else (dict((k, json.dumps(v)) for k, v in r['rows']) ==
                                                           dict((k, json.dumps(v)) for k, v in expect))
        if not ok:
            dis += 1
            if dis <= 5:
                em = dict((k, v) for k, v in expect)
                d = [(k, v, em.get(k)) for k, v in r['rows'] if em.get(k) != v][:3]
                check.oblige('correspondence parentNames', False, 'set order %s: first differing rows (key, model, code) %r' % (tag, d))
    if dis == 0:
        check.oblige('correspondence parentNames (model join table = real Flow.parent_names: same rows in the same order for the '
                     'real key order, same function for a random one)', True)
    replies = common.ask_driver(sort_reqs, exe='drv_perm')
    sdis = sum(1 for exp, r in zip(sort_meta, replies) if r.get('sorted') != exp)
    check.oblige('correspondence sorted(keys) (model assist = Python sorted on str)', sdis == 0, '%d key lists differ' % sdis)
    check.extra['model_requests'] = check.extra.get('model_requests', 0) + len(reqs) + len(sort_reqs)
    check.extra.update({'joins_seen': len(rec.joins), 'joins_checked': len(todo), 'join_rows_that_are_multinames': nmulti,
                        'joins_with_ties(NoTiesJoin false)': ties, 'join_disagreements': dis})


# ----------------------------------------------------------------------------- replay

def replay(path):
    data = json.load(open(path))
    root = os.path.join(SCRATCH, 'replay-%d' % os.getpid())
    rc = 0
    try:
        for n, fi in enumerate(data.get('failing_inputs', [])):
            rp = fi['replay']
            q = rp['request']
            if q.get('roots') == ['@ROOT']:
                prog = {'files': rp['files'], 'requests': [dict(q, src_file=q['file'])]}
                reqs = materialise(prog, os.path.join(root, 'r%d' % n))
            else:
                reqs = materialise({'files': {}, 'requests': [dict(q, abs_file=q['file'])]}, root)
            res = run_fresh(reqs, 'replay')
            cfgs = sorted(res)
            differ = bool(compare_runs(res, 1))
            order = source_order_violations(res[cfgs[0]][0]) if q['kind'] == 'location' else []
            print('replay %d: %s' % (n, fi['what']))
            for c in cfgs:
                print('   %-28s %s' % (c, json.dumps(res[c][0])[:300]))
            print('   -> %s' % ('STILL FAILS' if differ or order else 'passes now'))
            if differ or order:
                rc = 1
        for b in data.get('no_longer_checks', []):
            print('obligation that did not check: %s' % b[:300])
    finally:
        shutil.rmtree(root, ignore_errors=True)
        try:
            os.rmdir(SCRATCH)
        except OSError:
            pass
    return rc
