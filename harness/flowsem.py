"""Shared library of the C01/C02/C03 checks (family Den).

  Stmt programs (JSON, event level)  --render-->  Python source (plain: for supp; instrumented: for CPython)
  supp side     : names_at per read -> set of sites / 'undef'; lint codes; assist; location
  model side    : drv_den  (A / at_ of lean/SuppModel/Den/Model.lean, run of Den/Sem.lean)
  oracle        : CPython executes the instrumented rendering under every decision sequence

Stmt (JSON):  ["bind",x,d] ["read",x,r] ["seq",[..]] ["if",c,a,b] ["while",c,b,e] ["for",it,[binds],b,e]
  ["try",b,[[ty,name|null,hb]..],e,f] ["comp",[[it,[binds],ifs]..],elt] ["def",pre,bind,[params],body]
  ["lambda",pre,[params],body] ["class",pre,bind,body] ["mayraise",k] ["break"] ["continue"] ["return"] ["raise"]
  ["global",[x..]] ["nonlocal",[x..]]
Render hints (not part of Stmt, keyed by site id): binding style.
"""
import ast
import json
import os
import sys
import tempfile

from . import common

POOL = ['a', 'b', 'c', 'd', 'e', 'f']
AUX = ['i', 'j', 'k']
# for-targets / except names become visible at np(body[0]); for a decorated def/class that is the `def` line, after
# the decorators (reported as a finding); the renderer puts `pass` first in such blocks
AVOID_DECORATED_FIRST = False          # comprehension variables / except names of the C03 fragment (never read outside)


# ============================================================================ generator

class Gen(object):
    """fragment: 'C01' (full grammar), 'C02', 'C03'"""

    def __init__(self, rng, fragment, max_stmts=40, max_depth=5, scopes=True):
        self.rng, self.fragment = rng, fragment
        self.site = self.rid = self.dec = 0
        self.budget = max_stmts
        self.max_depth = max_depth
        self.scopes = scopes
        self.hints = {}
        self.stats = {}

    def s(self):
        self.site += 1
        return self.site

    def r(self):
        self.rid += 1
        return self.rid

    def k(self):
        self.dec += 1
        return self.dec

    def name(self):
        return self.rng.choice(POOL)

    def auxname(self):
        return self.rng.choice(AUX) if self.fragment == 'C03' else self.name()

    def reads(self, lo=0, hi=2, exclude=()):
        out = []
        for _ in range(self.rng.randint(lo, hi)):
            x = self.name()
            if x not in exclude:
                out.append(['read', x, self.r()])
        return out

    def events(self, walrus=True):
        """test events: reads and (sometimes) a walrus bind"""
        ev = self.reads(0, 2)
        if walrus and self.rng.random() < 0.2:
            d = self.s()
            self.hints[d] = 'walrus'
            ev.append(['bind', self.name(), d])
            ev += self.reads(0, 1)
        return ['seq', ev]

    def count(self, k):
        self.stats[k] = self.stats.get(k, 0) + 1

    def block(self, depth, ctx, lo=1, hi=4):
        out = []
        n = self.rng.randint(lo, hi)
        for _ in range(n):
            if self.budget <= 0:
                break
            out += self.stmt(depth, ctx)
        return ['seq', out]

    def stmt(self, depth, ctx):
        """-> list of Stmt (usually one)"""
        rng = self.rng
        self.budget -= 1
        full = self.fragment == 'C01'
        kinds = [('bind', 26), ('read', 22)]
        if depth < self.max_depth:
            kinds += [('if', 10), ('while', 7), ('for', 7), ('try', 8), ('with', 3)]
            if not ctx.get('noscope'):
                kinds += [('comp', 4)]
            if self.scopes and not ctx.get('noscope'):
                kinds += [('def', 4), ('lambda', 2), ('class', 2)]
        if full:
            kinds += [('jump', 5), ('mayraise', 3)]
        tot = sum(w for _, w in kinds)
        x = rng.randrange(tot)
        for kind, w in kinds:
            if x < w:
                break
            x -= w
        self.count(kind)
        if kind == 'bind':
            d = self.s()
            y = self.name()
            if y in ctx.get('nobind', ()):
                y = [z for z in POOL if z not in ctx['nobind']][0]
            self.hints[d] = rng.choice(['assign', 'assign', 'assign', 'ann', 'walrus', 'with1'])
            if rng.random() < 0.08:
                # the value ENDS with an f-string that reads the name being bound (and maybe another): `y = V(d) @ f"{use(y)}"`;
                # the reads see the bindings before this statement, the binding becomes visible after the whole value
                self.count('fstring-value-shape')
                rs = [['read', y, self.r()]] + (self.reads(1, 1) if rng.random() < 0.4 else [])
                self.hints[d] = ('fstr', len(rs))
                return rs + [['bind', y, d]]
            if rng.random() < 0.15:
                d2 = self.s()
                self.hints[d] = 'tuple'
                self.hints[d2] = 'tuple2'
                z = self.name()
                if z in ctx.get('nobind', ()):
                    z = y
                return [['bind', y, d], ['bind', z, d2]]
            return [['bind', y, d]]
        if kind == 'read':
            return [['seq', self.reads(1, 2)]] if rng.random() < 0.3 else [['read', self.name(), self.r()]]
        if kind == 'with':
            # with K(d1) as x, K(d2, reads) as y:  -> bind, reads, bind (one statement)
            d1, d2 = self.s(), self.s()
            rs = self.reads(0, 2)
            self.hints[d1] = ('with', len(rs))
            self.hints[d2] = 'withnext'
            nb = ctx.get('nobind', ())
            ys = [z for z in POOL if z not in nb]
            return [['bind', rng.choice(ys), d1]] + rs + [['bind', rng.choice(ys), d2]]
        if kind == 'if':
            c = self.events()
            a = self.block(depth + 1, ctx, 1, 3)
            b = self.block(depth + 1, ctx, 0, 2) if rng.random() < 0.6 else ['seq', []]
            if rng.random() < 0.25:
                # an elif ladder (an else: holding exactly one if) whose elif test binds a name through a walrus; the name is read
                # in the first branch (unbound there on every path through the ladder) and after the ladder (possibly unbound)
                self.count('elif-walrus-shape')
                y = [z for z in POOL if z not in ctx.get('nobind', ())][0] if ctx.get('nobind') else self.name()
                d1 = self.s()
                self.hints[d1] = 'walrus'
                c2 = self.events(walrus=False)
                c2 = ['seq', c2[1] + [['bind', y, d1]]]
                a2 = self.block(depth + 1, ctx, 1, 2)
                a = ['seq', [['read', y, self.r()]] + a[1]]
                return [['if', c, a, ['seq', [['if', c2, a2, b]]]], ['read', y, self.r()]]
            return [['if', c, a, b]]
        if kind == 'while':
            c = self.events()
            b = self.block(depth + 1, dict(ctx, loop=True), 1, 3)
            e = self.block(depth + 1, ctx, 1, 2) if rng.random() < 0.35 else ['seq', []]
            if rng.random() < 0.3:
                # walrus in the test binding a name the body binds too; the name is read in else: and after the loop
                self.count('while-walrus-shape')
                y = [z for z in POOL if z not in ctx.get('nobind', ())][0] if ctx.get('nobind') else self.name()
                d1, d2 = self.s(), self.s()
                self.hints[d1] = 'walrus'
                self.hints[d2] = 'assign'
                c = ['seq', c[1] + [['bind', y, d1]]]
                b = ['seq', b[1] + [['bind', y, d2]]]
                e = ['seq', [['read', y, self.r()]] + e[1]]
                return [['while', c, b, e], ['read', y, self.r()]]
            return [['while', c, b, e]]
        if kind == 'for':
            it = ['seq', self.reads(0, 2)]
            nb = ctx.get('nobind', ())
            ys = [z for z in POOL if z not in nb]
            tg = [['bind', rng.choice(ys), self.s()] for _ in range(1 if rng.random() < 0.7 else 2)]
            b = self.block(depth + 1, dict(ctx, loop=True), 1, 3)
            if self.scopes and not ctx.get('noscope') and rng.random() < 0.15:
                b = ['seq', [self.deco_def(tg[0][1], depth, ctx)] + b[1]]
            e = self.block(depth + 1, ctx, 1, 2) if rng.random() < 0.35 else ['seq', []]
            return [['for', it, tg, b, e]]
        if kind == 'try':
            nh = rng.choice([0, 1, 1, 1, 2])
            body = self.block(depth + 1, ctx, 1, 3)
            if self.fragment == 'C03' and nh:
                body = ['seq', [['mayraise', self.k()]] + body[1] + [['mayraise', self.k()]]]
            elif nh and (self.fragment == 'C02' or rng.random() < 0.7):
                pre = [['mayraise', self.k()]] if rng.random() < 0.6 else []
                post = [['mayraise', self.k()]] if rng.random() < 0.6 else []
                body = ['seq', pre + body[1] + post]
            hs = []
            for _ in range(nh):
                ty = ['seq', self.reads(0, 2)]
                nm = None
                if rng.random() < 0.5:
                    y = self.auxname()
                    if y not in ctx.get('nobind', ()):
                        nm = ['bind', y, self.s()]
                hb = self.block(depth + 1, ctx, 0, 2)
                if nm and self.scopes and not ctx.get('noscope') and rng.random() < 0.3:
                    hb = ['seq', [self.deco_def(nm[1], depth, ctx)] + hb[1]]
                hs.append([ty, nm, hb])
            e = self.block(depth + 1, ctx, 1, 2) if nh and rng.random() < 0.4 else ['seq', []]
            f = self.block(depth + 1, ctx, 1, 2) if (nh == 0 or rng.random() < 0.35) else ['seq', []]
            return [['try', body, hs, e, f]]
        if kind == 'comp':
            gens = []
            used = []
            for _ in range(1 if rng.random() < 0.65 else 2):
                it = ['seq', self.reads(0, 2)]
                tg = []
                for _ in range(1 if rng.random() < 0.8 else 2):
                    y = self.auxname()
                    tg.append(['bind', y, self.s()])
                    used.append(y)
                ifs = ['seq', self.comp_reads(used) if rng.random() < 0.5 else []]
                gens.append([it, tg, ifs])
            elt = ['seq', self.comp_reads(used, 1)]
            return [['comp', gens, elt]]
        if kind in ('def', 'lambda'):
            params = []
            seen = set()
            for _ in range(rng.choice([0, 1, 1, 2])):
                y = self.name()
                if y not in seen:
                    seen.add(y)
                    params.append(['bind', y, self.s()])
            if kind == 'lambda':
                pre = ['seq', self.reads(0, 1) if params else []]
                body = ['seq', self.reads(1, 2)]
                self.hints[('lam', self.rid)] = rng.choice(['pos', 'kw'])
                return [['lambda', pre, params, body]]
            fname = self.name()
            if fname in ctx.get('nobind', ()):
                fname = [z for z in POOL if z not in ctx['nobind']][0]
            excl = (fname,) if self.fragment == 'C03' else ()
            pre = ['seq', self.reads(0, 2, exclude=excl)]
            d = self.s()
            self.hints[d] = {'dec': rng.randint(0, len(pre[1])), 'kw': rng.random() < 0.4, 'posonly': rng.random() < 0.25,
                             'ann': rng.random() < 0.3}
            inner = dict(func=True, nobind=(), outer_func_binds=ctx.get('func_binds', ()))
            decls = []
            if full and rng.random() < 0.25:
                g = [y for y in POOL if y not in seen]
                y = rng.choice(g)
                decls.append(['global', [y]])
                inner['nobind'] = ()
            body = self.block(depth + 1, inner, 1, 4)
            if params and not decls and rng.random() < 0.2:
                body = ['seq', [self.deco_def(params[0][1], depth, inner)] + body[1]]
            if full and rng.random() < 0.3:
                body[1].append(['return'])
            body = ['seq', decls + body[1]]
            return [['def', pre, ['bind', fname, d], params, body]]
        if kind == 'class':
            cname = self.name()
            if cname in ctx.get('nobind', ()):
                cname = [z for z in POOL if z not in ctx['nobind']][0]
            pre = ['seq', self.reads(0, 2, exclude=(cname,) if self.fragment == 'C03' else ())]
            d = self.s()
            self.hints[d] = {'dec': rng.randint(0, len(pre[1])), 'kw': rng.random() < 0.4}
            body = self.block(depth + 1, dict(cls=True, noscope=(self.fragment != 'C01' and False)), 1, 3)
            return [['class', pre, ['bind', cname, d], body]]
        if kind == 'jump':
            c = []
            if ctx.get('loop'):
                c += [['break'], ['continue']]
            if ctx.get('func'):
                c += [['return']]
            c += [['raise']]
            return [rng.choice(c)]
        if kind == 'mayraise':
            return [['mayraise', self.k()]]
        raise AssertionError(kind)

    def deco_def(self, target, depth, ctx):
        """a def with two decorators whose FIRST decorator reads `target` (the for target / except name / parameter of the
        enclosing construct); meant to be the first statement of that construct's body"""
        self.count('decorated-first')
        fname = self.rng.choice([z for z in POOL if z != target and z not in ctx.get('nobind', ())] or POOL)
        pre = ['seq', [['read', target, self.r()], ['read', self.rng.choice([z for z in POOL if z != fname]), self.r()]]]
        d = self.s()
        self.hints[d] = {'dec': 2, 'kw': False, 'posonly': False, 'ann': False}
        return ['def', pre, ['bind', fname, d], [], ['seq', [['read', self.name(), self.r()]]]]

    def comp_reads(self, used, lo=0):
        out = []
        for _ in range(self.rng.randint(max(lo, 1), 2)):
            x = self.rng.choice(used) if self.rng.random() < 0.5 else self.name()
            out.append(['read', x, self.r()])
        return out


def gen_program(rng, fragment, level, max_stmts=None):
    """level: 'module' | 'function'.  -> (program Stmt, hints)"""
    g = Gen(rng, fragment, max_stmts=max_stmts or rng.choice([6, 12, 25, 40]), max_depth=rng.choice([2, 3, 5]))
    if level == 'module':
        prog = g.block(0, {}, 2, 6)
    else:
        body = g.block(1, dict(func=True), 2, 6)
        d = g.s()
        g.hints[d] = {'dec': 0, 'kw': False, 'posonly': False, 'ann': False, 'wrapper': True}
        pre_binds = []
        post_binds = []
        if fragment == 'C01':
            # module-level names around the wrapper: the outer fallback of the function region
            for _ in range(rng.randint(0, 2)):
                dd = g.s()
                g.hints[dd] = 'assign'
                pre_binds.append(['bind', g.name(), dd])
            for _ in range(rng.randint(0, 2)):
                dd = g.s()
                g.hints[dd] = 'assign'
                post_binds.append(['bind', g.name(), dd])
        params = []
        if rng.random() < 0.4:
            params.append(['bind', g.name(), g.s()])
        prog = ['seq', pre_binds + [['def', ['seq', []], ['bind', 'main', d], params, body]] + post_binds]
    if rng.random() < 0.25:
        # other spellings for the same program: soft keywords, `_`, test_-prefixed, self (nothing may depend on how a name is spelt)
        g.stats['respelt'] = 1
        prog = respell(prog, SPELLINGS)
    return prog, g.hints, g.stats


SPELLINGS = {'a': 'match', 'b': 'lambda_b', 'c': '_', 'd': 'test_d', 'e': 'self', 'f': 'case', 'i': 'cls', 'j': 'soft_j', 'k': '__k__'}


def respell(x, table):
    if isinstance(x, list):
        return [respell(y, table) for y in x]
    if isinstance(x, tuple):
        return tuple(respell(y, table) for y in x)
    if isinstance(x, str):
        return table.get(x, x)
    return x


# ============================================================================ syntactic facts about Stmt

def walk(s):
    """all sub-statements, pre-order"""
    yield s
    t = s[0]
    if t == 'seq':
        for x in s[1]:
            for y in walk(x):
                yield y
    elif t in ('if', 'while'):
        for x in s[1:4]:
            for y in walk(x):
                yield y
    elif t == 'for':
        for x in [s[1]] + s[2] + [s[3], s[4]]:
            for y in walk(x):
                yield y
    elif t == 'try':
        for y in walk(s[1]):
            yield y
        for ty, nm, hb in s[2]:
            for x in [ty] + ([nm] if nm else []) + [hb]:
                for y in walk(x):
                    yield y
        for x in (s[3], s[4]):
            for y in walk(x):
                yield y
    elif t == 'comp':
        for it, tg, ifs in s[1]:
            for x in [it] + tg + [ifs]:
                for y in walk(x):
                    yield y
        for y in walk(s[2]):
            yield y
    elif t == 'def':
        for x in [s[1], s[2]] + s[3] + [s[4]]:
            for y in walk(x):
                yield y
    elif t == 'lambda':
        for x in [s[1]] + s[2] + [s[3]]:
            for y in walk(x):
                yield y
    elif t == 'class':
        for x in [s[1], s[2], s[3]]:
            for y in walk(x):
                yield y


def scope_facts(prog):
    """-> (read_scope {r: scope id}, site_scope {d: scope id}, scope_info {id: {'kind','locals','decl','parent'}},
           read_name {r: x}, site_name {d: x}, read_ctx {r: set of flags})
    scope 0 = module.  Comprehension variables belong to the enclosing scope's table in supp; flags mark reads inside
    comprehensions ('comp'), directly in class bodies ('class')."""
    info = {0: {'kind': 'module', 'locals': set(), 'decl': set(), 'parent': None}}
    read_scope, site_scope, read_name, site_name, read_ctx, site_kind = {}, {}, {}, {}, {}, {}
    counter = [0]

    def new(kind, parent):
        counter[0] += 1
        info[counter[0]] = {'kind': kind, 'locals': set(), 'decl': set(), 'parent': parent}
        return counter[0]

    def go(s, sc, flags, bk='bind'):
        t = s[0]
        if t == 'bind':
            site_scope[s[2]] = sc
            site_name[s[2]] = s[1]
            site_kind[s[2]] = bk
            if s[1] not in info[sc]['decl']:
                info[sc]['locals'].add(s[1])
        elif t == 'read':
            read_scope[s[2]] = sc
            read_name[s[2]] = s[1]
            read_ctx[s[2]] = set(flags)
        elif t == 'seq':
            for x in s[1]:
                go(x, sc, flags)
        elif t in ('if', 'while'):
            for x in s[1:4]:
                go(x, sc, flags)
        elif t == 'for':
            go(s[1], sc, flags)
            for x in s[2]:
                go(x, sc, flags, 'fortarget')
            go(s[3], sc, flags)
            go(s[4], sc, flags)
        elif t == 'try':
            go(s[1], sc, flags)
            for ty, nm, hb in s[2]:
                go(ty, sc, flags | {'htype'})
                if nm:
                    go(nm, sc, flags, 'exceptname')
                go(hb, sc, flags)
            go(s[3], sc, flags)
            go(s[4], sc, flags)
        elif t == 'comp':
            first = True
            for it, tg, ifs in s[1]:
                go(it, sc, flags if first else flags | {'comp'})
                first = False
                for x in tg:
                    go(x, sc, flags, 'comptarget')
                go(ifs, sc, flags | {'comp'})
            go(s[2], sc, flags | {'comp'})
        elif t in ('def', 'lambda'):
            go(s[1], sc, flags)
            if t == 'def':
                go(s[2], sc, flags, 'def')
            n = new('func', sc)
            params, body = (s[3], s[4]) if t == 'def' else (s[2], s[3])
            for x in body[1] if body[0] == 'seq' else []:
                if x[0] in ('global', 'nonlocal'):
                    info[n]['decl'].update(x[1])
            for x in params:
                go(x, n, set(), 'param')
            go(body, n, set())
        elif t == 'class':
            go(s[1], sc, flags)
            go(s[2], sc, flags, 'class')
            n = new('class', sc)
            go(s[3], n, {'class'})

    go(prog, 0, set())
    return read_scope, site_scope, info, read_name, site_name, read_ctx, site_kind


def has_kind(prog, kinds):
    return any(x[0] in kinds for x in walk(prog))


# ============================================================================ renderer

class Out(object):
    def __init__(self, instrumented):
        self.lines = []
        self.ins = instrumented
        self.bind_pos = {}    # site -> (line, col) as supp reports declared_at
        self.read_pos = {}    # rid -> (line, col)
        self.cur = ''
        self.ind = 0
        self.loop_id = 0

    def start(self):
        self.cur = '    ' * self.ind

    def put(self, text):
        self.cur += text

    def here(self):
        return (len(self.lines) + 1, len(self.cur))

    def end(self):
        self.lines.append(self.cur)
        self.cur = ''

    def line(self, text):
        self.start()
        self.put(text)
        self.end()


class Renderer(object):
    def __init__(self, hints, instrumented, comp_strict=False):
        self.comp_strict = comp_strict   # a failing read inside a comprehension aborts the comprehension (NameError)
        self.h = hints
        self.o = Out(instrumented)
        self.ins = instrumented
        self.cls_depth = []   # stack: True when directly in a class body
        self.decl = [set()]   # names declared global/nonlocal in the enclosing function bodies (innermost last)

    # -- atoms
    def read(self, s, in_class=False):
        o = self.o
        x, r = s[1], s[2]
        if self.ins:
            if self.cls_depth and self.cls_depth[-1] == 'class':
                o.put('_rd(%d, lambda: %s, locals(), %r)' % (r, x, x))
            elif self.comp_strict and 'comp' in self.cls_depth:
                o.put('_rds(%d, lambda: %s)' % (r, x))
            else:
                o.put('_rd(%d, lambda: %s)' % (r, x))
        else:
            o.read_pos[r] = o.here()
            o.put(x)

    def value(self, d):
        self.o.put(('_V(%d)' if self.ins else 'V(%d)') % d)

    def target(self, s, pos=None):
        o = self.o
        o.bind_pos[s[2]] = pos or o.here()
        o.put(s[1])

    def events(self, evs, fn, extra=''):
        """fn(extra, ev1, ev2, ...) with reads as names and binds as walrus"""
        o = self.o
        o.put(('_' if self.ins else '') + fn + '(' + extra)
        first = not extra
        extra = None
        for e in evs:
            if not first:
                o.put(', ')
            first = False
            if e[0] == 'read':
                self.read(e)
            elif e[0] == 'bind':
                o.put('(')
                self.target(e)
                o.put(' := ')
                self.value(e[2])
                o.put(')')
            else:
                raise AssertionError(e)
        o.put(')')

    @staticmethod
    def flat(s):
        """event list of a test / iter / pre Stmt"""
        if s[0] == 'seq':
            out = []
            for x in s[1]:
                out += Renderer.flat(x)
            return out
        return [s]

    def _decorated(self, s):
        while s[0] == 'seq' and s[1]:
            s = s[1][0]
        return s[0] in ('def', 'class') and (self.ins or bool(self.flat(s[1])))

    # -- statements
    def block(self, s):
        items = s[1] if s[0] == 'seq' else [s]
        n0 = len(self.o.lines)
        self.o.ind += 1
        if AVOID_DECORATED_FIRST and items and self._decorated(items[0]):
            self.o.line('pass')
        self.seq(items)
        if len(self.o.lines) == n0:
            self.o.line('pass')
        self.o.ind -= 1

    def seq(self, items):
        i = 0
        while i < len(items):
            s = items[i]
            if s[0] == 'bind':
                h = self.h.get(s[2], 'assign')
                if isinstance(h, tuple) and h[0] == 'with':
                    n = h[1]
                    self.with2(s, items[i + 1:i + 1 + n], items[i + 1 + n])
                    i += n + 2
                    continue
                if h == 'tuple' and i + 1 < len(items) and items[i + 1][0] == 'bind' and self.h.get(items[i + 1][2]) == 'tuple2':
                    self.tuple2(s, items[i + 1])
                    i += 2
                    continue
            if s[0] == 'read':
                k = 0
                while i + k < len(items) and items[i + k][0] == 'read' and k < 3:
                    k += 1
                if i + k < len(items) and items[i + k][0] == 'bind' and self.h.get(items[i + k][2]) == ('fstr', k):
                    b = items[i + k]
                    self.o.start()
                    self.target(b)
                    self.o.put(' = ')
                    self.value(b[2])
                    self.o.put(' @ f"{')
                    self.events(items[i:i + k], 'use')
                    self.o.put('}"')
                    self.o.end()
                    i += k + 1
                    continue
                # consecutive reads -> one use(...)
                j = i
                while j < len(items) and items[j][0] == 'read' and j - i < 3:
                    j += 1
                self.o.start()
                self.events(items[i:j], 'use')
                self.o.end()
                i = j
                continue
            self.stmt(s)
            i += 1

    def with2(self, b1, rs, b2):
        o = self.o
        o.start()
        o.put('with ' + ('_K' if self.ins else 'K') + '(%d) as ' % b1[2])
        self.target(b1)
        o.put(', ')
        self.events(rs, 'K', '%d' % b2[2])
        o.put(' as ')
        self.target(b2)
        o.put(':')
        o.end()
        o.ind += 1
        o.line('pass')
        o.ind -= 1

    def tuple2(self, b1, b2):
        o = self.o
        o.start()
        self.target(b1)
        o.put(', ')
        self.target(b2)
        o.put(' = ')
        self.value(b1[2])
        o.put(', ')
        self.value(b2[2])
        o.end()

    def stmt(self, s):
        o = self.o
        t = s[0]
        if t == 'seq':
            self.seq(s[1])
        elif t == 'bind':
            h = self.h.get(s[2], 'assign')
            o.start()
            if h == 'ann' and s[1] not in self.decl[-1]:
                self.target(s)
                o.put(': int = ')
                self.value(s[2])
                o.end()
            elif h == 'walrus':
                self.events([s], 'use')
                o.end()
            elif h == 'with1':
                o.put('with ' + ('_K' if self.ins else 'K') + '(%d) as ' % s[2])
                self.target(s)
                o.put(':')
                o.end()
                o.ind += 1
                o.line('pass')
                o.ind -= 1
            else:
                self.target(s)
                o.put(' = ')
                self.value(s[2])
                o.end()
        elif t == 'read':
            o.start()
            self.events([s], 'use')
            o.end()
        elif t == 'if':
            o.start()
            o.put('if ')
            self.events(self.flat(s[1]), 'T')
            o.put(':')
            o.end()
            self.block(s[2])
            if self.flat(s[3]):
                o.line('else:')
                self.block(s[3])
        elif t == 'while':
            o.loop_id += 1
            lid = o.loop_id
            if self.ins:
                o.line('_enter(%d)' % lid)
            o.start()
            o.put('while ')
            self.events(self.flat(s[1]), 'W' if self.ins else 'T', ('%d' % lid) if self.ins else '')
            o.put(':')
            o.end()
            self.block(s[2])
            if self.flat(s[3]):
                o.line('else:')
                self.block(s[3])
        elif t == 'for':
            o.start()
            o.put('for ')
            for n, b in enumerate(s[2]):
                if n:
                    o.put(', ')
                self.target(b)
            o.put(' in ')
            ev = self.flat(s[1])
            self.events(ev, 'IT', ('%r' % [b[2] for b in s[2]]) if self.ins else '')
            o.put(':')
            o.end()
            self.block(s[3])
            if self.flat(s[4]):
                o.line('else:')
                self.block(s[4])
        elif t == 'try':
            o.line('try:')
            self.block(s[1])
            for n, (ty, nm, hb) in enumerate(s[2]):
                o.start()
                kwpos = o.here()
                o.put('except ')
                ev = self.flat(ty)
                last = n == len(s[2]) - 1
                self.events(ev, 'H', ('%d' % (1 if last else 0)) if self.ins else '')
                if nm:
                    o.put(' as ')
                    self.target(nm, kwpos)
                o.put(':')
                o.end()
                if self.ins and nm:
                    o.ind += 1
                    o.line('_tagexc(%s, %d)' % (nm[1], nm[2]))
                    o.ind -= 1
                    n0 = len(o.lines)
                    o.ind += 1
                    self.seq(hb[1] if hb[0] == 'seq' else [hb])
                    o.ind -= 1
                else:
                    self.block(hb)
            if self.flat(s[3]):
                o.line('else:')
                self.block(s[3])
            if self.flat(s[4]) or not s[2]:
                o.line('finally:')
                self.block(s[4])
        elif t == 'comp':
            wrap = self.ins and self.comp_strict
            if wrap:
                o.line('try:')
                o.ind += 1
            o.start()
            o.put('use([')
            self.events(self.flat(s[2]), 'U')
            for n, (it, tg, ifs) in enumerate(s[1]):
                o.put(' for ')
                for m, b in enumerate(tg):
                    if m:
                        o.put(', ')
                    self.target(b)
                o.put(' in ')
                ev = self.flat(it)
                # the first iterable is evaluated in the enclosing scope, the others inside the comprehension
                saved = self.cls_depth
                if n > 0:
                    self.cls_depth = saved + ['comp']
                self.events(ev, 'IT', ('%r' % [b[2] for b in tg]) if self.ins else '')
                self.cls_depth = saved + ['comp']
                if self.flat(ifs):
                    o.put(' if ')
                    self.events(self.flat(ifs), 'T')
                self.cls_depth = saved
            o.put('])')
            o.end()
            if wrap:
                o.ind -= 1
                o.line('except NameError:')
                o.line('    pass')
        elif t == 'def':
            self.render_def(s)
        elif t == 'lambda':
            o.start()
            o.put('use(' if not self.ins else '_calll(')
            o.put('lambda')
            ev = self.flat(s[1])
            style = 'pos'
            for n, p in enumerate(s[2]):
                o.put(', ' if n else ' ')
                last = n == len(s[2]) - 1
                if last and ev and style == 'kw':
                    o.put('*, ')
                self.target(p)
                if last and ev:
                    o.put('=')
                    self.events(ev, 'U')
            o.put(': ')
            self.cls_depth.append('func')
            self.events(self.flat(s[3]), 'U')
            self.cls_depth.pop()
            if self.ins:
                o.put(', %r' % [[p[1], p[2]] for p in s[2]])
            o.put(')')
            o.end()
        elif t == 'class':
            h = self.h.get(s[2][2], {})
            ev = self.flat(s[1])
            nd = min(h.get('dec', 0), len(ev))
            if self.ins:
                o.line('@_tag(%d)' % s[2][2])
            for e in ev[:nd]:
                o.start()
                o.put('@')
                self.events([e], 'D')
                o.end()
            o.start()
            o.put('class ')
            self.target(s[2])
            rest = ev[nd:]
            if rest:
                o.put('(')
                if h.get('kw') and len(rest) >= 1:
                    if len(rest) > 1:
                        self.events(rest[:-1], 'B')
                        o.put(', ')
                    o.put('metaclass=')
                    self.events(rest[-1:], 'M')
                else:
                    self.events(rest, 'B')
                o.put(')')
            o.put(':')
            o.end()
            self.cls_depth.append('class')
            self.decl.append(set())
            self.block(s[3])
            self.decl.pop()
            self.cls_depth.pop()
        elif t == 'mayraise':
            o.line(('_R(%d)' if self.ins else 'R(%d)') % s[1])
        elif t == 'break':
            o.line('break')
        elif t == 'continue':
            o.line('continue')
        elif t == 'return':
            o.line('return')
        elif t == 'raise':
            o.line('raise Boom()')
        elif t == 'global':
            o.line('global ' + ', '.join(s[1]))
        elif t == 'nonlocal':
            o.line('nonlocal ' + ', '.join(s[1]))
        else:
            raise AssertionError(s)

    def render_def(self, s):
        o = self.o
        h = self.h.get(s[2][2], {})
        ev = self.flat(s[1])
        params = s[3]
        nd = min(h.get('dec', 0), len(ev))
        if not params:
            nd = len(ev)
        if self.ins:
            o.line('@_tag(%d)' % s[2][2])
        for e in ev[:nd]:
            o.start()
            o.put('@')
            self.events([e], 'D')
            o.end()
        rest = ev[nd:]
        o.start()
        o.put('def ')
        self.target(s[2])
        o.put('(')
        # distribute the remaining pre events: annotation of the first parameter / defaults of the last parameter(s)
        np_ = len(params)
        kwonly = h.get('kw') and np_ >= 1
        posonly = h.get('posonly') and np_ >= 2 and not self.ins
        dflt = {}
        ann = {}
        if rest:
            if h.get('ann') and len(rest) >= 2:
                ann[0] = rest[:1]
                rest = rest[1:]
            if kwonly and np_ >= 2 and len(rest) >= 2:
                dflt[np_ - 2] = rest[:1]
                dflt[np_ - 1] = rest[1:]
            else:
                dflt[np_ - 1] = rest
        for n, p in enumerate(params):
            if n:
                o.put(', ')
            if kwonly and n == np_ - 1:
                o.put('*, ')
            self.target(p)
            if n in ann:
                o.put(': ')
                self.events(ann[n], 'U')
            if n in dflt:
                o.put('=')
                self.events(dflt[n], 'U')
            if posonly and n == 0:
                o.put(', /')
        o.put('):')
        o.end()
        self.cls_depth.append('func')
        self.decl.append(set(x for st in (s[4][1] if s[4][0] == 'seq' else []) if st[0] in ('global', 'nonlocal') for x in st[1]))
        self.block(s[4])
        self.decl.pop()
        self.cls_depth.pop()
        if self.ins:
            o.line('_call(%s, %r)' % (s[2][1], [[p[1], p[2]] for p in params]))


def render(prog, hints, instrumented=False, comp_strict=False):
    """-> (source, bind_pos {site: (line, col)}, read_pos {rid: (line, col)})"""
    r = Renderer(hints, instrumented, comp_strict)
    r.seq(prog[1] if prog[0] == 'seq' else [prog])
    if not r.o.lines:
        r.o.line('pass')
    if instrumented:
        r.o.line('_finish()')
    return '\n'.join(r.o.lines) + '\n', r.o.bind_pos, r.o.read_pos


# ============================================================================ supp side

_supp = {}


def load_supp():
    if _supp:
        return _supp
    for k in [k for k in sys.modules if k == 'supp' or k.startswith('supp.')]:
        del sys.modules[k]
    sys.path.insert(0, common.REPO)
    import logging
    logging.disable(logging.CRITICAL)
    from supp.project import Project
    from supp.util import Source, get_name_usages, np
    from supp.nast import extract_scope
    from supp.name import MultiName, UndefinedName
    from supp.linter import lint
    from supp.assistant import assist, location
    tmp = tempfile.mkdtemp(prefix='den-proj-')
    import atexit
    import shutil
    atexit.register(shutil.rmtree, tmp, True)      # scratch project root: nothing of it is needed after the run
    _supp.update(dict(Project=Project, Source=Source, get_name_usages=get_name_usages, np=np, extract_scope=extract_scope,
                      MultiName=MultiName, UndefinedName=UndefinedName, lint=lint, assist=assist, location=location,
                      tmp=tmp, project=Project([tmp])))
    return _supp


def supp_answers(src, bind_pos, read_pos):
    """names_at per read -> {rid: sorted list of site ids / 'undef' / 'noflow' / '?(l,c)'}"""
    S = load_supp()
    source = S['Source'](src, os.path.join(S['tmp'], 'x.py'))
    S['extract_scope'](source, S['project'])
    by_pos = {}
    for n in S['get_name_usages'](source.tree):
        by_pos[S['np'](n)] = n
    site_at = {}
    for d, p in bind_pos.items():
        site_at.setdefault(p, []).append(d)
    out = {}
    for r, pos in read_pos.items():
        n = by_pos.get(pos)
        if n is None:
            out[r] = ['?noname']
            continue
        if not hasattr(n, 'flow'):
            out[r] = ['noflow']
            continue
        try:
            v = n.flow.names_at(pos)[n.id]
        except KeyError:
            out[r] = ['undef']
            continue
        alts = v.alt_names if isinstance(v, S['MultiName']) else [v]
        res = set()
        for a in alts:
            if isinstance(a, S['UndefinedName']):
                res.add('undef')
            else:
                da = tuple(getattr(a, 'declared_at', (-1, -1)))
                ds = [d for d in site_at.get(da, [])]
                # several sites can share a reported position only for except names (keyword position): unique anyway
                cand = [d for d in ds if True]
                if len(cand) == 1:
                    res.add(cand[0])
                elif cand:
                    # tuple targets etc. have distinct positions; fall back to the name
                    res.update(cand)
                else:
                    res.add('?%s:%s' % (getattr(a, 'name', '?'), da))
        out[r] = sorted(res, key=str)
    return out


def supp_lint(src):
    S = load_supp()
    return [(t[0], t[2], t[3], t[1]) for t in S['lint'](S['project'], src, os.path.join(S['tmp'], 'x.py'))]


# ============================================================================ CPython oracle

class Boom(Exception):
    pass


class NoMatch(Exception):
    pass


class Tag(object):
    __slots__ = ('site',)

    def __init__(self, site):
        self.site = site

    def __matmul__(self, other):          # `V(d) @ f"..."`: the f-string is evaluated, the value stays the tag
        return self


class Abort(BaseException):
    pass


class Runtime(object):
    """decision-driven execution environment of one instrumented run"""
    MAXDEC = 600

    def __init__(self, prefix, trips=2, strict=False):
        self.strict = strict      # True: a failing read raises NameError as in real Python; False: recorded, execution goes on
        self.prefix = prefix
        self.used = []
        self.trace = []        # (rid, site | None)   None = unbound
        self.loops = {}
        self.trips = trips
        self.later = []
        self.finishing = False
        self.depth = 0

    def dec(self):
        i = len(self.used)
        if i >= self.MAXDEC:
            raise Abort()
        v = self.prefix[i] if i < len(self.prefix) else False
        self.used.append(bool(v))
        return bool(v)

    def ns(self):
        R = self

        def _rd(r, th, loc=None, name=None):
            if loc is not None and name in loc:
                v = loc[name]
            else:
                try:
                    v = th()
                except NameError:
                    R.trace.append((r, None, R.depth))
                    if R.strict:
                        raise
                    return None
            R.trace.append((r, getattr(v, 'site', '?'), R.depth))
            return v

        def _rds(r, th):
            try:
                v = th()
            except NameError:
                R.trace.append((r, None, R.depth))
                raise
            R.trace.append((r, getattr(v, 'site', '?'), R.depth))
            return v

        def _V(d):
            return Tag(d)

        def _use(*a):
            return None

        def _T(*a):
            return R.dec()

        def _enter(lid):
            R.loops[lid] = 0

        def _W(lid, *a):
            if R.loops.get(lid, 0) >= R.trips:
                return False
            if R.dec():
                R.loops[lid] = R.loops.get(lid, 0) + 1
                return True
            return False

        def _IT(sites, *a):
            n = 0
            while n < R.trips and R.dec():
                n += 1
                yield Tag(sites[0]) if len(sites) == 1 else tuple(Tag(d) for d in sites)

        def _H(last, *a):
            if last or R.dec():
                return Boom
            return NoMatch

        def _tagexc(e, d):
            try:
                e.site = d
            except Exception:
                pass

        def _R(k):
            if R.dec():
                raise Boom()

        class _K(object):
            def __init__(self, d, *a):
                self.d = d

            def __enter__(self):
                return Tag(self.d)

            def __exit__(self, *a):
                return False

        def _tag(d):
            def deco(o):
                try:
                    o.site = d
                except Exception:
                    pass
                return o
            return deco

        def _D(*a):
            return lambda o: o

        def _B(*a):
            return object

        def _M(*a):
            return type

        def _U(*a):
            return None

        def do_call(fn, params):
            R.depth += 1
            try:
                fn(**{p: Tag(d) for p, d in params})
            except (Boom, NameError, RecursionError):
                pass
            finally:
                R.depth -= 1

        def _call(fn, params):
            if R.dec():
                do_call(fn, params)
            if not R.finishing:
                R.later.append((fn, params))

        def _calll(fn, params):
            _call(fn, params)

        def _finish():
            R.finishing = True
            n = 0
            while R.later and n < 6:
                fn, params = R.later.pop(0)
                n += 1
                if R.dec():
                    do_call(fn, params)

        d = dict(_rd=_rd, _rds=_rds, _V=_V, use=_use, _use=_use, _T=_T, _enter=_enter, _W=_W, _IT=_IT, _H=_H, _tagexc=_tagexc, _R=_R,
                 _K=_K, _tag=_tag, _D=_D, _B=_B, _M=_M, _U=_U, _call=_call, _calll=_calll, _finish=_finish, Boom=Boom,
                 __name__='__den__')
        return d


def run_once(code, prefix, trips=2, strict=False):
    rt = Runtime(prefix, trips, strict)
    ns = rt.ns()
    status = 'ok'
    try:
        exec(code, ns)
    except (Boom, NameError):
        status = 'exc'
        # the module body was aborted: functions registered for a later call are still callable
        try:
            ns['_finish']()
        except (Boom, NameError):
            pass
        except Abort:
            status = 'abort'
    except Abort:
        status = 'abort'
    except RecursionError:
        status = 'abort'
    return rt.trace, rt.used, status


def explore(src_ins, limit, rng=None, trips=2, strict=False):
    """all decision sequences (DFS, default False) up to `limit` runs -> (list of (decisions, trace, status), exhaustive?)"""
    code = compile(src_ins, '<den>', 'exec')
    runs = []
    stack = [[]]
    exhaustive = True
    while stack:
        if len(runs) >= limit:
            exhaustive = False
            break
        p = stack.pop()
        trace, used, status = run_once(code, p, trips, strict)
        runs.append((used, trace, status))
        if status == 'abort':
            exhaustive = False
        for i in range(len(used) - 1, len(p) - 1, -1):
            stack.append(used[:i] + [True])
    if not exhaustive and rng is not None:
        # random long sequences in addition
        for _ in range(min(limit // 4, 200)):
            p = [rng.random() < 0.5 for _ in range(80)]
            trace, used, status = run_once(code, p, trips, strict)
            runs.append((used, trace, status))
    return runs, exhaustive


# ============================================================================ driver

def den_request(prog, decisions=None):
    q = {'op': 'den', 'prog': prog}
    if decisions is not None:
        q['runs'] = [[1 if b else 0 for b in d] for d in decisions]
    return q


def ask_den(reqs):
    return common.ask_driver(reqs, exe='drv_den')


# ============================================================================ shrinking

def _variants(s):
    """smaller programs: drop one element of some seq, or replace a compound statement by one of its blocks"""
    t = s[0]
    if t == 'seq':
        for i in range(len(s[1])):
            yield ['seq', s[1][:i] + s[1][i + 1:]]
        for i, x in enumerate(s[1]):
            if x[0] in ('if', 'while', 'for', 'try', 'def', 'class'):
                for sub in _blocks(x):
                    yield ['seq', s[1][:i] + (sub[1] if sub[0] == 'seq' else [sub]) + s[1][i + 1:]]
            for v in _variants(x):
                yield ['seq', s[1][:i] + [v] + s[1][i + 1:]]
    elif t in ('if', 'while'):
        for k in (1, 2, 3):
            for v in _variants(s[k]):
                yield s[:k] + [v] + s[k + 1:]
    elif t == 'for':
        for k in (1, 3, 4):
            for v in _variants(s[k]):
                yield s[:k] + [v] + s[k + 1:]
        if len(s[2]) > 1:
            yield s[:2] + [s[2][:1]] + s[3:]
    elif t == 'try':
        for k in (1, 3, 4):
            for v in _variants(s[k]):
                yield s[:k] + [v] + s[k + 1:]
        for i, (ty, nm, hb) in enumerate(s[2]):
            if len(s[2]) > 1 or s[4][1]:
                if not (i == 0 and len(s[2]) == 1 and s[3][1]):
                    yield s[:2] + [s[2][:i] + s[2][i + 1:]] + s[3:]
            if nm:
                yield s[:2] + [s[2][:i] + [[ty, None, hb]] + s[2][i + 1:]] + s[3:]
            for v in _variants(ty):
                yield s[:2] + [s[2][:i] + [[v, nm, hb]] + s[2][i + 1:]] + s[3:]
            for v in _variants(hb):
                yield s[:2] + [s[2][:i] + [[ty, nm, v]] + s[2][i + 1:]] + s[3:]
    elif t == 'comp':
        if len(s[1]) > 1:
            for i in range(len(s[1])):
                yield ['comp', s[1][:i] + s[1][i + 1:], s[2]]
        for i, (it, tg, ifs) in enumerate(s[1]):
            for v in _variants(it):
                yield ['comp', s[1][:i] + [[v, tg, ifs]] + s[1][i + 1:], s[2]]
            for v in _variants(ifs):
                yield ['comp', s[1][:i] + [[it, tg, v]] + s[1][i + 1:], s[2]]
        for v in _variants(s[2]):
            if v[1]:
                yield ['comp', s[1], v]
    elif t == 'def':
        for v in _variants(s[1]):
            yield ['def', v, s[2], s[3], s[4]]
        for i in range(len(s[3])):
            yield ['def', s[1], s[2], s[3][:i] + s[3][i + 1:], s[4]]
        for v in _variants(s[4]):
            yield ['def', s[1], s[2], s[3], v]
    elif t == 'class':
        for v in _variants(s[1]):
            yield ['class', v, s[2], s[3]]
        for v in _variants(s[3]):
            yield ['class', s[1], s[2], v]
    elif t == 'lambda':
        for v in _variants(s[1]):
            yield ['lambda', v, s[2], s[3]]


def _blocks(x):
    t = x[0]
    if t in ('if', 'while'):
        return [x[2], x[3]]
    if t == 'for':
        return [x[3], x[4]]
    if t == 'try':
        return [x[1], x[3], x[4]] + [h[2] for h in x[2]]
    if t == 'def':
        return [x[4]]
    if t == 'class':
        return [x[3]]
    return []


def shrink(prog, still_fails, budget=400):
    """greedy: keep any smaller variant on which `still_fails(prog)` holds (exceptions count as 'does not fail')"""
    n = 0
    progress = True
    while progress and n < budget:
        progress = False
        for v in _variants(prog):
            n += 1
            if n > budget:
                break
            try:
                ok = still_fails(v)
            except Exception:
                ok = False
            if ok:
                prog = v
                progress = True
                break
    return prog


# ============================================================================ the check shared by C01 / C02 / C03

FRAGMENT_NOTE = ('Lean theorems (Props/%s.lean) are about: bind/read/seq/if/while(test,else)/for(targets,else)/'
                 'try(handlers,else,finally)/def/lambda/class as statements of one scope body')
OUTSIDE_THEOREM = ['comprehensions: inside the C02 theorem fragment when iterables / conditions / element are read-only and the read '
                   'is not a late one (Witness/C02.lean); outside the C01_visible and C03 fragments (Den + correspondence + '
                   'CPython oracle only)',
                   "bindings of names declared 'global' (gbind)",
                   'nested scope bodies relative to their enclosing activation (each scope body is its own program)']


# full statements kept as `def …_stmt : Prop` without a proof (NOT counted as obligations: only `theorem`s are)
STATED_NOT_PROVED = {'C01': [], 'C02': [], 'C03': []}
THEOREM_HYPOTHESES = {
    'C01': ['C01_visible: wf s (handler chains only inside try, for-targets are bindings, no binding of a name declared '
            "global), r is a read of this scope body; jumps and raise points anywhere; comprehensions have no execution "
            'rule (reads inside them are covered by the oracle only)'],
    'C02': ['C02_sound: inC02 s, r is a read of this scope body, lateRead s r x = false (r does not lie, inside a comprehension, '
            'before a deeper generator level that binds x); per name x'],
    'C03': ['C03_precise / C03_exact / C03_possibly_undefined / C03_undefined: inC03 s (try bodies with handlers may raise '
            'at both ends), r is a read of this scope body, x is not an except-clause name of s (those are deleted when '
            'the handler is left, which supp does not model); C03_exact: a non-empty set S of entry states described '
            'exactly by the entry table for x'],
}


def audit_witness(check, module, namespace, theorems):
    """build a Witness module and audit the axioms of its theorems (one obligation each)"""
    import subprocess
    ok, out = common.lake_build([module])
    if not ok:
        check.oblige('lake build ' + module, False, out[-2000:])
        return
    rel = os.path.join('Audit', module.split('.')[-2] + module.split('.')[-1] + '.lean')
    common.regen(rel, 'import %s\n' % module + ''.join('#print axioms %s.%s\n' % (namespace, t) for t in theorems))
    with common.LakeLock():
        p = subprocess.run(['lake', 'env', 'lean', rel], cwd=common.LEAN, env=common.lake_env(), stdout=subprocess.PIPE,
                           stderr=subprocess.STDOUT, text=True, timeout=900)
    import re
    found = {}
    for m in re.finditer(r"'([^']+)' depends on axioms: \[([^\]]*)\]", p.stdout):
        found[m.group(1).split('.')[-1]] = [a.strip() for a in m.group(2).replace('\n', ' ').split(',') if a.strip()]
    for m in re.finditer(r"'([^']+)' does not depend on any axioms", p.stdout):
        found[m.group(1).split('.')[-1]] = []
    for t in theorems:
        bad = None if t in found else 'no axiom report'
        if t in found and [a for a in found[t] if a not in common.ALLOWED_AXIOMS]:
            bad = 'axioms %s' % found[t]
        check.oblige('witness theorem %s.%s' % (module.split('.')[-1] + ' ' + module.split('.')[-2], t), bad is None, bad or '')
    hits = common.grep_forbidden(module)
    check.oblige('forbidden-construct audit of ' + module, not hits, '; '.join(hits))


def analyse(prog, hints):
    src, bp, rp = render(prog, hints)
    compile(src, '<plain>', 'exec')
    return src, bp, rp, supp_answers(src, bp, rp)


def model_answers(progs, runs=None):
    reqs = [den_request(p, runs[i] if runs else None) for i, p in enumerate(progs)]
    reps = ask_den(reqs)
    out = []
    for r in reps:
        if 'driver_error' in r:
            raise common.Infra('drv_den: ' + r['driver_error'])
        out.append(({rid: sorted(alts, key=str) for rid, x, alts in r['at']}, r))
    return out


def oracle(prop, prog, hints, sa, limit, rng):
    """CPython on the instrumented rendering vs supp's answers `sa`.  -> (violations, n_runs, exhaustive, seen, runs)"""
    comp_strict = prop != 'C03'
    isrc, _, _ = render(prog, hints, True, comp_strict)
    runs, exh = explore(isrc, limit, rng if prop != 'C03' else None)
    rs, ss, info, rname, sname, rctx, skind = scope_facts(prog)
    seen = {}
    wit = {}
    for used, trace, status in runs:
        for r, site, depth in trace:
            if site not in seen.setdefault(r, set()):
                seen[r].add(site)
                wit[(r, site)] = used
    out = []
    for r, obs in seen.items():
        ans = sa.get(r, ['?'])
        x = rname[r]
        sc = rs[r]
        for site in obs:
            if site is None:
                continue
            if prop == 'C01' and (ans == ['undef'] or ans == ['noflow'] or ans == ['?noname']):
                out.append(('C01 a read that succeeded at run time is not visible to supp', r,
                            'name %s bound at site %s, supp: %s' % (x, site, ans), wit[(r, site)]))
            if prop in ('C02', 'C03') and site != '?' and ss.get(site) == sc and x not in info[sc]['decl'] \
                    and not (info[sc]['kind'] == 'class' and False) and site not in ans:
                out.append(('C02 the definition actually read is not among supp\'s definitions', r,
                            'name %s: observed site %s, supp lists %s' % (x, site, ans), wit[(r, site)]))
    skipped = 0
    if prop == 'C03' and exh:
        for r, ans in sa.items():
            sc = rs[r]
            x = rname[r]
            if info[sc]['kind'] == 'class' or (x not in info[sc]['locals'] and info[sc]['kind'] != 'module') \
                    or x in info[sc]['decl'] or r not in seen:
                skipped += 1
                continue
            obs = seen[r]
            for a in ans:
                if a == 'undef':
                    if None not in obs:
                        out.append(("C03 'possibly undefined' listed but no execution reaches the read with the name unbound",
                                    r, 'name %s: supp %s, observed %s' % (x, ans, sorted(obs, key=str)), []))
                elif a not in obs:
                    out.append(('C03 phantom definition: listed by supp, reaches the read on no execution', r,
                                'name %s: site %s of %s, observed %s' % (x, a, ans, sorted(obs, key=str)), []))
            if None in obs and 'undef' not in ans:
                out.append(("C03 the read is reached with the name unbound but 'possibly undefined' is not listed", r,
                            'name %s: supp %s' % (x, ans), wit[(r, None)]))
    return out, len(runs), exh, seen, runs, skipped


def lint_checks(prop, prog, hints, src, bp, rp, sa, seen):
    """lint / assist / location on the real code, for the reads CPython saw succeed"""
    S = load_supp()
    out = []
    rs, ss, info, rname, sname, rctx, skind = scope_facts(prog)
    lint = supp_lint(src)
    pos_read = {p: r for r, p in rp.items()}
    pos_site = {}
    for d, p in bp.items():
        pos_site.setdefault(p, []).append(d)
    ok_reads = set(r for r, obs in seen.items() if any(s is not None for s in obs))
    if prop == 'C01':
        for code, line, col, msg in lint:
            if code in ('E02', 'E42') and (line, col) in pos_read and pos_read[(line, col)] in ok_reads:
                out.append(('C01 lint reports %s for a read that succeeds at run time' % code, pos_read[(line, col)], msg, []))
    if prop in ('C02', 'C03'):
        read_sites = set()
        for r, obs in seen.items():
            for s in obs:
                if s is not None and s != '?' and ss.get(s) == rs[r]:
                    read_sites.add(s)
        for code, line, col, msg in lint:
            if code in ('W01', 'W02'):
                for d in pos_site.get((line, col), []):
                    if d in read_sites and sname[d] == msg.split(': ')[-1]:
                        out.append(('C02 lint reports %s (unused) for a binding some execution reads' % code, d, msg, []))
    if prop == 'C03':
        # never-bound names get E02
        e02 = set((l, c) for code, l, c, m in lint if code == 'E02')
        for r, ans in sa.items():
            if ans == ['undef'] and rp[r] not in e02:
                out.append(('C03 a name unbound on every path is not reported as E02', r, rname[r], []))
    return out, lint


def assist_location_checks(prop, prog, hints, src, bp, rp, sa, seen, rng, budget):
    """assist() must offer the identifier of a read that succeeds (C01); location() must list the observed site (C02)"""
    S = load_supp()
    out = []
    n = 0
    rs, ss, info, rname, sname, rctx, skind = scope_facts(prog)
    lines = src.split('\n')
    fname = os.path.join(S['tmp'], 'x.py')
    cand = [r for r, obs in seen.items() if any(s is not None for s in obs)]
    rng.shuffle(cand)
    for r in cand[:budget]:
        line, col = rp[r]
        x = rname[r]
        if prop == 'C01':
            try:
                _, names = S['assist'](S['project'], src, (line, col + len(x)), fname)
            except RecursionError:
                # the interpreter's recursion limit on pathologically deep nests (assist / location walk the marked tree
                # recursively: RecursionError from about 62 nested blocks on) is a totality matter of the kind C08 lists as
                # C08-long-assignment-chain, not a statement about visibility; counted, not judged here
                S['deep_recursion_skipped'] = S.get('deep_recursion_skipped', 0) + 1
                continue
            except Exception as e:
                out.append(('C01 assist raised %s at a read' % type(e).__name__, r, x, []))
                continue
            n += 1
            if x not in names:
                out.append(('C01 completion at a read that succeeds does not offer the identifier', r,
                            '%s at %s' % (x, (line, col)), []))
        else:
            obs = [s for s in seen[r] if s is not None and s != '?' and ss.get(s) == rs[r] and x not in info[rs[r]]['decl']]
            if not obs:
                continue
            try:
                loc = S['location'](S['project'], src, (line, col + 1), fname)
            except Exception as e:
                continue    # robustness of location() is C08's subject
            n += 1
            if isinstance(loc, tuple):
                locs = [loc]
            else:
                locs = list(loc or [])
            got = set()
            for l in locs:
                try:
                    got.add(tuple(l[0]) if isinstance(l[0], (tuple, list)) else tuple(l[:2]))
                except Exception:
                    pass
            if len(sa.get(r, [])) == 1 and got and bp[obs[0]] not in got and skind.get(obs[0]) in ('bind',):
                out.append(('C02 go-to-definition from a read does not list the definition it reads', r,
                            '%s: observed site %s at %s, location() -> %s' % (x, obs[0], bp[obs[0]], sorted(got)), []))
    return out, n


def run_property(check, prop):
    quick = check.tier == 'quick'
    rng = check.rng
    for k in check.known:
        k['_matcher'] = lambda what, replay, k=k: known_matcher(k, what, replay)
    check.prove(extra_targets=('drv_den',))
    if prop == 'C02':
        audit_witness(check, 'SuppModel.Witness.C02', 'SuppModel.Witness.C02',
                      ['late_in_fragment', 'late_is_late', 'late_reach', 'late_not_listed', 'C02_sound_needs_late'])
    load_supp()
    n_prog = {'C01': (300, 2500), 'C02': (300, 2500), 'C03': (300, 2500)}[prop][0 if quick else 1]
    limit = 256 if quick else 4096
    progs = []
    for i in range(n_prog):
        for level in ('module', 'function'):
            prog, hints, stats = gen_program(rng, prop, level)
            progs.append((prog, hints, level, stats))
    # fixed probes (shapes the seeded changes and earlier findings are about)
    probes = probe_programs()
    progs += probes
    t_budget = (55 if quick else 420)
    import time
    t0 = time.time()
    models = model_answers([p[0] for p in progs])
    dis = {'module': 0, 'function': 0}
    n_reads = {'module': 0, 'function': 0}
    lint_dis = 0
    multi = 0
    constructs = {}
    frag_hits = {'inC02': 0, 'inC03': 0, 'inSem': 0, 'runWf': 0}
    no_late = 0
    late_reads = 0
    total_runs = 0
    exhaustive = 0
    n_assist = 0
    sem_cmp = sem_bad = 0
    skipped_c03 = 0
    oracle_programs = 0
    sem_jobs = []
    for idx, ((prog, hints, level, stats), (ma, rep)) in enumerate(zip(progs, models)):
        for k, v in stats.items():
            constructs[k] = constructs.get(k, 0) + v
        for k in frag_hits:
            frag_hits[k] += 1 if rep.get(k) else 0
        late_reads += rep.get('lateReads', 0)
        no_late += 1 if rep.get('lateReads', 0) == 0 else 0
        try:
            src, bp, rp, sa = analyse(prog, hints)
        except SyntaxError as e:
            check.oblige('renderer produced invalid Python', False, '%s\n%s' % (e, render(prog, hints)[0]))
            continue
        except RecursionError:
            continue
        # correspondence: supp's alternative set per read == Den's at_
        for r in rp:
            n_reads[level] += 1
            if len(sa[r]) > 1:
                multi += 1
            if sa[r] != ma.get(r):
                dis[level] += 1
                if dis[level] <= 2:
                    small = shrink(prog, lambda p: _corr_differs(p, hints), 60 if quick else 400)
                    s2, b2, r2, a2 = analyse(small, hints)
                    m2 = model_answers([small])[0][0]
                    bad = [q for q in r2 if a2[q] != m2.get(q)]
                    check.oblige('correspondence names_at per read (%s level)' % level, False,
                                 'read %s: supp %s, Den %s\n%s%s' % (bad[:1], [a2[q] for q in bad[:1]], [m2.get(q) for q in bad[:1]],
                                                                     s2, json.dumps(small)))
        # oracle (CPython), within the time budget
        if time.time() - t0 < t_budget or idx >= len(progs) - len(probes):
            viol, nruns, exh, seen, runs, sk = oracle(prop, prog, hints, sa, limit, rng)
            oracle_programs += 1
            skipped_c03 += sk
            total_runs += nruns
            exhaustive += 1 if exh else 0
            v2, lint = lint_checks(prop, prog, hints, src, bp, rp, sa, seen)
            viol += v2
            if prop in ('C01', 'C02') and idx % (3 if quick else 2) == 0:
                v3, na = assist_location_checks(prop, prog, hints, src, bp, rp, sa, seen, rng, 3)
                viol += v3
                n_assist += na
            for what, r, detail, decisions in viol[:3]:
                kind = what[:3]
                if len(check.failures) >= 8:
                    break
                try:
                    if len(check.failures) >= 2:
                        raise ValueError('no more shrinking')
                    small = shrink(prog, lambda p: any(w[0][:3] == kind for w in _violations(prop, p, hints, limit)),
                                   60 if quick else 200)
                    sv = [w for w in _violations(prop, small, hints, limit) if w[0][:3] == kind]
                    what, r, detail, decisions = sv[0]
                except Exception:
                    small = prog
                check.fail('%s (%s level): read/site %s, %s' % (what, level, r, detail),
                           {'program': small, 'hints': _hints_json(hints), 'source': render(small, hints)[0], 'read': r,
                            'decisions': [1 if b else 0 for b in decisions], 'level': level})
            # Sem = CPython: the model's executable semantics on the same decisions (single-scope programs)
            if rep.get('inSem') and rep.get('runWf') and level == 'module':
                isrc2 = render(prog, hints, True, False)[0]
                code = compile(isrc2, '<den>', 'exec')
                ds = []
                for used, trace, status in runs[:6]:
                    t2, u2, st2 = run_once(code, used)
                    ds.append((used, [[r, s] for r, s, dep in t2], st2))
                sem_jobs.append((prog, ds, hints))
    if prop == 'C01':
        # listed finding (DESIGN section 2): a walrus in a comprehension condition read by the element.  supp orders events
        # inside one region by POSITION, the element is textually before the condition.  Oracle only (Den is position-free).
        for level, prog in (('module', WALRUS_PROBE), ('function', ['seq', [['def', ['seq', []], ['bind', 'main', 990], [], WALRUS_PROBE]]])):
            try:
                for what, r, detail, decisions in _violations(prop, prog, {}, limit)[:1]:
                    check.fail('%s (%s level): read %s, %s' % (what, level, r, detail),
                               {'program': prog, 'hints': [], 'source': render(prog, {})[0], 'read': r,
                                'decisions': [1 if b else 0 for b in decisions], 'level': level})
            except Exception as e:
                check.oblige('walrus-in-comprehension probe', False, repr(e))
    for lvl in ('module', 'function'):
        if dis[lvl] == 0:
            check.oblige('correspondence names_at per read (%s level): supp alternatives = Den at_' % lvl, True)
    # Sem = CPython
    if sem_jobs:
        reps = model_answers([j[0] for j in sem_jobs], runs=[[d[0] for d in j[1]] for j in sem_jobs])
        for (prog, ds, hints), (ma, rep) in zip(sem_jobs, reps):
            for (used, trace, status), mr in zip(ds, rep['runs']):
                sem_cmp += 1
                mt = [[r, s] for r, s in mr['trace']]
                if mt != trace:
                    sem_bad += 1
                    if sem_bad <= 2:
                        check.oblige('Sem = CPython (run of the model vs instrumented execution)', False,
                                     'decisions %s: CPython %s, model %s\n%s' % ([int(b) for b in used], trace, mt,
                                                                                 render(prog, hints)[0]))
        if sem_bad == 0:
            check.oblige('Sem = CPython: trace of (read id, site) pairs of the model\'s run = instrumented CPython execution', True)
    check.cov['evaluations'] = sum(n_reads.values()) + total_runs
    check.cov['distinct_nontrivial'] = multi
    check.cov['rule'] = ('programs generated at Stmt level (depth <= 5, <= 40 statements, identifier pool a..f), rendered at module '
                         'level and inside a function; every read compared (supp names_at vs Den at_); CPython runs every '
                         'decision sequence (loops 0..2 trips) up to %d per program. non-trivial = reads with >= 2 '
                         'alternatives in supp\'s answer' % limit)
    check.extra.update({
        'programs': len(progs), 'reads_compared': n_reads, 'disagreements': dis, 'constructs_generated': constructs,
        'fragment_predicates_true_of': frag_hits, 'programs_without_late_read (lateRead = false for every read)': no_late,
        'late_reads_total': late_reads, 'cpython_runs': total_runs, 'programs_run_by_cpython': oracle_programs,
        'programs_exhaustively_explored': exhaustive, 'assist_or_location_queries': n_assist,
        'sem_vs_cpython_runs_compared': sem_cmp, 'sem_vs_cpython_disagreements': sem_bad,
        'c03_reads_outside_domain_skipped': skipped_c03,
        'constructs_outside_theorem_fragment': OUTSIDE_THEOREM, 'theorem_fragment': FRAGMENT_NOTE % prop,
        'stated_not_proved': STATED_NOT_PROVED.get(prop, []),
        'theorem_hypotheses': THEOREM_HYPOTHESES.get(prop, []),
    })
    for prog, hints, level, stats in progs[:3]:
        check.sample({'level': level, 'source': render(prog, hints)[0][:600]})
    check.assumptions += [
        'Python evaluation order of the rendered statements is the event order of Stmt (validated by the Sem = CPython stream)',
        'the executable `run` is proved sound w.r.t. Exec (run_sound, runProg_sound in Props/C02.lean) for runWf programs; '
        'the Sem = CPython stream compares exactly the inSem && runWf programs',
        'a failing read is recorded and execution goes on (as if wrapped in try/except NameError); inside comprehensions '
        'it aborts the comprehension as in real Python (C01/C02 runs)',
        'function bodies are called by the harness right after their definition and once more at the end of the module',
    ]
    check.trusted += ['harness/flowsem.py: generator, renderer (positions of binding targets and reads), instrumented runtime',
                      'Drv/Den.lean: JSON -> Stmt (right-nested seq, raise points at the ends of try bodies -> flags, '
                      "'global' declarations -> gbind)"]


PROBES = [
    # loop-carried read inside a branch
    ['seq', [['for', ['seq', []], [['bind', 'a', 901]], ['seq', [['if', ['seq', []], ['seq', [['read', 'b', 901]]], ['seq', []]],
                                                                   ['bind', 'b', 902]]], ['seq', []]]]],
    # while c: c = False
    ['seq', [['bind', 'c', 903], ['while', ['seq', [['read', 'c', 902]]], ['seq', [['bind', 'c', 904]]], ['seq', []]]]],
    # with-items
    ['seq', [['bind', 'a', 905], ['read', 'a', 903], ['bind', 'b', 906]]],
    # finally with a compound statement
    ['seq', [['try', ['seq', []], [], ['seq', []], ['seq', [['if', ['seq', []], ['seq', [['bind', 'a', 907]]], ['seq', [['bind', 'a', 908]]]]]]],
             ['read', 'a', 904]]],
    # walrus in a while test binding a name the body binds too; read in else: and after the loop
    ['seq', [['while', ['seq', [['bind', 'a', 911]]], ['seq', [['bind', 'a', 912]]], ['seq', [['read', 'a', 911]]]],
             ['read', 'a', 912]]],
    # a def with two decorators as FIRST statement of a for body / handler / function body; the first decorator reads the
    # for target / except name / parameter
    ['seq', [['for', ['seq', []], [['bind', 'a', 921]],
              ['seq', [['def', ['seq', [['read', 'a', 921], ['read', 'b', 922]]], ['bind', 'c', 922], [], ['seq', []]]]],
              ['seq', []]]]],
    ['seq', [['try', ['seq', [['mayraise', 931]]],
              [[['seq', []], ['bind', 'e', 931],
                ['seq', [['def', ['seq', [['read', 'e', 931], ['read', 'b', 932]]], ['bind', 'c', 932], [], ['seq', []]]]]]],
              ['seq', []], ['seq', []]]]],
    ['seq', [['def', ['seq', []], ['bind', 'd', 941], [['bind', 'a', 942]],
              ['seq', [['def', ['seq', [['read', 'a', 941], ['read', 'b', 942]]], ['bind', 'c', 943], [], ['seq', []]]]]]]],
]


# try/except/else where the else clause and every handler bind a name the try body does not bind, with and without a binding
# before the try; read after the statement (an exception-free path always continues through the else clause)
PROBES += [
    ['seq', [['bind', 'a', 931], ['try', ['seq', [['mayraise', 931], ['bind', 'b', 932], ['mayraise', 932]]],
                                   [[['seq', []], None, ['seq', [['bind', 'a', 933]]]]], ['seq', [['bind', 'a', 934]]], ['seq', []]],
             ['read', 'a', 931], ['read', 'b', 932]]],
    ['seq', [['try', ['seq', [['mayraise', 933], ['bind', 'b', 935], ['mayraise', 934]]],
              [[['seq', []], ['bind', 'c', 936], ['seq', [['bind', 'a', 937]]]], [['seq', []], None, ['seq', [['bind', 'a', 938]]]]],
              ['seq', [['bind', 'a', 939]]], ['seq', []]],
             ['read', 'a', 933]]],
]


def deep_probe(kind, n=18):
    """n nested regions; a name bound before, rebound half way down, read in the innermost region and after: the lookup chain of the
    innermost read is n tables long (a table folded or reordered past some length shows only here)"""
    inner = [['read', 'a', 951], ['read', 'b', 953]]
    for d in range(n, 0, -1):
        body = inner
        if d == n // 2:
            body = [['bind', 'a', 952]] + body
        if d == n - 2:
            body = [['bind', 'b', 954]] + body
        # (no deep `for` nests: supp itself needs 25 s for 14 nested for loops)
        if kind == 'if' or (kind == 'mixed' and d % 2 == 0):
            inner = [['if', ['seq', []], ['seq', body], ['seq', []]]]
        elif kind == 'for':
            inner = [['for', ['seq', []], [['bind', 'i', 960 + d]], ['seq', body], ['seq', []]]]
        else:
            inner = [['while', ['seq', []], ['seq', body], ['seq', []]]]
    return ['seq', [['bind', 'a', 951], ['bind', 'b', 953]] + inner + [['read', 'a', 952], ['read', 'b', 955]]]


def probe_programs():
    """every fixed probe at module level and wrapped in a function"""
    out = []
    for n, prog in enumerate(PROBES + [deep_probe('if', 26), deep_probe('if', 80), deep_probe('for', 5), deep_probe('while', 17), deep_probe('mixed', 30)]):
        out.append((prog, {}, 'module', {}))
        out.append((['seq', [['def', ['seq', []], ['bind', 'main', 990 + n], [], prog]]], {}, 'function', {}))
    return out


WALRUS_PROBE = ['seq', [['comp', [[['seq', [['read', 'a', 981]]], [['bind', 'b', 981]], ['seq', [['bind', 'c', 982]]]]],
                                ['seq', [['read', 'c', 982]]]]]]


def _hints_json(hints):
    return [[k if not isinstance(k, tuple) else list(k), v if not isinstance(v, tuple) else list(v)] for k, v in hints.items()
            if not isinstance(k, tuple)]


def _hints_from_json(l):
    return {k: (tuple(v) if isinstance(v, list) else v) for k, v in l}


def _corr_differs(prog, hints):
    src, bp, rp, sa = analyse(prog, hints)
    ma = model_answers([prog])[0][0]
    return any(sa[r] != ma.get(r) for r in rp)


def _violations(prop, prog, hints, limit):
    src, bp, rp, sa = analyse(prog, hints)
    viol, nruns, exh, seen, runs, sk = oracle(prop, prog, hints, sa, limit, None)
    v2, lint = lint_checks(prop, prog, hints, src, bp, rp, sa, seen)
    return viol + v2


def known_matcher(k, what, replay):
    cls = k.get('class')
    if cls == 'walrus-in-comprehension-condition-read-by-element':
        if isinstance(replay, dict) and replay.get('kind') == 'c01_exec':
            from . import c01_exec
            return 'read' in replay and c01_exec.walrus_in_comp_condition(replay['source'], replay['read'])
        if isinstance(replay, dict) and replay.get('kind') == 'c02_exec':
            from . import c01_exec
            if 'read' in replay:
                return c01_exec.walrus_in_comp_condition(replay['source'], replay['read'])
            # the 'unused' form: the only binding of the name is that walrus, and an element of its comprehension reads it
            return c01_exec.walrus_condition_binding_read_by_element(replay['source'], replay['name'])
        return has_walrus_in_comp(replay.get('program'))
    if cls == 'nonlocal-rebound-read':
        from . import c01_exec
        return isinstance(replay, dict) and replay.get('kind') == 'c01_exec' and 'read' in replay and \
            c01_exec.nonlocal_rebound_read(replay['source'], replay['read'])
    return False


def has_walrus_in_comp(prog):
    if not prog:
        return False
    for s in walk(prog):
        if s[0] == 'comp':
            for it, tg, ifs in s[1]:
                if any(x[0] == 'bind' for x in walk(ifs)):
                    return True
    return False


def replay_file(prop, path):
    import json as _json
    data = _json.load(open(path))
    bad = 0
    for f in data.get('failing_inputs', []):
        rp_ = f['replay']
        if isinstance(rp_, dict) and rp_.get('kind') == 'c02_exec':
            from . import c01_exec, flowgraph
            bad += 1 if c01_exec.replay_item_c02(flowgraph.load_supp(), rp_) else 0
            continue
        prog = rp_['program']
        hints = _hints_from_json(rp_.get('hints', []))
        v = _violations(prop, prog, hints, 4096)
        print('replay %s: %d violation(s)' % (f['what'][:80], len(v)))
        for w in v[:3]:
            print('  ', w[0], w[1], w[2])
        print(render(prog, hints)[0])
        bad += 1 if v else 0
        if not v and _corr_differs(prog, hints):
            print('  correspondence differs on this program')
            bad += 1
    print('VIOLATION property=%s replay=%s' % (prop, path) if bad else 'OK replay: no recorded input fails any more')
    return 1 if bad else 0
