"""C10 — Unused-name diagnostics follow the exemption rules exactly.

tie    : translator (the report loop of linter.lint -> Generated/Lint.lean, C10_rule re-proved on every run)
         + correspondence: `lintModel` (drv_lint) on the abstract module extracted from the real analysis
           vs the real `lint()` (code, message, line, col, in order)
search : the real `lint()` against a purely syntactic oracle ("identifier has no Load occurrence in the file"
         + the sentence of the property), on generated modules and on real files
"""
import ast
import io
import json
import os
import shutil
import sys
import sysconfig
import tempfile
import tokenize
from collections import Counter

from . import common
from .common import REPO

sys.path.insert(0, os.path.join(common.VERIF, 'translators'))
import tr_lint  # noqa: E402


# =============================================================================== syntactic oracle

class SynScope(object):
    def __init__(self, kind, owner_is_method=False, sid=0):
        self.kind = kind                    # module | class | function | lambda
        self.owner_is_method = owner_is_method
        self.globals = set()
        self.global_line = {}               # name -> line of its (first) `global` statement
        self.has_locals = False             # a Load of the identifier `locals` directly in this scope
        self.sid = sid


class SynBinding(object):
    def __init__(self, name, pos, construct, scope, future=False):
        self.name, self.pos, self.construct, self.scope, self.future = name, pos, construct, scope, future

    def as_dict(self):
        return {'name': self.name, 'pos': list(self.pos) if self.pos else None, 'construct': self.construct,
                'scope': self.scope.kind, 'owner_is_method': self.scope.owner_is_method, 'future': self.future,
                'global_declared': self.name in self.scope.globals and self.construct != 'comp-target',
                # CPython accepts `import x` *before* `global x` in one function (it refuses `x = 1` there)
                'global_declared_later': bool(self.pos and self.construct != 'comp-target' and
                                              self.scope.global_line.get(self.name, 0) > self.pos[0])}


def keyword_name_pos(lines, lineno, col, keyword):
    """position of the identifier that follows `keyword` (def / class) at or after (lineno, col) -- by tokens"""
    text = ''.join(l + '\n' for l in lines[lineno - 1:lineno + 60])
    seen = False
    try:
        for tok in tokenize.generate_tokens(io.StringIO(text).readline):
            if tok.type == tokenize.NAME:
                if seen:
                    return (tok.start[0] + lineno - 1, tok.start[1])
                if tok.string == keyword and (tok.start[0] > 1 or tok.start[1] >= col):
                    seen = True
    except (tokenize.TokenError, IndentationError, SyntaxError):
        pass
    return None


class Syntactic(ast.NodeVisitor):
    """bindings, read identifiers and scopes of a file from its syntax alone (no flow analysis):
    a comprehension is part of the scope it is written in; AugAssign counts as a read of its target"""

    def __init__(self, src):
        self.lines = src.splitlines()
        self.top = SynScope('module')
        self.stack = [self.top]
        self.nscopes = 1
        self.bindings = []
        self.loads = set()
        self.star_imports = 0
        self.in_comp_target = False

    @property
    def cur(self):
        return self.stack[-1]

    def bind(self, name, pos, construct, future=False):
        self.bindings.append(SynBinding(name, pos, construct, self.cur, future))

    def push(self, kind):
        s = SynScope(kind, self.cur.kind == 'class', self.nscopes)
        self.nscopes += 1
        self.stack.append(s)

    def args(self, a):
        for x in getattr(a, 'posonlyargs', []) + a.args + ([a.vararg] if a.vararg else []) + a.kwonlyargs + \
                ([a.kwarg] if a.kwarg else []):
            self.bind(x.arg, (x.lineno, x.col_offset), 'param')

    def outer_of_args(self, a):
        for d in a.defaults + [d for d in a.kw_defaults if d is not None]:
            self.visit(d)
        for x in getattr(a, 'posonlyargs', []) + a.args + ([a.vararg] if a.vararg else []) + a.kwonlyargs + \
                ([a.kwarg] if a.kwarg else []):
            if x.annotation is not None:
                self.visit(x.annotation)

    def visit_FunctionDef(self, node):
        for d in node.decorator_list:
            self.visit(d)
        self.outer_of_args(node.args)
        if node.returns is not None:
            self.visit(node.returns)
        kw = 'def'
        self.bind(node.name, keyword_name_pos(self.lines, node.lineno, node.col_offset, kw), 'def')
        self.push('function')
        self.args(node.args)
        for s in node.body:
            self.visit(s)
        self.stack.pop()

    visit_AsyncFunctionDef = visit_FunctionDef

    def visit_Lambda(self, node):
        self.outer_of_args(node.args)
        self.push('lambda')
        self.args(node.args)
        self.visit(node.body)
        self.stack.pop()

    def visit_ClassDef(self, node):
        for d in node.decorator_list + node.bases:
            self.visit(d)
        for k in node.keywords:
            self.visit(k.value)
        self.bind(node.name, keyword_name_pos(self.lines, node.lineno, node.col_offset, 'class'), 'class')
        self.push('class')
        for s in node.body:
            self.visit(s)
        self.stack.pop()

    def visit_Name(self, node):
        if isinstance(node.ctx, ast.Load):
            self.loads.add(node.id)
            if node.id == 'locals':
                self.cur.has_locals = True
        elif isinstance(node.ctx, ast.Store):
            self.bind(node.id, (node.lineno, node.col_offset), 'comp-target' if self.in_comp_target else 'target')

    def visit_comprehension(self, node):
        # the variable of a comprehension is local to the comprehension: a `global` / `nonlocal` declaration of the
        # scope the comprehension is written in does not apply to it (a walrus inside one binds outside, as usual)
        self.visit(node.iter)
        self.in_comp_target = True
        self.visit(node.target)
        self.in_comp_target = False
        for c in node.ifs:
            self.visit(c)

    def visit_AugAssign(self, node):
        if isinstance(node.target, ast.Name):
            self.loads.add(node.target.id)      # `x += 1` reads x
        else:
            self.visit(node.target)
        self.visit(node.value)

    def visit_AnnAssign(self, node):
        self.visit(node.annotation)
        if node.value is not None:
            self.visit(node.value)
            self.visit(node.target)
        elif not isinstance(node.target, ast.Name):
            self.visit(node.target)             # `x: int` alone binds nothing

    def visit_Global(self, node):
        self.cur.globals.update(node.names)
        for n in node.names:
            self.cur.global_line.setdefault(n, node.lineno)

    def visit_ExceptHandler(self, node):
        if node.name:
            self.bind(node.name, (node.lineno, node.col_offset), 'except')
        self.generic_visit(node)

    def alias_pos(self, a):
        if a.asname:
            return (a.end_lineno, a.end_col_offset - len(a.asname.encode('utf-8')))
        return (a.lineno, a.col_offset)

    def visit_Import(self, node):
        for a in node.names:
            self.bind(a.asname or a.name.partition('.')[0], self.alias_pos(a), 'import')

    def visit_ImportFrom(self, node):
        for a in node.names:
            if a.name == '*':
                self.star_imports += 1
            else:
                self.bind(a.asname or a.name, self.alias_pos(a), 'import',
                          future=(node.module == '__future__' and not node.level))

    # constructs supp's analysis does not turn into bindings (open finding `construct-not-analysed`)
    def visit_MatchAs(self, node):
        if node.name:
            self.bind(node.name, None, 'match-capture')
        self.generic_visit(node)

    def visit_MatchStar(self, node):
        if node.name:
            self.bind(node.name, None, 'match-capture')

    def visit_MatchMapping(self, node):
        if node.rest:
            self.bind(node.rest, None, 'match-capture')
        self.generic_visit(node)

    def visit_TypeAlias(self, node):
        if isinstance(node.name, ast.Name):
            self.bind(node.name.id, (node.name.lineno, node.name.col_offset), 'type-alias')
        self.visit(node.value)


def demand(b):
    """what the sentence of the property demands for a never-read binding, from syntax alone"""
    sc = b.scope
    under = b.name.startswith('_')
    if sc.kind in ('function', 'lambda'):
        if b.name in sc.globals and b.construct != 'comp-target':
            return None             # `global x` in a def: not a local of the function, not at module/class level
        if under:
            return None
        if b.construct == 'param' and sc.owner_is_method:
            return None
        return 'W01'
    if b.construct == 'import' and not under and not b.future:
        return 'W02'                # a star import has no identifier of its own; dotted use needs a read
    return None


MESSAGE = {'W01': 'Unused name: ', 'W02': 'Unused import: '}


def oracle_file(src, diags):
    """-> (judged, failures, stats): the W-entries of `diags` against the sentence, for the identifiers without any
    Load occurrence in `src`.  Failures are (what, binding-dict)."""
    tree = ast.parse(src)
    syn = Syntactic(src)
    syn.visit(tree)
    by_name = {}
    for b in syn.bindings:
        by_name.setdefault(b.name, []).append(b)
    w_by_name = {}
    failures = []
    for d in diags:
        if d[0] in MESSAGE or d[0].startswith('W'):
            pre = MESSAGE.get(d[0])
            if pre is None or not d[1].startswith(pre):
                failures.append(('W-entry whose wording does not go with its code', {'entry': list(d[:4])}))
                continue
            w_by_name.setdefault(d[1][len(pre):], []).append((d[0], d[2], d[3]))
    judged = 0
    combos = Counter()
    for name in sorted(set(by_name) | set(w_by_name)):
        if name in syn.loads:
            continue                # the property speaks about never-read identifiers only
        bs = by_name.get(name, [])
        actual = Counter(w_by_name.get(name, []))
        tolerated = set()
        expected = Counter()
        for b in bs:
            if b.scope.has_locals:
                if b.pos:
                    tolerated.add(b.pos)        # locals() reads every local of its scope: outside the property
                continue
            judged += 1
            dem = demand(b)
            combos[(b.construct, b.scope.kind, b.name.startswith('_'), b.scope.owner_is_method, b.future,
                    b.name in b.scope.globals and b.construct != 'comp-target', dem)] += 1
            if dem is None:
                continue
            if b.pos is None:       # no position from syntax: some entry with that code must exist
                if not any(a[0] == dem for a in actual):
                    failures.append(('never-read binding not reported', dict(b.as_dict(), demanded=dem)))
                continue
            expected[(dem, b.pos[0], b.pos[1])] += 1
        for e, n in sorted(expected.items()):
            got = actual.get(e, 0)
            b = next(b for b in bs if b.pos == (e[1], e[2]))
            if got == 0:
                failures.append(('never-read binding not reported', dict(b.as_dict(), demanded=e[0],
                                                                         entries_for_name=sorted(actual))))
            elif got > n:
                failures.append(('binding reported more than once', dict(b.as_dict(), demanded=e[0], times=got)))
        for a, n in sorted(actual.items()):
            if a in expected or (a[1], a[2]) in tolerated:
                continue
            if any(b.pos is None and demand(b) == a[0] for b in bs):
                continue
            failures.append(('W-entry the rule does not demand (identifier never read)',
                             {'name': name, 'entry': list(a), 'bindings': [b.as_dict() for b in bs]}))
    return judged, failures, {'combos': combos, 'star_imports': syn.star_imports,
                              'never_read_identifiers': sum(1 for n in by_name if n not in syn.loads)}


# =============================================================================== real analysis -> abstract module

def load_supp():
    for k in [k for k in sys.modules if k == 'supp' or k.startswith('supp.')]:
        del sys.modules[k]
    if REPO in sys.path:
        sys.path.remove(REPO)
    sys.path.insert(0, REPO)
    import logging
    logging.getLogger('supp').setLevel(logging.CRITICAL)
    logging.getLogger('supp.import').disabled = True
    import supp.linter  # noqa
    import supp.project  # noqa
    return sys.modules['supp']


def extract_module(S, project, src, filename, full_tables):
    """the parameters of the model, read off the real analysis exactly as lint() obtains them"""
    from supp.util import Source, get_name_usages, np
    from supp.nast import extract_scope
    from supp.name import MultiName, ImportedName, ArgumentName, AssignedName, RuntimeName, UndefinedName
    from supp.scope import SourceScope, ClassScope, FuncScope
    source = Source(src, filename)
    scope = extract_scope(source, project)
    ids, scopes = {}, {}

    def oid(o):
        return ids.setdefault(id(o), len(ids))

    def sid(s):
        return None if s is None else scopes.setdefault(id(s), len(scopes))

    keep = []       # keep the objects alive: ids are addresses
    names = []
    pairs = list(scope.all_names)
    for flow, n in pairs:
        keep.append(n)
        sc = flow.scope
        if isinstance(sc, SourceScope):
            sk = 'module'
        elif isinstance(sc, ClassScope):
            sk = 'class'
        elif isinstance(sc, FuncScope):
            sk = 'lambda' if type(sc.node) is ast.Lambda else 'function'
        else:
            raise ValueError('scope kind %r' % (sc,))
        d = {'id': oid(n), 'name': n.name, 'sk': sk, 'scope': sid(sc), 'pc': isinstance(sc.parent, ClassScope),
             'd': list(n.declared_at), 'loc': list(n.location)}
        if isinstance(n, ImportedName):
            d.update(kind='imported', module=n.module, star=bool(n.is_star), qualified=bool(n.qualified))
        elif isinstance(n, ArgumentName):
            d['kind'] = 'argument'
        elif isinstance(n, AssignedName):
            d['kind'] = 'assigned'
        elif isinstance(n, FuncScope):
            d['kind'] = 'funcdef'
        elif isinstance(n, ClassScope):
            d['kind'] = 'classdef'
        else:
            raise ValueError('name kind %r' % (n,))
        names.append(d)
    reads = []
    for node in get_name_usages(source.tree):
        loc = np(node)
        flow = getattr(node, 'flow', None)
        r = {'id': node.id, 'loc': list(loc), 'flow': None}
        if flow is not None:
            rows = []
            for k, v in flow.names_at(loc).items():
                if isinstance(v, MultiName):
                    keep.extend(v.alt_names)
                    rows.append([k, {'m': {'name': v.name, 'alts': [oid(a) for a in v.alt_names
                                                                    if not isinstance(a, (UndefinedName, RuntimeName))]}}])
                else:
                    runtime = isinstance(v, RuntimeName)
                    if runtime and k != node.id and not full_tables:
                        continue        # a RuntimeName has no `scope`: the locals branch skips it, the lookup needs key == id
                    keep.append(v)
                    rows.append([k, {'s': {'id': None if runtime else oid(v), 'name': v.name,
                                           'z': getattr(v, 'location', None) == (0, 0),
                                           'scope': sid(getattr(v, 'scope', None)),
                                           'q': type(v) is ImportedName and bool(v.qualified)}}])
            r['flow'] = {'scope': sid(flow.scope), 'table': rows}
        reads.append(r)
    return {'op': 'lint', 'names': names, 'reads': reads}


def real_lint(S, project, src, filename):
    try:
        return ('ok', [[t[0], t[1], t[2], t[3]] for t in S.linter.lint(project, src, filename)])
    except RecursionError:
        return ('skip', 'RecursionError')
    except Exception as e:  # noqa
        return ('err', type(e).__name__, str(e)[:200])


# =============================================================================== generators

def ind(lines, n=1):
    return ['    ' * n + l for l in lines]


STMT_BINDERS = {
    'assign': ['{n} = 1'],
    'annassign': ['{n}: int = 1'],
    'walrus': ['({n} := 1)'],
    'for': ['for {n} in []:', '    pass'],
    'fortuple': ['for {n}, q{n} in []:', '    print(q{n})'],
    'asyncless-with': ["with open('f') as {n}:", '    pass'],
    'withtuple': ["with open('f') as ({n}, q{n}):", '    print(q{n})'],
    'except': ['try:', '    pass', 'except Exception as {n}:', '    pass'],
    'listcomp': ['[0 for {n} in []]'],
    'genexp': ['list(0 for {n} in [])'],
    'dictcomp': ['{{0: 0 for {n} in []}}'],
    'nestedcomp': ['[[0 for {n} in []] for q{n} in [q{n} for q{n} in []]]'],
    'def': ['def {n}():', '    pass'],
    'asyncdef': ['async def {n}():', '    pass'],
    'decorated-def': ['@staticmethod', 'def {n}():', '    pass'],
    'class': ['class {n}:', '    pass'],
    'import': ['import {n}'],
    'import-list': ['import q{n}, {n}', 'print(q{n})'],
    'fromimport': ['from mod import {n}'],
    'from-relative': ['from . import {n}'],
    'fromas': ['from mod import thing as {n}'],
    'dotted': ['import {n}.sub'],
    'dotted3': ['import {n}.sub.subsub'],
    'dotalias': ['import pkg.sub as {n}'],
    'importas': ['import mod as {n}'],
    'tuple': ['{n}, q{n} = 1, 2', 'print(q{n})'],
    'starred': ['q{n}, *{n} = [1]', 'print(q{n})'],
    'chained': ['q{n} = {n} = 1', 'print(q{n})'],
    'if-else': ['if c0:', '    {n} = 1', 'else:', '    {n} = 2'],
    'if-import': ['if c0:', '    import {n}'],
    'while': ['while c0:', '    {n} = 1', '    break'],
    'try-finally': ['try:', '    {n} = 1', 'finally:', '    pass'],
    'try-import': ['try:', '    import {n}', 'except ImportError:', '    {n} = None'],
    'augonly': ['{n} = 1', '{n} += 1'],
    'delonly': ['{n} = 1', 'del {n}'],
}
FUNC_ONLY = {
    'global-assign': ['global {n}', '{n} = 1'],
    'global-import': ['global {n}', 'import {n}'],
}
MODULE_ONLY = {
    'star': ['from starmod import *'],
}
EXPR_BINDERS = {        # usable inside a lambda body
    'walrus': '({n} := 1)',
    'listcomp': '[0 for {n} in []]',
    'genexp': 'list(0 for {n} in [])',
}
PARAM_FORMS = ['posonly', 'plain', 'default', 'vararg', 'kwonly', 'kwonly-default', 'kwarg']


def params_src(forms_names):
    """forms_names: list of (form, name) -> parameter list text in a legal order"""
    order = {f: i for i, f in enumerate(PARAM_FORMS)}
    fn = sorted(forms_names, key=lambda p: order[p[0]])
    out = []
    posonly = [n for f, n in fn if f == 'posonly']
    out += posonly + (['/'] if posonly else [])
    out += [n for f, n in fn if f == 'plain']
    out += [n + '=1' for f, n in fn if f == 'default']
    var = [n for f, n in fn if f == 'vararg'][:1]
    kwo = [(f, n) for f, n in fn if f in ('kwonly', 'kwonly-default')]
    if var:
        out.append('*' + var[0])
    elif kwo:
        out.append('*')
    out += [n if f == 'kwonly' else n + '=2' for f, n in kwo]
    out += ['**' + n for f, n in fn if f == 'kwarg'][:1]
    return ', '.join(out)


SCOPE_WRAPPERS = {
    'module': lambda b: b,
    'class': lambda b: ['class C:'] + ind(b) + ['print(C)'],
    'function': lambda b: ['def F():'] + ind(b) + ['print(F)'],
    'nested': lambda b: ['def F():', '    def G():'] + ind(b, 2) + ['    return G', 'print(F)'],
    'method': lambda b: ['class C:', '    def M(self):'] + ind(b, 2) + ['print(C)'],
    'func-in-method': lambda b: ['class C:', '    def M(self):', '        def G():'] + ind(b, 3) + ['        return G'],
    'class-in-func': lambda b: ['def F():', '    class K:'] + ind(b, 2) + ['    return K'],
}


def matrix_modules():
    """every binder x every scope kind, unread and read; every parameter form x every owner"""
    out = []
    for sk, wrap in SCOPE_WRAPPERS.items():
        binders = dict(STMT_BINDERS)
        if sk in ('function', 'nested', 'method', 'func-in-method'):
            binders.update(FUNC_ONLY)
        if sk == 'module':
            binders.update(MODULE_ONLY)
        for bk, tpl in binders.items():
            for name in ('xx', '_xx'):
                for read in (False, True):
                    if bk == 'star' and (name == '_xx' or read):
                        continue
                    body = [l.format(n=name) for l in tpl] + (['print(%s)' % name] if read else ['pass'])
                    out.append(('matrix %s/%s' % (bk, sk), '\n'.join(['c0 = 0'] + wrap(body)) + '\n'))
    owners = {
        'function': lambda p, e: ['def F(%s):' % p, '    return %s' % e, 'print(F)'],
        'method': lambda p, e: ['class C:', '    def M(%s):' % p, '        return %s' % e, 'print(C)'],
        'async-method': lambda p, e: ['class C:', '    async def M(%s):' % p, '        return %s' % e],
        'nested-in-method': lambda p, e: ['class C:', '    def M(self):', '        def G(%s):' % p,
                                          '            return %s' % e, '        return G'],
        'lambda': lambda p, e: ['L = lambda %s: %s' % (p, e), 'print(L)'],
        'lambda-in-class': lambda p, e: ['class C:', '    L = lambda %s: %s' % (p, e)],
        'lambda-in-function': lambda p, e: ['def F():', '    return lambda %s: %s' % (p, e)],
        'lambda-in-method': lambda p, e: ['class C:', '    def M(self):', '        return lambda %s: %s' % (p, e)],
        'method-of-class-in-function': lambda p, e: ['def F():', '    class K:', '        def M(%s):' % p,
                                                     '            return %s' % e, '    return K'],
    }
    for ok, mk in owners.items():
        for form in PARAM_FORMS:
            for name in ('pp', '_pp'):
                for read in (False, True):
                    out.append(('matrix param %s/%s' % (form, ok),
                                '\n'.join(mk(params_src([(form, name)]), name if read else '0')) + '\n'))
        if ok.startswith('lambda'):
            for bk, tpl in EXPR_BINDERS.items():
                for name in ('ee', '_ee'):
                    out.append(('matrix %s/%s' % (bk, ok), '\n'.join(mk('', tpl.format(n=name))) + '\n'))
    return out


def dotted_family_modules():
    """a dotted import whose top-level name IS used (so it enters qualified_imports), next to never-read imports that
    merely come FROM that package / alias it / name it plainly: the exemption is about the bound identifier, not the
    module the name comes from, so these must still be reported (W02 at module / class level, W01 in a function)"""
    out = []
    uses = {
        'attribute': ['dpk.thing'],
        'call': ['dpk.thing()'],
        'in function': ['def user():', '    return dpk.sub.x', 'print(user)'],
    }
    others = {
        'from-package': ['from dpk import {n}'],
        'from-package-as': ['from dpk import thing as {n}'],
        'from-subpackage': ['from dpk.sub import {n}'],
        'alias-of-package': ['import dpk as {n}'],
        'alias-of-submodule': ['import dpk.sub as {n}'],
        'from-package-list': ['from dpk import q{n}, {n}', 'print(q{n})'],
        'other-dotted': ['import {n}.sub'],
        'plain-import-of-package': ['import dpk'],          # identifier read: correspondence only
        'second-dotted-of-package': ['import dpk.other'],   # exempt through its own name: correspondence only
    }
    places = {
        'module': lambda b: b,
        'class': lambda b: ['class C:'] + ind(b) + ['print(C)'],
        'function': lambda b: ['def F():'] + ind(b) + ['print(F)'],
        'method': lambda b: ['class C:', '    def M(self):'] + ind(b, 2) + ['print(C)'],
    }
    for uk, use in uses.items():
        for ok, tpl in others.items():
            for pk, place in places.items():
                for name in ('yy', '_yy'):
                    for before in (False, True):
                        other = place([l.format(n=name) for l in tpl] + ['pass'])
                        dotted = ['import dpk.sub']
                        body = (other + dotted + use) if before else (dotted + use + other)
                        out.append(('dotted family %s/%s/%s' % (ok, pk, uk), '\n'.join(body) + '\n'))
    # the dotted import itself inside a class / function, the others at module level
    for ok, tpl in others.items():
        for holder in (['class H:', '    import dpk.sub', '    dpk.thing'],
                       ['def h():', '    import dpk.sub', '    return dpk.thing', 'print(h)']):
            out.append(('dotted family %s/dotted import nested' % ok,
                        '\n'.join(holder + [l.format(n='yy') for l in tpl]) + '\n'))
    return out


FIXED = [
    ('future', 'from __future__ import annotations\nfrom __future__ import division as dv, generators\nimport os\n'),
    ('future in class is a syntax error, so only module', 'from __future__ import print_function\nclass C:\n    import os\n'),
    ('dotted used', 'import os.path\nos.getcwd()\n'),
    ('dotted used twice', 'import pa.b\nimport pa.c\npa.b\n'),
    ('dotted unused twice', 'import pa.b\nimport pa.c\n'),
    ('dotted used in function', 'import pa.b\ndef f():\n    import pa.c\n    return pa\nprint(f)\n'),
    ('dotted via multiname', 'c0 = 0\nimport pa.b\nif c0:\n    import pa.c\nelse:\n    import pa.d\npa.b\n'),
    ('dotted in class', 'class C:\n    import pa.b\n    import pa.c\n    pa.c\n'),
    ('locals call', 'def f(a, b):\n    x = 1\n    def g(q):\n        y = 2\n    return locals()\nprint(f)\n'),
    ('locals call, multiname local', 'def f(c):\n    if c:\n        x = 1\n    else:\n        x = 2\n    return locals()\nprint(f)\n'),
    ('locals in nested only', 'def f():\n    x = 1\n    def g():\n        y = 2\n        return locals()\n    return g\nprint(f)\n'),
    ('locals at module level', 'import os\nx = 1\nprint(locals())\n'),
    ('locals in class', 'class C:\n    import os\n    y = locals()\n'),
    ('locals rebound', 'def locals():\n    return {}\ndef f():\n    x = 1\n    return locals()\nprint(f)\n'),
    ('locals rebound as parameter', 'def f(locals):\n    x = 1\n    return locals()\nprint(f)\n'),
    ('locals in lambda', 'f = lambda a, b: locals()\nprint(f)\n'),
    ('locals in comprehension', 'def f():\n    x = 1\n    return [locals() for i in []]\nprint(f)\n'),
    ('global in function', 'def f():\n    global G, H\n    G = 1\n    import H\n    x = 1\nprint(f)\n'),
    ('comprehension variable named like a global of the function', 'def f():\n    global gv\n    gv = 1\n    return [0 for gv in []]\nprint(f)\n'),
    ('import before its global declaration (open finding)', 'def f():\n    import gl\n    global gl\n    gl = 1\nprint(f)\n'),
    ('global read at module', 'def f():\n    global G\n    G = 1\nprint(f, G)\n'),
    ('nonlocal', 'def f():\n    x = 0\n    def g():\n        nonlocal x\n        x = 1\n    return g\nprint(f)\n'),
    ('type parameter bound (E42)', 'def f[T: int]():\n    pass\nprint(f)\n'),
    ('undefined', 'def f():\n    return nothing_here\nprint(f)\n'),
    ('same name in two scopes, one read', 'def f():\n    x = 1\ndef g():\n    x = 2\n    return x\nprint(f, g)\n'),
    ('shadowed import', 'import os\ndef f():\n    os = 1\nprint(f)\n'),
    ('loop', 'def f(ys):\n    for x in ys:\n        if x:\n            z = 1\n        w = 2\n    else:\n        v = 3\nprint(f)\n'),
    ('class attribute style', 'class C:\n    a = 1\n    _b = 2\n    def m(self, x, _y):\n        t = x\n    @classmethod\n    def k(cls, u):\n        pass\n'),
    ('star import', 'from starmod import *\nimport os\n'),
    ('star import used', 'from starmod import *\nprint(sa)\n'),
    ('star import missing module', 'from nowhere_mod import *\nimport os\n'),
    ('except in method', 'class C:\n    def m(self):\n        try:\n            pass\n        except ValueError as e:\n            pass\n'),
    ('del', 'def f():\n    x = 1\n    del x\nprint(f)\n'),
    ('global at module level (open finding)', 'global gm\nimport gm\nclass C:\n    global gc\n    import gc\n'),
    ('match capture (open finding)', 'def f(v):\n    match v:\n        case [mc]:\n            pass\nprint(f)\n'),
]

CRASH_WITNESS = 'def g():\n    zz = 1\ndef f(c):\n    if c:\n        locals = 1\n    return locals()\n'


class RandomModule(object):
    """a module of several scopes; every binding gets a fresh identifier unless a name is reused on purpose"""

    def __init__(self, rng):
        self.rng = rng
        self.n = 0
        self.used_names = []

    def fresh(self):
        r = self.rng
        if self.used_names and r.random() < 0.12:
            return r.choice(self.used_names)
        self.n += 1
        nm = ('_' if r.random() < 0.15 else '') + 'v%d' % self.n
        self.used_names.append(nm)
        return nm

    def stmts(self, kind, depth):
        """body of a scope of `kind` (module | class | function)"""
        r = self.rng
        out = []
        for _ in range(r.randint(1, 5)):
            pool = list(STMT_BINDERS)
            if kind == 'function':
                pool += list(FUNC_ONLY)
            bk = r.choice(pool)
            tpl = STMT_BINDERS.get(bk) or FUNC_ONLY[bk]
            nm = self.fresh()
            if bk in FUNC_ONLY and any(nm == u for u in self.declared):
                continue
            if bk in FUNC_ONLY:
                self.declared.append(nm)
            out += [l.format(n=nm) for l in tpl]
            if r.random() < 0.35:
                out.append('print(%s)' % nm)
            if depth < 3 and r.random() < 0.3:
                out += self.unit(r.choice(['function', 'class', 'lambda']), depth + 1, kind)
        if kind == 'function' and r.random() < 0.08:
            out.append('print(locals())')
        return out or ['pass']

    def params(self, first=None):
        r = self.rng
        forms = [(f, self.fresh()) for f in PARAM_FORMS if r.random() < 0.3]
        names = [n for _, n in forms]
        forms = [(f, n) for i, (f, n) in enumerate(forms) if n not in names[:i]]
        src = params_src(forms)
        if first:
            src = first + (', ' + src if src else '')
        return src, [n for _, n in forms]

    def unit(self, what, depth, outer):
        r = self.rng
        self.n += 1
        k = self.n
        if what == 'function':
            saved, self.declared = getattr(self, 'declared', []), []
            p, names = self.params('self' if outer == 'class' and r.random() < 0.8 else None)
            body = self.stmts('function', depth)
            reads = ['print(%s)' % n for n in names if r.random() < 0.4]
            self.declared = saved
            head = ('async def' if r.random() < 0.1 else 'def') + ' f%d(%s):' % (k, p)
            return [head] + ind(reads + body) + (['print(f%d)' % k] if r.random() < 0.7 else [])
        if what == 'class':
            return ['class K%d:' % k] + ind(self.stmts('class', depth)) + (['print(K%d)' % k] if r.random() < 0.7 else [])
        # lambda
        p, names = self.params()
        parts = [n for n in names if r.random() < 0.4]
        for bk, tpl in EXPR_BINDERS.items():
            if r.random() < 0.3:
                parts.append(tpl.format(n=self.fresh()))
        return ['l%d = lambda %s: (%s)' % (k, p, ', '.join(parts + ['0']))] + (['print(l%d)' % k] if r.random() < 0.6 else [])

    def module(self):
        r = self.rng
        self.declared = []
        out = []
        if r.random() < 0.2:
            out.append('from __future__ import ' + r.choice(['annotations', 'division', 'division as fd']))
        out.append('c0 = 0')
        if r.random() < 0.1:
            out.append('from starmod import *')
        if r.random() < 0.2:
            nm = 'pk%d' % r.randint(1, 3)
            out += ['import %s.a' % nm, 'import %s.b' % nm] + (['%s.a' % nm] if r.random() < 0.6 else [])
            for tpl in ('from %s import {n}', 'import %s as {n}', 'from %s.a import {n}', 'import %s.b as {n}'):
                if r.random() < 0.3:
                    out.append((tpl % nm).format(n=self.fresh()))
        for _ in range(r.randint(1, 4)):
            what = r.choice(['stmts', 'function', 'class', 'lambda', 'function'])
            out += self.stmts('module', 1) if what == 'stmts' else self.unit(what, 1, 'module')
        return '\n'.join(out) + '\n'


def recurring_name_modules():
    """never-read imports whose bound identifier also occurs EARLIER in the same statement, as a component of the module path or
    as another alias: the report must carry the position of the binding occurrence, not of the look-alike"""
    stmts = ['from pkg.{n} import {n}', 'import pkg.{n} as {n}', 'from .{n} import {n}', 'from ..{n}.{n} import {n}',
             'from a.{n} import {n}, c', 'from {n}.x import y as {n}', 'import {n}.x as y, z as {n}', 'from a import {n}x, {n}',
             'from a import (x{n},\n    {n})', 'import a.{n}.b as {n}', 'from {n} import {n}', 'from a import b as {n}, {n} as c']
    places = {
        'module': lambda b: b,
        'class': lambda b: ['class C:'] + ind(b) + ['print(C)'],
        'function': lambda b: ['def F():'] + ind(b) + ['print(F)'],
    }
    out = []
    for k, tpl in enumerate(stmts):
        for n in ('mod', 'b'):
            for pk, place in places.items():
                body = tpl.replace('{n}', n).split('\n')
                if pk != 'module' and len(body) > 1:
                    continue
                out.append(('recurring name %d in %s (%s)' % (k, pk, n), '\n'.join(place(body)) + '\n'))
    return out


def valid(src):
    try:
        compile(src, '<gen>', 'exec', dont_inherit=True)
        return True
    except (SyntaxError, ValueError):
        return False


# =============================================================================== real files

SKIP_DIRS = {'test', 'tests', 'idlelib', 'tkinter', 'turtledemo', 'site-packages', 'lib2to3', '__pycache__',
             'ensurepip', 'pydoc_data', 'config-3.12-x86_64-linux-gnu'}


def real_files(rng, n_std):
    repo = []
    for base, dirs, files in os.walk(REPO):
        dirs[:] = sorted(d for d in dirs if not d.startswith('.') and d not in ('__pycache__', 'build', 'dist'))
        repo += [os.path.join(base, f) for f in sorted(files) if f.endswith('.py')]
    std = []
    root = sysconfig.get_paths()['stdlib']
    for base, dirs, files in os.walk(root):
        dirs[:] = sorted(d for d in dirs if d not in SKIP_DIRS)
        std += [os.path.join(base, f) for f in sorted(files) if f.endswith('.py')]
    std = [f for f in std if os.path.basename(f) not in ('antigravity.py', 'this.py', '__main__.py')]
    rng.shuffle(std)
    return repo, std[:n_std]


# =============================================================================== the check

CLASS_CONSTRUCT = 'construct-not-analysed'
CLASS_GLOBAL = 'global-declared-outside-function'
CLASS_IMPORT_BEFORE_GLOBAL = 'import-before-global-declaration'


def classify(what, replay):
    if what == 'never-read binding not reported' and (replay.get('binding') or {}).get('construct') in \
            ('match-capture', 'type-alias'):
        return CLASS_CONSTRUCT
    b = replay.get('binding') or {}
    if what == 'never-read binding not reported' and b.get('global_declared') and b.get('scope') in ('module', 'class') \
            and b.get('construct') == 'import' and not b.get('entries_for_name'):
        return CLASS_GLOBAL
    if what.startswith('W-entry the rule does not demand') and b.get('entry') and any(
            x.get('global_declared_later') and x.get('construct') == 'import' and x.get('pos') == b['entry'][1:]
            and x.get('scope') in ('function', 'lambda') for x in b.get('bindings', [])):
        return CLASS_IMPORT_BEFORE_GLOBAL
    return None


def run(check):
    quick = check.tier == 'quick'
    rng = check.rng
    for k in check.known:
        k['_matcher'] = (lambda cls: lambda what, replay: classify(what, replay) == cls)(k.get('class'))

    # 1. translate
    name = 'translator tr_lint (linter.py report loop -> Generated/Lint.lean)'
    try:
        check.extra['generated_changed'] = common.regen('SuppModel/Generated/Lint.lean', tr_lint.translate(REPO))
        check.oblige(name, True)
    except tr_lint.Untranslatable as e:
        check.oblige(name, False, 'source shape not recognised: %s' % e)
    except Exception as e:  # noqa
        check.oblige(name, False, repr(e))
    # 2. prove (C10_rule is a finite case analysis over the regenerated chain)
    check.prove(extra_targets=('drv_lint',))

    S = load_supp()
    tmp = tempfile.mkdtemp(prefix='c10-')
    try:
        _run(check, S, tmp, quick, rng)
    finally:
        shutil.rmtree(tmp, ignore_errors=True)


def _run(check, S, tmp, quick, rng):
    with open(os.path.join(tmp, 'starmod.py'), 'w') as f:
        f.write('sa = 1\nsb = 2\n_sc = 3\n')
    project = S.project.Project([tmp])
    fname = os.path.join(tmp, 'subject.py')

    # ---- 3. inputs
    mods = [('locals resolving to a MultiName (raised before f39595c)', CRASH_WITNESS)] + FIXED + matrix_modules() + \
        dotted_family_modules() + recurring_name_modules()
    bad = [m for m in mods if not valid(m[1])]
    check.oblige('fixed corpus and matrix are valid modules', not bad, '; '.join(repr(m) for m in bad[:3]))
    mods = [m for m in mods if valid(m[1])]
    rejected = 0
    for i in range(150 if quick else 2500):
        while True:     # a reused identifier can make a module invalid (global after use, duplicate parameter)
            src = RandomModule(rng).module()
            if valid(src):
                break
            rejected += 1
        mods.append(('random %d' % i, src))
    check.extra['random_modules_rejected_as_invalid'] = rejected

    # ---- 3a. correspondence: model on the extracted abstract module vs real lint
    reqs, impl = [], []
    extraction_errors = []
    subject_names = ['subject.py', 'conftest.py', '__main__.py', 'setup.py', 'test_subject.py', '__init__.py']
    for i, (label, src) in enumerate(mods):
        # the linted file is called differently from module to module (nothing may depend on its name)
        fname = os.path.join(tmp, subject_names[i % len(subject_names)])
        try:
            reqs.append(extract_module(S, project, src, fname, full_tables=(i % 40 == 0)))
        except Exception as e:  # noqa
            extraction_errors.append('%s: %r' % (label, e))
            reqs.append(None)
        impl.append(real_lint(S, project, src, fname))
    check.oblige('extraction of the abstract module from the real analysis', not extraction_errors,
                 '; '.join(extraction_errors[:3]))
    idx = [i for i, r in enumerate(reqs) if r is not None]
    replies = dict(zip(idx, common.ask_driver([reqs[i] for i in idx], exe='drv_lint')))
    dis_diag, dis_order, n_cmp = [], [], 0
    dis_spec, n_valid = [], [0]
    hyp = Counter()
    outcomes = Counter()
    never_read_model = 0
    for i, (label, src) in enumerate(mods):
        r = replies.get(i)
        if r is None:
            continue
        if 'driver_error' in r:
            dis_diag.append('%s: driver error %s' % (label, r['driver_error']))
            continue
        n_cmp += 1
        for h in ('wellKeyed', 'refsScoped', 'noDup'):
            hyp[h] += 1 if r[h] else 0
        never_read_model += sum(1 for x in r['neverRead'] if x)
        im = impl[i]
        mo = ('ok', r['ok']) if 'ok' in r else ('err', r['err'])
        outcomes[im[0] if im[0] != 'err' else im[1]] += 1
        if im[0] == 'skip':
            continue
        if im[:2] != mo[:2]:
            if im[0] == 'ok' and mo[0] == 'ok' and sorted(map(tuple, im[1])) == sorted(map(tuple, mo[1])):
                dis_order.append('%s: %r' % (label, src[:300]))
            else:
                dis_diag.append('%s: source %r impl %r model %r' % (label, src[:400], im[1:], mo[1:]))
        # the Lean `spec` (the sentence, Lint/Spec.lean) against the REAL lint on the bindings that satisfy the
        # hypotheses of C10_report_fields (NeverRead, Valid): exactly one own entry if demanded, none otherwise
        if im[0] == 'ok':
            real_w = Counter(tuple(d) for d in im[1] if d[0].startswith('W'))
            for b, nr, va, sp in zip(reqs[i]['names'], r['neverRead'], r['valid'], r['spec']):
                n_valid[0] += 1 if va else 0
                if not (nr and va):
                    continue
                own = [(c, MESSAGE[c] + b['name'], b['d'][0], b['d'][1]) for c in ('W01', 'W02')]
                got = [c for c, o in zip(('W01', 'W02'), own) if real_w.get(o, 0)]
                same_pos = sum(1 for b2 in reqs[i]['names'] if b2['name'] == b['name'] and b2['d'] == b['d'])
                if (got != ([sp] if sp else []) or (sp and real_w[own[('W01', 'W02').index(sp)]] > same_pos)):
                    dis_spec.append('%s: binding %r: Lean spec demands %r, lint gives %r; source %r'
                                    % (label, b, sp, got, src[:300]))
    check.oblige('correspondence diagnostics (lintModel = supp.linter.lint: code, message, line, col; or error class)',
                 not dis_diag, ' | '.join(dis_diag[:3]))
    check.oblige('correspondence report order (E-entries in read order, then W-entries in all_names order)',
                 not dis_order and not dis_diag, ' | '.join(dis_order[:3]))
    check.oblige('correspondence sentence (Lean `spec` on NeverRead, Valid bindings of all_names = W-entries of the real lint)',
                 not dis_spec, ' | '.join(dis_spec[:3]))
    check.extra['bindings_with_valid_facts'] = n_valid[0]
    for h, label in (('wellKeyed', 'TableWellKeyed'), ('refsScoped', 'RefsScoped'), ('noDup', 'NoDupIds')):
        check.oblige('assumption %s holds of every real table seen' % label, hyp[h] == n_cmp,
                     '%d of %d' % (hyp[h], n_cmp))

    # ---- 3b. the generated chain against the real loop body on explicit atoms is covered by 3a; ask the
    #          driver for the whole truth table once so that it is in the evidence
    table = common.ask_driver([{'op': 'decide', 'f': [bool(b >> k & 1) for k in range(9)]} for b in range(512)],
                              exe='drv_lint')
    check.extra['decision_table_reports'] = dict(Counter(json.dumps(t['ok']) for t in table))

    # ---- 4. oracle on the real code: generated modules
    judged = 0
    combos = Counter()
    never_ids = 0
    n_fail = 0
    nontrivial = set()
    for (label, src), im in zip(mods, impl):
        if im[0] == 'skip':
            continue
        if im[0] == 'err':
            check.fail('lint raised', {'source': src, 'exception': list(im[1:]), 'label': label})
            continue
        j, fails, st = oracle_file(src, im[1])
        judged += j
        combos.update(st['combos'])
        never_ids += st['never_read_identifiers']
        if st['never_read_identifiers']:
            nontrivial.add(src)
        for what, b in fails:
            n_fail += 1
            check.fail(what, {'source': src, 'binding': b, 'label': label})

    # ---- 5. oracle on real files
    repo_files, std_files = real_files(rng, 40 if quick else 400)
    real_stats = Counter()
    raised = []
    for path in repo_files + std_files:
        try:
            src = open(path, encoding='utf-8').read()
            ast.parse(src)
        except (OSError, SyntaxError, UnicodeDecodeError, ValueError):
            real_stats['unreadable'] += 1
            continue
        if 'import *' in src:
            real_stats['skipped: star import (resolving it would import arbitrary modules)'] += 1
            continue
        if len(src) > (120000 if quick else 400000):
            real_stats['skipped: size'] += 1
            continue
        if not src.isascii():
            real_stats['skipped: non-ASCII (byte vs character columns are C11 matter)'] += 1
            continue
        im = real_lint(S, project, src, path)
        if im[0] == 'skip':
            real_stats['skipped: RecursionError'] += 1
            continue
        if im[0] == 'err':
            real_stats['lint raised'] += 1
            raised.append('%s: %s' % (os.path.relpath(path, '/'), im[1]))
            check.fail('lint raised', {'file': path, 'exception': list(im[1:])})
            continue
        real_stats['files judged'] += 1
        j, fails, st = oracle_file(src, im[1])
        judged += j
        real_stats['bindings judged'] += j
        combos.update(st['combos'])
        if st['never_read_identifiers']:
            nontrivial.add(path)
        for what, b in fails:
            n_fail += 1
            check.fail(what, {'file': path, 'binding': b})

    # ---- coverage
    check.cov['evaluations'] = n_cmp + judged
    check.cov['distinct_nontrivial'] = len(nontrivial)
    check.cov['rule'] = ('modules: one fixed corpus (dotted imports used / unused, locals() in every scope kind, global, '
                         'nonlocal, __future__, star import), the dotted-import family (a dotted import used through its top-level name next '
                         'to never-read from-imports / aliases / plain imports of the same package, in 4 places), the full matrix of %d binding constructs x %d scope shapes x '
                         '{plain, underscore} x {never read, read} and of %d parameter forms x 9 owners (function, method, '
                         'lambda in class, ...), and random multi-scope modules (one PRNG from VERIF_SEED); real files: '
                         'every .py of the repo and a seeded sample of the stdlib. evaluations = modules compared with the '
                         'model + never-read bindings judged by the syntactic oracle; non-trivial = distinct module / file '
                         'with at least one identifier that has a binding and no Load occurrence'
                         % (len(STMT_BINDERS) + len(FUNC_ONLY) + len(MODULE_ONLY), len(SCOPE_WRAPPERS), len(PARAM_FORMS)))
    combo_keys = Counter()
    for (construct, sk, under, meth, fut, glob, dem), n in combos.items():
        combo_keys['%s/%s%s%s%s%s -> %s' % (construct, sk, '/underscore' if under else '', '/method' if meth else '',
                                            '/__future__' if fut else '', '/global' if glob else '', dem)] += n
    check.extra.update({
        'modules_compared_with_model': n_cmp, 'lint_outcomes_generated': dict(outcomes),
        'hypotheses_true_of': dict(hyp), 'never_read_bindings_in_model(NeverRead)': never_read_model,
        'never_read_bindings_judged_by_oracle': judged, 'never_read_identifiers_generated': never_ids,
        'oracle_failures_before_known_findings': n_fail,
        'distinct_combinations_judged': len(combo_keys), 'combinations': dict(sorted(combo_keys.items())),
        'real_files': dict(real_stats), 'real_files_on_which_lint_raised': raised[:20],
        'disagreements_diagnostics': len(dis_diag), 'disagreements_order': len(dis_order),
    })
    for label, src in [mods[0], mods[len(FIXED) + 7], mods[-1]]:
        check.sample({'label': label, 'source': src[:400]})
    check.assumptions += [
        'the abstract module (all_names with the facts of each Name object, reads in get_name_usages order, '
        'flow.names_at tables) is extracted from the real analysis by harness/c10.py::extract_module; RuntimeName rows '
        'whose key is not the read identifier are dropped from the tables (kept in every 40th module to validate that)',
        'TableWellKeyed, RefsScoped, NoDupIds are hypotheses of the theorems, evaluated by the driver on every real table',
        'every binding construct of the file yields an entry of scope.all_names: outside linter.py, exercised by the oracle '
        'only (false for match captures and `type` aliases: open finding construct-not-analysed)',
        'oracle conventions: a comprehension belongs to the scope it is written in; `x += 1` counts as a read of x; '
        'the position of an except-handler name is the position of its handler (ast gives no other); files with star '
        'imports, non-ASCII text or SyntaxError are not judged',
        'usage loop, use_name and the frame of lint() are checked shapes (the translator refuses a changed text); the '
        'hand-written usageStep transliterates exactly that text',
    ]
    check.trusted += ['translators/tr_lint.py (pattern recogniser for the report loop; refuses unknown shapes)',
                      'the syntactic oracle in harness/c10.py (written from the sentence of the property)']


# =============================================================================== replay

def replay(path):
    data = json.load(open(path))
    S = load_supp()
    tmp = tempfile.mkdtemp(prefix='c10-')
    still = 0
    try:
        with open(os.path.join(tmp, 'starmod.py'), 'w') as f:
            f.write('sa = 1\nsb = 2\n_sc = 3\n')
        project = S.project.Project([tmp])
        for item in data.get('failing_inputs', []):
            rp = item['replay']
            src = rp.get('source')
            fn = os.path.join(tmp, 'subject.py')
            if src is None:
                fn = rp['file']
                src = open(fn, encoding='utf-8').read()
            im = real_lint(S, project, src, fn)
            if im[0] != 'ok':
                print('STILL FAILING: lint raised %r on %s' % (im[1:], rp.get('label') or rp.get('file')))
                still += 1
                continue
            _, fails, _ = oracle_file(src, im[1])
            want = rp.get('binding')
            hit = [f for f in fails if want is None or f[1].get('name') == want.get('name')]
            known = {k.get('class') for k in common.load_known('C10') if k.get('status') == 'open'}
            cls = classify(hit[0][0], {'binding': hit[0][1]}) if hit else None
            if hit and cls in known:
                print('fails as recorded in KNOWN_FINDINGS (class %s): %s: %s' % (cls, hit[0][0], json.dumps(hit[0][1])[:300]))
            elif hit:
                still += 1
                print('STILL FAILING: %s: %s' % (hit[0][0], json.dumps(hit[0][1])[:400]))
                print('  lint W-entries: %r' % [d for d in im[1] if d[0].startswith('W')][:10])
            else:
                print('passes now: %s %s' % (item['what'], json.dumps(want)[:200]))
        for b in data.get('no_longer_checks', []):
            print('obligation that did not check: %s' % b[:300])
    finally:
        shutil.rmtree(tmp, ignore_errors=True)
    return 1 if still else 0
