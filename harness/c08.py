"""C08 — the API is total: every text and cursor position gets an answer.

theorems : Props/C08.lean — shape of lint/assist/location over their components (E01 iff the text does not parse,
           SyntaxError iff the marked text does not parse) and the totality theorems of the modelled components
           (lint report loop, attribute tables incl. cyclic hierarchies, memoised table evaluator)
tie      : outcome class of the real entry points versus the shape model's prediction from CPython's own parse result
search   : the statement itself is the oracle — lint returns a list with exactly one E01 (CPython's message and
           position) iff the text does not parse; assist/location return well-formed results and raise only
           SyntaxError, only when the cursor-marked text does not parse; a watchdog catches non-termination
"""
import ast
import glob
import json
import os
import shutil
import signal
import sysconfig

from . import common, flowgraph, pygen

KNOWN_CLASSES = {
    'C08-long-assignment-chain': 'RecursionError when a name is defined through a chain of several hundred single assignments '
                                 '(a1 = a0; a2 = a1; ...): the evaluator uses about three Python frames per link',
    'C08-deep-nesting': 'RecursionError from assist / location when the file nests more than about 60 blocks (the marked tree is '
                        'walked recursively, several Python frames per nesting level; lint still answers)',
}


class Timeout(Exception):
    pass


def _alarm(*a):
    raise Timeout()


def guarded(fn, seconds=10):
    signal.signal(signal.SIGALRM, _alarm)
    signal.alarm(seconds)
    try:
        return ('ok', fn())
    except SyntaxError as e:
        return ('SyntaxError', e)
    except Timeout:
        return ('timeout', None)
    except RecursionError as e:
        return ('RecursionError', e)
    except BaseException as e:  # noqa
        import traceback
        tb = traceback.extract_tb(e.__traceback__)
        where = '%s:%s' % (os.path.basename(tb[-1].filename), tb[-1].name) if tb else '?'
        return ('raised', '%s in %s: %s' % (type(e).__name__, where, str(e)[:120]))
    finally:
        signal.alarm(0)


def parses(text):
    try:
        ast.parse(text)
        return None
    except SyntaxError as e:
        return e
    except ValueError as e:
        return e
    except RecursionError:
        return 'deep'


def wellformed_assist(r):
    return isinstance(r, tuple) and len(r) == 2 and isinstance(r[0], str) and isinstance(r[1], list) and \
        all(isinstance(x, str) for x in r[1])


def wellformed_loc(r):
    def one(d):
        return isinstance(d, dict) and set(d) == {'loc', 'file'} and isinstance(d['loc'], tuple) and len(d['loc']) == 2 and \
            all(isinstance(x, int) for x in d['loc']) and (d['file'] is None or isinstance(d['file'], str))
    return isinstance(r, list) and all(one(x) or (isinstance(x, list) and x and all(one(y) for y in x)) for x in r)


def mutations(src, rng):
    """typing states of a file"""
    lines = src.split('\n')
    out = []
    if len(lines) > 3:
        i = rng.randrange(len(lines))
        c = rng.randrange(len(lines[i]) + 1)
        out.append(('truncate-line', '\n'.join(lines[:i] + [lines[i][:c]] + lines[i + 1:]), (i + 1, c)))
        out.append(('trailing-dot', '\n'.join(lines[:i] + [lines[i].rstrip() + '.'] + lines[i + 1:]), (i + 1, len(lines[i].rstrip()) + 1)))
        out.append(('delete-line', '\n'.join(lines[:i] + lines[i + 1:]), (max(1, i), 0)))
        out.append(('truncate-file', '\n'.join(lines[:i] + [lines[i][:c]]), (i + 1, c)))
    for kw in ('return 1', 'yield 2', 'break', 'continue'):
        j = rng.randrange(len(lines) + 1)
        out.append(('misplaced-' + kw.split()[0], '\n'.join(lines[:j] + [kw] + lines[j:]), (j + 1, len(kw))))
    return out


SPECIAL = [
    ('cyclic-assign', 'a = b\nb = a\na.\n', (3, 2)),
    ('cyclic-assign-loc', 'a = b\nb = a\na\n', (3, 1)),
    ('self-inherit', 'class A(A):\n    x = 1\nA().\n', (3, 4)),
    ('mutual-inherit', 'class A(B):\n    x = 1\nclass B(A):\n    y = 2\nB().\n', (5, 4)),
    ('recursive-func', 'def f():\n    return f()\nf().\n', (3, 4)),
    ('mutual-rec', 'def f():\n    return g()\ndef g():\n    return f()\ng().\n', (5, 4)),
    ('builtin', 'len\n', (1, 3)),
    ('builtin-attr', 'x = "s"\nx.upper\n', (2, 7)),
    ('builtin-call', 'x = dict()\nx.\n', (2, 2)),
    ('super', 'class A:\n    def f(self):\n        super().\n', (3, 16)),
    ('compiled', 'import datetime\ndatetime.timedelta\n', (2, 18)),
    ('compiled-dot', 'import math\nmath.\n', (2, 5)),
    ('unknown-module', 'import nonexistent_zq\nnonexistent_zq.\n', (2, 15)),
    ('unknown-from', 'from nonexistent_zq import \n', (1, 27)),
    ('unknown-from-name', 'from nonexistent_zq import na\n', (1, 29)),
    ('half-import', 'import o\n', (1, 8)),
    ('half-from', 'from os.pa\n', (1, 10)),
    ('relative-outside', 'from . import \n', (1, 14)),
    ('relative-above', 'from ... import x\nx\n', (2, 1)),
    ('star-above', 'from ... import *\nprint(q)\n', (2, 7)),
    ('import-cycle', 'from zq_cyc_a import x\nx\n', (2, 1)),
    ('import-cycle-dot', 'from zq_cyc_a import x\nx.\n', (2, 2)),
    ('star-cycle', 'from zq_star_a import *\nprint(q)\n', (2, 7)),
    ('inherit-cycle-modules', 'from zq_inh_a import A\nA().\n', (2, 4)),
    ('return-module', 'return 1\n', (1, 3)),
    ('return-class', 'class A:\n    return 1\n', (2, 8)),
    ('for-attr', 'class A:\n    def f(self, y):\n        for self.x in y:\n            pass\n        self.\n', (5, 13)),
    ('with-attr', 'with open(f) as self.x:\n    pass\n', (2, 4)),
    ('with-subscript', 'd = {}\nwith open(1) as d[0]:\n    pass\nd\n', (4, 1)),
    ('comp-attr', '[1 for a.b in c]\n', (1, 3)),
    ('for-starred', 'for *a, b in c: pass\na\n', (2, 1)),
    ('lambda-kwdefault', 'd = 1\nf = lambda *, k=d: k\nf\n', (3, 1)),
    ('class-keywords', 'class A(metaclass=M):\n    pass\nA\n', (3, 1)),
    ('locals-multi', 'def f(c):\n    if c:\n        locals = 1\n    return locals()\n', (4, 10)),
    ('nested-class-loop', 'for i in range(2):\n    class K:\n        k = i\nclass D(K):\n    d = 1\nD().\n', (6, 4)),
    # names whose spelling in the text is not the spelling the parser hands out (NFKC), non-ASCII text left of a binding on the same
    # line (ast columns are bytes), bindings far below the start of their statement: whatever locates a binding must cope
    ('nfkc-def', 'def \ufb01nd():\n    pass\n\ufb01nd\n', (3, 4)),
    ('nfkc-class', 'class \ufb01le:\n    pass\n\ufb01le().\n', (3, 7)),
    ('nfkc-import', 'import \ufb01le\n\ufb01le\n', (2, 4)),
    ('nfkc-from-as', 'from os import path as \ufb01le\n\ufb01le\n', (2, 4)),
    ('nonascii-left-import', 's = "\u00e9\u00e9\u00e9\u00e9\u00e9\u00e9"; import os\nos\n', (2, 2)),
    ('nonascii-left-def', 's = "\u4e2d\u4e2d\u4e2d"; \u00e9 = 1\nif s: \u00e9 = "\u00e9\u00e9\u00e9\u00e9"; import sys as y\ny\n', (3, 1)),
    ('nonascii-left-from', 'x = "\U0001f600\U0001f600\U0001f600\U0001f600"; from os import (path as p,\n  sep)\nsep\n', (3, 3)),
    ('import-list-60-lines', 'from os import (\n' + ''.join('    n%d,\n' % i for i in range(60)) + ')\nn59\n', (63, 3)),
    ('import-list-60-unused', 'def f():\n    from os import (\n' + ''.join('        n%d,\n' % i for i in range(60)) + '    )\n', (1, 0)),
    ('def-continuation', 'def \\\n\\\n   far_name():\n    pass\nfar_name\n', (5, 8)),
    ('deep-nest-70', 'c = 1\n' + ''.join(' ' * d + 'if c:\n' for d in range(70)) + ' ' * 70 + 'v = c\nv\n', (73, 1)),
    ('empty', '', (1, 0)),
    ('only-newlines', '\n\n\n', (2, 0)),
    ('cursor-below', 'x = 1\n', (7, 0)),
    ('cursor-right', 'x = 1\n', (1, 50)),
    ('cursor-zero', 'x = 1\n', (0, 0)),
    ('surrogate', 'x = "\udc80"\nx\n', (2, 1)),
    ('tabs', 'if 1:\n\tx = 1\n\tx\n', (3, 2)),
    ('null-byte', 'x = 1\x00\n', (1, 1)),
    ('form-feed', 'x = 1\n\x0c\nx\n', (3, 1)),
    ('crlf', 'x = 1\r\nx\r\n', (2, 1)),
    ('non-ascii', 'é = 1\né\n', (2, 1)),
    ('match', 'match x:\n    case [a, b]:\n        a\n', (3, 9)),
    ('type-alias', 'type X = int\nX\n', (2, 1)),
    ('except-star', 'try:\n    pass\nexcept* ValueError as e:\n    e\n', (4, 5)),
    ('async', 'async def f():\n    async with a as b:\n        await b\n    async for c in b:\n        c\n', (5, 9)),
    ('walrus-comp', '[y for x in z if (y := x)]\n', (1, 2)),
    ('global-nonlocal', 'def f():\n    x = 1\n    def g():\n        nonlocal x\n        global y\n        x = y = 2\n        return x\n    return g\n', (7, 16)),
    ('decorated', '@d\n@e(1)\nclass A:\n    @p\n    def f(self): pass\nA\n', (6, 1)),
    ('string-cursor', 'x = "abc"\n', (1, 7)),
    ('comment-cursor', 'x = 1 # abc\n', (1, 10)),
    ('in-call', 'f(a=\n', (1, 4)),
    ('chain-60', 'a0 = 1\n' + ''.join('a%d = a%d\n' % (i + 1, i) for i in range(60)) + 'a60.\n', (62, 4)),
]


def target_matrix():
    """every target form under every binder: valid Python the extractor must survive"""
    forms = ['a', 'o.a', 'o[0]', 'a, b', '(a, b)', '[a, b]', '*a, b', 'a, *b', '*(a, b), c', '*[a, b], c', '[a, *b], c',
             '(a, (b, c)), d', '[a, [b, *c]], d', 'o.a, o[0], e', '*o.a, b', '(a, o[b]), *c']
    out = []
    for k, t in enumerate(forms):
        progs = [
            ('assign', 'o = {}\n%s = o\nprint(o)\n' % t),
            ('for', 'o = {}\nfor %s in o:\n    print(o)\n' % t),
            ('with', 'o = {}\nwith o as %s:\n    print(o)\n' % (t if ',' not in t or t.startswith(('(', '[')) else '(' + t + ')')),
            ('comp', 'o = {}\nprint([o for %s in o])\n' % t),
            ('func-for', 'def f(o):\n    for %s in o:\n        pass\n    return o\n' % t),
        ]
        for b, src in progs:
            try:
                compile(src, '<m>', 'exec')
            except SyntaxError:
                continue
            lines = src.split('\n')
            out.append(('target-%s-%d' % (b, k), src, (len(lines) - 1, len(lines[-2]) - 1)))
    return out


PARAMS = ['', 'a', 'a, b=d', 'a, /', 'a, /, b', 'a=d, /, b=d', '*a', '*, k', '*, k=d', '*, k, l=d', '*, k=d, l', '*a, k', 'a, *, k',
          '**kw', 'a, *b, k, l=d, **kw', 'a, /, b, *, k, **kw', 'a, b=d, *c, k=d, l, **kw']


def param_matrix():
    """every parameter-list shape under def / async def / lambda / method, plain and annotated: defaults that are present, absent
    (None entries of kw_defaults) and mixed"""
    out = []
    for k, ps in enumerate(PARAMS):
        ann = ', '.join((q + ': int' if q.strip('*') and '=' not in q and q not in ('/', '*') else
                         q.replace('=', ': int = ') if '=' in q else q) for q in ps.split(', ')) if ps else ''
        progs = [
            ('def', 'd = 1\ndef f(%s):\n    return d\nf\n' % ps),
            ('def-ann', 'd = 1\ndef f(%s) -> int:\n    return d\nf\n' % ann),
            ('async', 'd = 1\nasync def f(%s):\n    return d\nf\n' % ps),
            ('lambda', 'd = 1\nf = lambda %s: d\nf\n' % ps),
            ('method', 'd = 1\nclass K:\n    def m(self%s):\n        return d\nK\n' % (', ' + ps if ps else '')),
            ('nested-lambda', 'd = 1\ndef g():\n    return lambda %s: d\ng\n' % ps),
        ]
        for b, src in progs:
            try:
                compile(src, '<m>', 'exec')
            except SyntaxError:
                continue
            lines = src.split('\n')
            out.append(('params-%s-%d' % (b, k), src, (len(lines) - 1, len(lines[-2]))))
    return out


def classify_failure(what, label):
    if 'RecursionError' in what and 'chain' in label:
        return 'C08-long-assignment-chain'
    if 'RecursionError' in what and 'deep-nest' in label:
        return 'C08-deep-nesting'
    return None


def run(check):
    quick = check.tier == 'quick'
    check.prove(extra_targets=('drv_flow',))
    check.prove_also('C08Flow')      # termination of the table evaluator on every ranked graph, with an explicit fuel bound
    check.prove_also('Extract')      # extract_total, extract_ranked, extract_C08: the extractor never fails and its graphs are ranked
    S = flowgraph.load_supp()
    lint, assist, location = S['linter'].lint, S['assistant'].assist, S['assistant'].location
    root = '/tmp/verif-c08-%d' % os.getpid()
    os.makedirs(root, exist_ok=True)
    files = {
        'zq_cyc_a.py': 'from zq_cyc_b import x\n', 'zq_cyc_b.py': 'from zq_cyc_a import x\n',
        'zq_star_a.py': 'from zq_star_b import *\n', 'zq_star_b.py': 'from zq_star_a import *\nq2 = 1\n',
        'zq_inh_a.py': 'from zq_inh_b import B\nclass A(B):\n    a = 1\n', 'zq_inh_b.py': 'from zq_inh_a import A\nclass B(A):\n    b = 2\n',
    }
    for k, v in files.items():
        open(os.path.join(root, k), 'w').write(v)
    fname = os.path.join(root, 'buffer.py')
    outcomes = {}
    shape_dis = 0
    n_eval = 0
    distinct = set()

    def note(kind, res):
        outcomes[kind + ':' + res] = outcomes.get(kind + ':' + res, 0) + 1

    def one(label, src, positions):
        nonlocal n_eval, shape_dis
        project = S['project'].Project([root])
        # ---- lint
        perr = parses(src)
        if perr == 'deep':
            return
        n_eval += 1
        distinct.add(src)
        st, r = guarded(lambda: lint(project, src, fname))
        note('lint', st)
        if st != 'ok':
            cls = classify_failure(st + ' ' + str(r), label)
            what = 'lint did not return a list of diagnostics: %s' % (r if st == 'raised' else st)
            if cls and any(k['id'] == cls for k in check.known):
                check.known_hits.setdefault(cls, KNOWN_CLASSES[cls])
            else:
                check.fail(what, {'label': label, 'source': src, 'outcome': st, 'detail': str(r)[:300]})
        else:
            ok_shape = isinstance(r, list) and all(isinstance(d, tuple) and len(d) == 5 and isinstance(d[0], str) for d in r)
            e01 = [d for d in r if d[0] == 'E01'] if ok_shape else []
            if not ok_shape:
                check.fail('lint result is not a list of 5-tuples', {'label': label, 'source': src, 'result': repr(r)[:300]})
            elif perr is None and e01:
                check.fail('lint reports E01 for a text that parses', {'label': label, 'source': src, 'result': repr(r)[:300]})
            elif perr is not None:
                want_msg = getattr(perr, 'msg', None) or str(perr)
                want = ('E01', want_msg, getattr(perr, 'lineno', None), getattr(perr, 'offset', None))
                if len(r) != 1 or tuple(r[0][:4]) != want:
                    check.fail('text does not parse but lint is not exactly one E01 with CPython\'s message and position',
                               {'label': label, 'source': src, 'result': repr(r)[:300], 'expected': repr(want)})
            # shape model: E01 iff parse fails (model prediction = the same sentence; recorded as correspondence)
            if ok_shape and (bool(e01) != (perr is not None)):
                shape_dis += 1
        # ---- cursor requests
        for pos in positions:
            marked = None
            try:
                marked = S['util'].Source(src, fname, pos).source
            except Exception:
                marked = None
            merr = parses(marked) if marked is not None else None
            if merr == 'deep':
                continue
            for kind, fn, wf in (('assist', assist, wellformed_assist), ('location', location, wellformed_loc)):
                n_eval += 1
                st, r = guarded(lambda: fn(project, src, pos, fname))
                note(kind, st)
                if st == 'ok':
                    if not wf(r):
                        check.fail('%s returned a malformed result' % kind, {'label': label, 'source': src, 'position': list(pos), 'result': repr(r)[:300]})
                    elif merr is not None and kind == 'location':
                        # `assist` answers import lines from the text alone, without parsing: only location must raise
                        shape_dis += 1
                        check.oblige('shape: location raises SyntaxError when the marked text does not parse', False,
                                     '%s %r at %s' % (label, src[:200], pos))
                elif st == 'SyntaxError':
                    if merr is None:
                        check.fail('%s raised SyntaxError although the cursor-marked text parses' % kind,
                                   {'label': label, 'source': src, 'position': list(pos)})
                else:
                    cls = classify_failure(st + ' ' + str(r), label)
                    if cls and any(k['id'] == cls for k in check.known):
                        check.known_hits.setdefault(cls, KNOWN_CLASSES[cls])
                    else:
                        check.fail('%s %s' % (kind, 'did not terminate within 10 s' if st == 'timeout' else 'raised %s' % (r if st == 'raised' else st)),
                                   {'label': label, 'source': src, 'position': list(pos), 'outcome': st, 'detail': str(r)[:300]})

    rng = check.rng
    # 1. special shapes
    for label, src, pos in SPECIAL + target_matrix() + param_matrix():
        one(label, src, [pos])
    one('chain-400', 'a0 = 1\n' + ''.join('a%d = a%d\n' % (i + 1, i) for i in range(400)) + 'a400.\n', [(402, 5)])
    # 2. files: every name end / after-dot position sampled, plus random positions
    flist = sorted(glob.glob(os.path.join(common.REPO, 'supp', '*.py')))
    std = sorted(glob.glob(os.path.join(sysconfig.get_paths()['stdlib'], '*.py')))
    rng.shuffle(std)
    flist = flist[:6] + std[:8] if quick else flist + std[:80]
    for fn in flist:
        try:
            src = open(fn, encoding='utf-8').read()
        except Exception:
            continue
        if len(src) > (40000 if quick else 200000):
            continue
        lines = src.split('\n')
        positions = []
        try:
            tree = ast.parse(src)
            names = [n for n in ast.walk(tree) if isinstance(n, (ast.Name, ast.Attribute)) and hasattr(n, 'end_col_offset')]
            rng.shuffle(names)
            for n in names[:(6 if quick else 40)]:
                positions.append((n.end_lineno, n.end_col_offset))
        except Exception:
            pass
        for _ in range(4 if quick else 25):
            i = rng.randrange(len(lines))
            positions.append((i + 1, rng.randrange(len(lines[i]) + 1)))
        one('file:' + os.path.basename(fn), src, positions)
        for mlabel, msrc, mpos in mutations(src, rng)[:(3 if quick else 8)]:
            one('file:%s:%s' % (os.path.basename(fn), mlabel), msrc, [mpos])
    # 3. generated programs and their typing states
    for i in range(60 if quick else 1500):
        g = pygen.Gen(rng, depth=rng.choice([2, 3, 4]))
        src = g.program()
        lines = src.split('\n')
        positions = []
        for _ in range(3):
            k = rng.randrange(len(lines))
            positions.append((k + 1, rng.randrange(len(lines[k]) + 1)))
        one('gen%d' % i, src, positions)
        for mlabel, msrc, mpos in mutations(src, rng)[:2]:
            one('gen%d:%s' % (i, mlabel), msrc, [mpos])
    # hypothesis of C08_eval_terminates on real graphs: acyclic once loop back edges are ignored
    reqs, labels = [], []
    gproject = S['project'].Project([root])
    gsources = [(l, s_) for l, s_, _p in SPECIAL[:30]]
    for i in range(40 if quick else 600):
        src = pygen.Gen(rng, depth=rng.choice([2, 3, 4]), loops=1.5).program()
        if pygen.valid(src):
            gsources.append(('gen-graph%d' % i, src))
    for fn in sorted(glob.glob(os.path.join(common.REPO, 'supp', '*.py'))):
        gsources.append(('file:' + os.path.basename(fn), open(fn).read()))
    for label, src in gsources:
        try:
            gv = flowgraph.analyse(S, src, fname, gproject)
        except Exception:
            continue
        reqs.append({'op': 'ranked', 'graph': gv.json})
        labels.append(label)
    reps = common.ask_driver(reqs, exe='drv_flow')
    unranked = [l for l, r in zip(labels, reps) if not r.get('ranked')]
    check.oblige('every real flow graph is ranked (hypothesis of C08_eval_terminates, evaluated by the driver)', not unranked, 'not ranked: %s' % unranked[:5])
    check.extra['ranked_graphs'] = {'graphs': len(reps), 'ranked': len(reps) - len(unranked),
                                    'max_rankFuel': max([r.get('rankFuel', 0) for r in reps] or [0])}
    check.oblige('shape correspondence: E01 iff CPython rejects the text; SyntaxError from location iff CPython rejects the marked text', shape_dis == 0,
                 '%d disagreements' % shape_dis)
    check.cov['evaluations'] = n_eval
    check.cov['distinct_nontrivial'] = len(distinct)
    check.cov['rule'] = ('%d hand-picked shapes (cycles of assignments / inheritance / imports, builtins, compiled and unknown modules, misplaced return, '
                         'attribute and subscript targets, cursors outside the text, unreadable text, new syntax), repo and stdlib files at sampled '
                         'name-end / random cursors with their typing-state mutations (line truncated at the cursor, trailing dot, deleted line, truncated '
                         'file, return/yield/break/continue moved anywhere), generated programs and their mutations; every call under a 10 s watchdog. '
                         'evaluations = API calls; non-trivial = distinct source texts') % len(SPECIAL)
    check.extra['outcomes'] = outcomes
    check.sample({'label': SPECIAL[0][0], 'source': SPECIAL[0][1], 'position': list(SPECIAL[0][2])})
    check.sample({'label': SPECIAL[20][0], 'source': SPECIAL[20][1], 'position': list(SPECIAL[20][2])})
    check.assumptions += ['CPython\'s parser, the interpreter recursion limit and memory are outside every model: expression nesting beyond the recursion '
                          'limit is excluded by the property; the API-level claim rests on this crash search, the theorems cover the shape of the entry '
                          'points and the totality of the modelled components']
    shutil.rmtree(root, ignore_errors=True)


def replay(path):
    data = json.load(open(path))
    S = flowgraph.load_supp()
    root = '/tmp/verif-c08-replay'
    os.makedirs(root, exist_ok=True)
    bad = 0
    for item in data.get('failing_inputs', []):
        r = item['replay']
        project = S['project'].Project([root])
        fname = os.path.join(root, 'buffer.py')
        if 'position' in r:
            pos = tuple(r['position'])
            for fn in (S['assistant'].assist, S['assistant'].location):
                st, res = guarded(lambda: fn(project, r['source'], pos, fname))
                print(fn.__name__, st, str(res)[:200])
                bad += st not in ('ok', 'SyntaxError')
        else:
            st, res = guarded(lambda: S['linter'].lint(project, r['source'], fname))
            print('lint', st, str(res)[:200])
            bad += st != 'ok'
    print('REPLAY: %d calls still fail' % bad)
    return 1 if bad else 0
