"""C03 — reaching-definitions core (family Den), see harness/flowsem.py.

tie    : correspondence supp names_at per read == Den at_ (lean/SuppModel/Den/Model.lean via drv_den), module and
         function level; executable Sem (run) == instrumented CPython trace
search : real supp vs real CPython on every decision sequence of generated programs
"""
from . import flowsem


def run(check):
    flowsem.run_property(check, 'C03')
    # names no statement binds (module pseudo-names, other scopes' locals): reads that fail on every execution must list nothing
    from . import c01_exec, flowgraph
    check.cov['evaluations'] = check.cov.get('evaluations', 0) + c01_exec.run_undefined(check, flowgraph.load_supp())


def replay(path):
    import json
    data = json.load(open(path))
    ex = [i for i in data.get('failing_inputs', []) if isinstance(i.get('replay'), dict) and i['replay'].get('kind') == 'c03_exec']
    bad = 0
    if ex:
        from . import c01_exec, flowgraph
        S = flowgraph.load_supp()
        for i in ex:
            r = i['replay']
            diags = S['linter'].lint(S['project'].Project(['/nonexistent-c03-exec']), r['source'], '/nonexistent-c03-exec/m.py')
            still = not any(d[0] == 'E02' and (d[2], d[3]) == tuple(r['read'][1:]) for d in diags)
            print('always-failing read %r: %s' % (r['read'], 'STILL not reported undefined' if still else 'reported now'))
            bad += still
    rest = flowsem.replay_file('C03', path) if len(ex) < len(data.get('failing_inputs', [])) or not ex else 0
    return 1 if bad or rest else 0
