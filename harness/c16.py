"""C16 — exactly one server under every interleaving; close and disconnect end it.

tie    : (1) the five methods of supp.remote.Environment must have the statement shape the Lean model
             `SuppModel.Startup` transliterates (located with `ast`; line numbers are derived, never assumed);
         (2) a controlled scheduler forces schedules on the REAL class (fake Thread / Lock / Popen / Client,
             thread switches at every `line` trace event of the five methods) and diffs, step by step, the set of
             runnable threads, the line each thread stands at, and the final outcome with the model;
         (3) `serverRun` vs the real `Server.run` on scripted connections.
search : the same scheduler without the model (default-first depth-first exploration + random walks) against the
         property itself, plus real-subprocess runs (close, disconnect, launch failure).
"""
import ast
import json
import os
import sys
import threading
import time

from . import common

FUNCS = ('prepare', 'run', '_threaded_run', '_call', 'close')

# --------------------------------------------------------------------------- source shape -> model pcs

TEMPLATE_CURRENT = '''
def _threaded_run(self):
    try:
        self._run()
    finally:
        self.prepare_thread = None

def prepare(self):
    with self.prepare_lock:
        if self.prepare_thread:
            return
        if hasattr(self, 'conn'):
            return
        self.prepare_thread = Thread(target=self._threaded_run)
        self.prepare_thread.start()

def run(self):
    with self.prepare_lock:
        thread = self.prepare_thread
        if thread:
            thread.join()
        if not hasattr(self, 'conn'):
            self._run()

def _call(self, name, *args, **kwargs):
    try:
        self.conn
    except AttributeError:
        self.run()
    self.conn.send_bytes(dumps((name, args, kwargs)))
    result, is_ok = loads(self.conn.recv_bytes())
    if is_ok:
        return result
    else:
        raise Exception(result[1])

def close(self):
    try:
        self.conn
    except AttributeError:
        pass
    else:
        self.conn.send_bytes(dumps(('close', (), {})))
        self.conn.close()
        del self.conn
'''

LEGACY_RUN = '''
def run(self):
    with self.prepare_lock:
        if self.prepare_thread:
            self.prepare_thread.join()
        if not hasattr(self, 'conn'):
            self._run()
'''

LEGACY_CLOSE = '''
def close(self):
    try:
        self.conn
    except AttributeError:
        pass
    else:
        self.conn.send_bytes(dumps(('close', (), {}), 2))
        self.conn.close()
        del self.conn
'''


class Shape(Exception):
    pass


def _strip_doc(body):
    if body and isinstance(body[0], ast.Expr) and isinstance(getattr(body[0], 'value', None), ast.Constant) \
            and isinstance(body[0].value.value, str):
        return body[1:]
    return body


def _funcs(src):
    out = {}
    for n in ast.parse(src).body:
        if isinstance(n, ast.FunctionDef):
            out[n.name] = n
    return out


def _dump(fn):
    return ast.dump(ast.Module(body=_strip_doc(fn.body), type_ignores=[])) + '|' + ast.dump(fn.args)


def analyse(repo):
    """-> dict(variant=…, pcs={(func, line, exiting): pc}, stmt={func: {line: statement id}}, withs={func: set(lines)},
              first={func: first line}, blockers={(func, line): [(kind, code)]})
    raises Shape when a method is not one of the shapes the model transliterates"""
    path = os.path.join(repo, 'supp', 'remote.py')
    tree = ast.parse(open(path).read())
    cls = [n for n in tree.body if isinstance(n, ast.ClassDef) and n.name == 'Environment']
    if not cls:
        raise Shape('class Environment not found')
    meths = {n.name: n for n in cls[0].body if isinstance(n, ast.FunctionDef)}
    for f in FUNCS + ('_run',):
        if f not in meths:
            raise Shape('method %s not found' % f)
    cur = _funcs(TEMPLATE_CURRENT)
    variant = 'current'
    problems = []
    for f in FUNCS:
        if _dump(meths[f]) == _dump(cur[f]):
            continue
        if f == 'run' and _dump(meths[f]) == _dump(_funcs(LEGACY_RUN)['run']) and variant == 'current':
            variant = 'legacyJoin'
            continue
        if f == 'close' and _dump(meths[f]) == _dump(_funcs(LEGACY_CLOSE)['close']) and variant == 'current':
            variant = 'legacyClose'
            continue
        problems.append(f)
    info = raw_info(meths)
    info['variant'] = variant
    info['path'] = path
    if problems:
        info['shape_error'] = 'statement shape of %s differs from the modelled source' % ', '.join(problems)
        return info
    pcs = {}

    def put(f, node, pc, exiting=False):
        pcs[(f, node.lineno, exiting)] = pc
    b = _strip_doc(meths['prepare'].body)
    w = b[0]
    put('prepare', w, 'pWith')
    put('prepare', w, 'pExit', True)
    put('prepare', w.body[0], 'pIfThread')
    put('prepare', w.body[0].body[0], 'pRet1')
    put('prepare', w.body[1], 'pIfConn')
    put('prepare', w.body[1].body[0], 'pRet2')
    put('prepare', w.body[2], 'pMk')
    put('prepare', w.body[3], 'pStart')
    w = _strip_doc(meths['run'].body)[0]
    put('run', w, 'rWith')
    put('run', w, 'rExit', True)
    k = 0
    if variant != 'legacyJoin':
        put('run', w.body[0], 'rRead')
        k = 1
    put('run', w.body[k], 'rIf')
    put('run', w.body[k].body[0], 'rJoin')
    put('run', w.body[k + 1], 'rIfConn')
    put('run', w.body[k + 1].body[0], 'rRun')
    t = _strip_doc(meths['_threaded_run'].body)[0]
    put('_threaded_run', t, 'tTry')
    put('_threaded_run', t.body[0], 'tRun')
    put('_threaded_run', t.finalbody[0], 'tClear')
    b = _strip_doc(meths['_call'].body)
    put('_call', b[0], 'cTry')
    put('_call', b[0].body[0], 'cConn')
    put('_call', b[0].handlers[0], 'cExcept')
    put('_call', b[0].handlers[0].body[0], 'cRun')
    put('_call', b[1], 'cSend')
    put('_call', b[2], 'cRecv')
    put('_call', b[3], 'cIf')
    put('_call', b[3].body[0], 'cRet')
    t = _strip_doc(meths['close'].body)[0]
    put('close', t, 'clTry')
    put('close', t.body[0], 'clConn')
    put('close', t.handlers[0], 'clExcept')
    put('close', t.handlers[0].body[0], 'clPass')
    put('close', t.orelse[0], 'clSend')
    put('close', t.orelse[1], 'clClose')
    put('close', t.orelse[2], 'clDel')
    info['pcs'] = pcs
    return info


def raw_info(meths):
    """shape-independent facts the scheduler needs: statement of each line, `with` lines, blocking calls"""
    stmt, withs, blockers = {}, {}, {}
    for f in FUNCS:
        if f not in meths:
            continue
        stmt[f], withs[f] = {}, {}
        for node in ast.walk(meths[f]):
            if isinstance(node, ast.ExceptHandler):
                stmt[f][node.lineno] = node.lineno
            if not isinstance(node, ast.stmt) or node is meths[f]:
                continue
            sub = [c for c in ast.iter_child_nodes(node) if isinstance(c, (ast.stmt, ast.ExceptHandler))]
            for fld in ('body', 'orelse', 'finalbody', 'handlers'):
                sub += [c for c in getattr(node, fld, []) if isinstance(c, (ast.stmt, ast.ExceptHandler))]
            last = min([c.lineno for c in sub] + [node.end_lineno + 1]) - 1
            for ln in range(node.lineno, max(last, node.lineno) + 1):
                stmt[f].setdefault(ln, node.lineno)
            heads = []
            if isinstance(node, ast.With):
                withs[f][node.lineno] = compile(ast.Expression(node.items[0].context_expr), '<with>', 'eval')
                exprs = []
            elif isinstance(node, (ast.If, ast.While)):
                exprs = [node.test]
            elif isinstance(node, (ast.Try, ast.For, ast.FunctionDef, ast.ClassDef)):
                exprs = []
            else:
                exprs = [node]
            for e in exprs:
                for c in ast.walk(e):
                    if isinstance(c, ast.Call) and isinstance(c.func, ast.Attribute) and c.func.attr in ('join', 'recv_bytes', 'acquire'):
                        heads.append((c.func.attr, compile(ast.Expression(c.func.value), '<recv>', 'eval')))
            if heads:
                blockers[(f, node.lineno)] = heads
    return {'stmt': stmt, 'withs': withs, 'blockers': blockers}


# --------------------------------------------------------------------------- the controlled world

def new_sem():
    """binary semaphore, initially taken (a raw lock: much cheaper than threading.Semaphore)"""
    l = threading.Lock()
    l.acquire()
    return l


class Abort(BaseException):
    pass


class SchedulerBug(Exception):
    pass


class LThread(object):
    def __init__(self, world, tid, kind):
        self.world, self.tid, self.kind = world, tid, kind
        self.sem = new_sem()
        self.finished = False
        self.result = None
        self.label = None
        self.blocker = None
        self.answered = 0
        self.real = None


class FakeLock(object):
    def __init__(self):
        self.owner = None

    def acquire(self, blocking=True, timeout=-1):
        w = WORLD[0]
        if self.owner is not None:
            raise SchedulerBug('lock acquired while held')
        self.owner = w.current.tid
        return True

    def release(self):
        self.owner = None

    def locked(self):
        return self.owner is not None

    def __enter__(self):
        self.acquire()

    def __exit__(self, *a):
        self.release()


class FakeThread(object):
    def __init__(self, group=None, target=None, name=None, args=(), kwargs=None, daemon=None):
        self.target, self.args, self.kwargs = target, args, kwargs or {}
        self.lt = None
        self.daemon = daemon

    def start(self):
        if self.lt is not None:
            raise RuntimeError('threads can only be started once')
        self.lt = WORLD[0].spawn_starter(self)

    def join(self, timeout=None):
        if self.lt is None:
            raise RuntimeError('cannot join thread before it is started')
        if not self.lt.finished:
            raise SchedulerBug('join on a running thread was scheduled')

    def is_alive(self):
        return self.lt is not None and not self.lt.finished


class FakeServer(object):
    def __init__(self, world):
        self.alive = True
        self.world = world


class FakePopen(object):
    def __init__(self, args, **kw):
        w = WORLD[0]
        w.popen += 1
        self.args = args
        self.server = FakeServer(w)
        w.servers.append(self.server)
        w.last_server = self.server


class FakeConn(object):
    def __init__(self, world, server):
        self.world, self.server = world, server
        self.closed = False
        self.replies = []

    def send_bytes(self, b):
        if self.closed:
            raise OSError('handle is closed')
        if not self.server.alive:
            raise BrokenPipeError('server gone')
        msg = self.world.R.loads(b)
        self.world.sent.append(msg[0])
        if msg[0] == 'close':
            self.server.alive = False
            self.world.close_msgs += 1
        else:
            self.replies.append(self.world.R.dumps((['pong', msg[0], list(msg[1])], True)))

    def recv_bytes(self):
        if self.closed:
            raise OSError('handle is closed')
        if self.replies:
            return self.replies.pop(0)
        if not self.server.alive:
            raise EOFError()
        raise SchedulerBug('recv on an empty live connection was scheduled')

    def poll(self, timeout=0):
        return bool(self.replies) or not self.server.alive

    def close(self):
        self.closed = True
        self.server.alive = False     # the server reads EOF and leaves its loop


def fake_client(addr, *a, **kw):
    w = WORLD[0]
    if w.lf is True or (w.lf == 'once' and w.servers and w.last_server is w.servers[0]):
        raise ConnectionRefusedError('no listener')    # 'once': only the FIRST process launched never listens
    return FakeConn(w, w.last_server)


class FakeTime(object):
    """the 5 s launch time-out of _run elapses at once"""
    def __init__(self):
        self.now = 0.0

    def time(self):
        self.now += 10.0
        return self.now

    def sleep(self, s):
        pass


WORLD = [None]


class World(object):
    """one run of a workload on a fresh real Environment under a given scheduling policy"""

    def __init__(self, ctx, workload, lf=False):
        self.ctx, self.R, self.info = ctx, ctx.R, ctx.info
        self.workload, self.lf = workload, lf
        self.popen = 0
        self.close_msgs = 0
        self.servers = []
        self.last_server = None
        self.sent = []
        self.threads = []
        self.current = None
        self.main = new_sem()
        self.abort = False
        self.max_live = 0
        self.swapped = 0
        self.bounded = 0
        self.bounded_bad = []
        self.codes = ctx.codes

    # ---- tracing
    def glob_trace(self, lt, frame, event, arg):
        f = self.codes.get(frame.f_code)
        if f is None:
            return None
        state = {'last': None, 'entered': set()}
        stmt = self.info['stmt'].get(f, {})
        withs = self.info['withs'].get(f, {})

        def local(frame, event, arg):
            if event != 'line':
                return local
            ln = frame.f_lineno
            sid = stmt.get(ln, ln)
            exiting = sid in withs and sid in state['entered']
            if sid == state['last'] and not exiting:
                return local
            state['last'] = sid
            lt.label = (f, sid, exiting)
            lt.blocker = self.make_blocker(f, sid, exiting, frame, lt)
            self.pause(lt)
            if sid in withs and not exiting:
                state['entered'].add(sid)
            elif exiting:
                state['entered'].discard(sid)
                state['last'] = None
            return local
        return local

    def make_blocker(self, f, sid, exiting, frame, lt):
        withs = self.info['withs'].get(f, {})
        heads = self.info['blockers'].get((f, sid))
        if sid in withs and not exiting:
            code = withs[sid]

            def b():
                try:
                    lock = eval(code, frame.f_globals, frame.f_locals)
                except Exception:
                    return False
                return isinstance(lock, FakeLock) and lock.owner is not None
            return b
        if heads:
            def b():
                for kind, code in heads:
                    try:
                        o = eval(code, frame.f_globals, frame.f_locals)
                    except Exception:
                        return False      # evaluating the receiver raises: the line runs (and raises)
                    if kind == 'join' and isinstance(o, FakeThread) and o.lt is not None and not o.lt.finished:
                        return True
                    if kind == 'acquire' and isinstance(o, FakeLock) and o.owner is not None:
                        return True
                    if kind == 'recv_bytes' and isinstance(o, FakeConn) and not o.closed and not o.replies and o.server.alive:
                        return True
                return False
            return b
        return None

    # ---- hand-over
    def decide(self):
        """one scheduling decision, taken by whichever real thread has just stopped; -> LThread to run or None (end)"""
        live = 0
        for sv in self.servers:
            if sv.alive:
                live += 1
        if live > self.max_live:
            self.max_live = live
        k = len(self.trace)
        if self.bug or k > 2000:
            return None
        enabled = [lt.tid for lt in self.threads if not lt.finished and not (lt.blocker and lt.blocker())]
        if not enabled:
            return None
        t = self.choose(k, enabled, self)
        if t not in enabled:
            self.trace.append((enabled, t, 'NOT-ENABLED'))
            return None
        lt = self.threads[t]
        self.trace.append((enabled, t, lt.label))
        self.current = lt
        return lt

    def pause(self, lt):
        if lt.fresh:                       # first line of a new thread: hand back to whoever created it
            lt.fresh = False
            lt.parent.release()
        else:
            nxt = self.decide()
            if nxt is lt:
                return
            if nxt is None:
                self.main.release()
            else:
                nxt.sem.release()
        lt.sem.acquire()
        if self.abort:
            raise Abort()
        self.current = lt

    def body(self, lt, fn):
        lt.sem.acquire()
        if self.abort:
            lt.finished = True
            return
        self.current = lt
        sys.settrace(lambda fr, ev, arg: self.glob_trace(lt, fr, ev, arg))
        try:
            fn(lt)
            lt.result = 'returned'
        except Abort:
            lt.result = 'aborted'
        except SchedulerBug as e:
            lt.result = 'BUG ' + str(e)
            self.bug = str(e)
        except BaseException as e:  # noqa
            lt.result = 'raised ' + type(e).__name__
            lt.exc = repr(e)[:200]
        finally:
            sys.settrace(None)
            lt.finished = True
            lt.label = None
            lt.blocker = None
            if not self.abort:
                if lt.fresh:               # finished before reaching any traced line
                    lt.fresh = False
                    lt.parent.release()
                else:
                    nxt = self.decide()
                    if nxt is None:
                        self.main.release()
                    else:
                        nxt.sem.release()

    def new_thread(self, kind, fn):
        lt = LThread(self, len(self.threads), kind)
        lt.fresh = True
        lt.parent = None
        lt.fresh = True
        lt.parent = None
        self.threads.append(lt)
        lt.real = threading.Thread(target=self.body, args=(lt, fn), daemon=True)
        lt.real.start()
        return lt

    def run_to_first_pause(self, lt):
        """let a new thread run up to its first line event (it stands AT that line afterwards)"""
        saved_cur = self.current
        lt.parent = new_sem()
        lt.sem.release()
        lt.parent.acquire()
        self.current = saved_cur

    def spawn_starter(self, fthread):
        def fn(lt):
            fthread.target(*fthread.args, **fthread.kwargs)
        lt = self.new_thread('starter', fn)
        self.run_to_first_pause(lt)
        return lt

    def worker_fn(self, ops):
        env = self.env

        def fn(lt):
            for op in ops:
                if op == 'prepare':
                    env.prepare()
                elif op == 'close':
                    env.close()
                else:
                    r = env.eval('t%d' % lt.tid)
                    if isinstance(r, list) and len(r) == 3 and r[0] == 'pong' and r[1] == 'eval':
                        lt.answered += 1
                        if r[2] != ['t%d' % lt.tid]:
                            self.swapped += 1
                    else:
                        lt.wrong = repr(r)[:100]
        return fn

    # ---- driving
    def run(self, choose):
        """choose(step_index, enabled_tids, world) -> tid.  Returns the trace: list of (enabled, tid, label)"""
        self.bug = None
        WORLD[0] = self
        self.trace = trace = []
        self.choose = choose
        self.ctx.patch()
        try:
            self.env = self.R.Environment()
            for ops in self.workload:
                lt = self.new_thread('worker', self.worker_fn(ops))
                self.run_to_first_pause(lt)
            nxt = self.decide()
            if nxt is not None:
                nxt.sem.release()
                self.main.acquire()
        finally:
            self.stuck = [lt.tid for lt in self.threads if not lt.finished]
            if self.stuck:
                self.abort = True
                for lt in self.threads:
                    if not lt.finished:
                        lt.sem.release()
                for lt in self.threads:
                    lt.real.join(2)
            self.ctx.unpatch()
            WORLD[0] = None
        return trace

    def summary(self):
        env = self.env
        conn = env.__dict__.get('conn')
        return {
            'popen': self.popen,
            'conn': conn is not None,
            'closed': bool(conn is not None and getattr(conn, 'closed', False)),
            'live': bool(self.last_server is not None and self.last_server.alive),
            'closeMsgs': self.close_msgs,
            'lock': getattr(env.prepare_lock, 'owner', None),
            'pthread': env.prepare_thread is not None,
            'threads': [{'out': ('running' if not lt.finished or lt.result == 'aborted' else lt.result), 'answered': lt.answered}
                        for lt in self.threads],
        }


class Ctx(object):
    """the real module with Thread / Lock / Popen / Client / time replaced"""

    def __init__(self, repo):
        for k in [k for k in sys.modules if k == 'supp' or k.startswith('supp.')]:
            del sys.modules[k]
        if repo in sys.path:
            sys.path.remove(repo)
        sys.path.insert(0, repo)
        import supp.remote as R
        self.R = R
        self.info = analyse(repo)
        self.codes = {}
        for f in FUNCS:
            fn = R.Environment.__dict__.get(f)
            if fn is not None and hasattr(fn, '__code__'):
                self.codes[fn.__code__] = f

    def __enter__(self):
        return self

    def __exit__(self, *a):
        pass

    def patch(self):
        import subprocess
        import multiprocessing.connection as mc
        R = self.R
        import types
        self.saved = (R.Thread, R.Lock, subprocess.Popen, mc.Client, R.time, R.os)
        R.Thread, R.Lock, subprocess.Popen, mc.Client, R.time = FakeThread, FakeLock, FakePopen, fake_client, FakeTime()
        R.os = types.SimpleNamespace(path=os.path, environ={})     # _run copies the whole environment: 1 ms per run

    def unpatch(self):
        import subprocess
        import multiprocessing.connection as mc
        R = self.R
        R.Thread, R.Lock, subprocess.Popen, mc.Client, R.time, R.os = self.saved


# --------------------------------------------------------------------------- policies

def by_schedule(sched, fallback=True):
    def choose(k, enabled, w):
        if k < len(sched):
            return sched[k]
        return enabled[0]
    return choose


def tid_str(ts):
    return ''.join('0123456789abcdefghijklmnopqrstuvwxyz'[t] for t in ts)


def str_tids(s):
    return ['0123456789abcdefghijklmnopqrstuvwxyz'.index(c) for c in s]


# --------------------------------------------------------------------------- the oracle (the property itself)

def concurrent_close_call(workload):
    """a close() in one thread while another thread has a call: outside the property's domain"""
    for i, a in enumerate(workload):
        for j, b in enumerate(workload):
            if i != j and 'close' in a and 'call' in b:
                return True
    return False


def oracle(workload, lf, w):
    """-> list of violated clauses of the property for one finished run on the real class"""
    bad = []
    s = w.summary()
    ncalls = [ops.count('call') for ops in workload]
    anyclose = any('close' in ops for ops in workload)
    nops = sum(len(ops) for ops in workload)
    if w.stuck:
        bad.append('deadlock: threads %s can never run' % w.stuck)
        return bad
    if lf == 'once':
        # the first launch (whoever makes it: the background starter or a caller) fails, every later one succeeds: the failure may
        # surface in the thread that made it; after it exactly one more process is launched, however many callers were waiting
        if s['popen'] > 2:
            bad.append('%d servers launched after the first launch failed, expected exactly 1 (callers waiting for the failed '
                       'background start each launched their own)' % (s['popen'] - 1))
        for i, lt in enumerate(w.threads):
            if lt.kind == 'worker' and lt.result == 'returned' and lt.answered != ncalls[i]:
                bad.append('thread %d: %d of %d calls answered' % (i, lt.answered, ncalls[i]))
        if s['lock'] is not None:
            bad.append('prepare_lock still held at the end')
        if s['pthread']:
            bad.append('prepare_thread still set at the end')
        return bad
    if lf:
        # launch failure must surface in every caller that needed the server and leave the object usable
        for i, lt in enumerate(w.threads):
            if lt.kind == 'worker' and ncalls[i] and lt.result == 'returned':
                bad.append('thread %d: call returned although no server ever accepted' % i)
        if s['lock'] is not None:
            bad.append('prepare_lock still held after the launch failure')
        if s['pthread']:
            bad.append('prepare_thread not cleared after the launch failure')
        return bad
    for i, lt in enumerate(w.threads):
        if lt.result != 'returned':
            bad.append('thread %d %s: %s' % (i, lt.kind, lt.result))
        elif lt.kind == 'worker' and lt.answered != ncalls[i]:
            bad.append('thread %d: %d of %d calls answered' % (i, lt.answered, ncalls[i]))
        if getattr(lt, 'wrong', None):
            bad.append('thread %d: wrong answer %s' % (i, lt.wrong))
    if w.max_live > 1:
        bad.append('%d servers alive at the same time' % w.max_live)
    if not anyclose and nops and s['popen'] != 1:
        bad.append('%d servers launched (Popen calls), expected exactly 1' % s['popen'])
    if s['popen'] != w.close_msgs + (1 if s['live'] else 0):
        bad.append('%d launched, %d told to close, last one alive=%s: a server was orphaned' % (s['popen'], w.close_msgs, s['live']))
    if s['conn'] != s['live']:
        bad.append('conn present=%s but server alive=%s at the end' % (s['conn'], s['live']))
    if s['lock'] is not None:
        bad.append('prepare_lock still held at the end')
    if s['pthread']:
        bad.append('prepare_thread still set at the end')
    return bad


# --------------------------------------------------------------------------- workloads

W2_FULL = [[['prepare'], ['call']], [['prepare'], ['prepare']], [['call'], ['prepare']]]
W2_POR = [[['call'], ['call']], [['prepare', 'call'], ['call']], [['prepare', 'call'], ['prepare', 'call']],
          [['prepare', 'prepare'], ['call']], [['call', 'call'], ['prepare']]]
W1_SEQ = [[['call', 'close', 'call']], [['prepare', 'call', 'close', 'call']], [['prepare', 'close', 'call']],
          [['close', 'prepare', 'call']], [['close', 'call', 'close']], [['call', 'prepare', 'close', 'prepare', 'call']],
          [['prepare', 'close', 'prepare', 'call', 'close']], [['call'], []], [['prepare']], [['close']]]
W2_CLOSE_DOMAIN = [[['prepare'], ['close']], [['prepare', 'prepare'], ['close']], [['call', 'close', 'call'], ['prepare']],
                   [['prepare', 'close'], ['prepare']]]
W_CLOSE_RACE = [[['call'], ['close']], [['call', 'close'], ['call']], [['prepare', 'call'], ['close']]]
W3_SLEEP = [[['prepare'], ['call'], ['call']], [['call'], ['call'], ['call']], [['prepare'], ['prepare'], ['call']],
            [['prepare', 'call'], ['call'], ['prepare']]]
W3_THOROUGH = [[['prepare', 'call'], ['prepare', 'call'], ['call']], [['prepare', 'call'], ['call', 'call'], ['prepare']],
               [['prepare'], ['prepare'], ['prepare']], [['call', 'close', 'call'], ['prepare'], ['prepare']],
               [['prepare', 'call'], ['prepare', 'call'], ['prepare', 'call']]]
W3_CLOSE_RACE = [[['prepare'], ['call'], ['close']], [['call'], ['call'], ['close']]]
W_LF = [[['call']], [['prepare', 'call']], [['prepare'], ['call']], [['call'], ['call']]]
# only the first launch fails: callers waiting for a failed background start (found missing by seeded change C16-5)
W_LF_ONCE = [[['prepare'], ['call'], ['call']], [['prepare', 'call'], ['call']], [['call'], ['call']], [['prepare'], ['call']]]


def model_schedules(workload, variant, mode, limit, lf=False):
    r = common.ask_driver([{'op': 'enum', 'workload': workload, 'variant': variant, 'mode': mode, 'limit': limit, 'lf': lf}],
                          exe='drv_startup')[0]
    if 'driver_error' in r:
        raise common.Infra('driver: %s' % r['driver_error'])
    return r['schedules'], r['truncated']


class Stats(object):
    def __init__(self):
        self.swapped = 0
        self.bounded = 0
        self.bounded_bad = []
        self.runs = 0
        self.steps = 0
        self.distinct = set()
        self.disagree = []
        self.by_workload = {}
        self.race = {}


def replay_model(check, ctx, st, workload, variant, mode, limit, lf=False, max_report=5):
    """every schedule the model enumerates is forced on the real class; step-by-step diff; oracle on each run"""
    scheds, trunc = model_schedules(workload, variant, mode, limit, lf)
    reqs = [{'op': 'run', 'workload': workload, 'variant': variant, 'lf': lf, 'schedule': s} for s in scheds]
    model = common.ask_driver(reqs, exe='drv_startup')
    pcs = ctx.info.get('pcs', {})
    n_dis = 0
    if not lf and not any('close' in ops for ops in workload) and variant == 'current':
        # C16_no_deadlock / C16_exactly_one evaluated on the model itself (the theorems cover all schedules; this ties the driver to them)
        for s, m in zip(scheds, model):
            ms = m['state']
            ok = ms['final'] and ms['enabled'] == '' and (ms['popen'] == 1 or not any(workload)) and \
                all(t['out'] == 'returned' for t in ms['threads']) and \
                [t['answered'] for t in ms['threads'][:len(workload)]] == [ops.count('call') for ops in workload]
            st.bounded += 1
            if not ok and len(st.bounded_bad) < 3:
                st.bounded_bad.append({'workload': workload, 'schedule': s, 'state': ms})
    for s, m in zip(scheds, model):
        sched = str_tids(s)
        w = World(ctx, workload, lf)
        trace = w.run(by_schedule(sched))
        st.runs += 1
        st.steps += len(trace)
        st.distinct.add((json.dumps(workload), lf, s))
        if w.bug:
            raise common.Infra('scheduler inconsistency: %s (workload %s schedule %s)' % (w.bug, workload, s))
        why = None
        for k, (en, t, label) in enumerate(trace):
            if k >= len(sched):
                why = 'step %d: the model has no runnable thread, the implementation can still run %s' % (k, en)
                break
            if label == 'NOT-ENABLED':
                why = 'step %d: model runs thread %d, on the implementation it is blocked/finished (runnable: %s)' % (k, t, en)
                break
            if tid_str(en) != m['enabled'][k]:
                why = 'step %d: runnable threads: implementation %s, model %s' % (k, tid_str(en), m['enabled'][k])
                break
            pc = pcs.get(label)
            if pc != m['pcs'][k]:
                why = 'step %d: thread %d stands at %s line %d (%s), model at %s' % (k, t, label[0], label[1], pc, m['pcs'][k])
                break
        if why is None and len(trace) < len(sched):
            why = 'implementation stopped after %d steps, model schedule has %d' % (len(trace), len(sched))
        if why is None:
            got = w.summary()
            exp = dict(m['state'])
            exp_threads = [{'out': t['out'], 'answered': t['answered']} for t in exp['threads']]
            for key in ('popen', 'conn', 'closed', 'live', 'closeMsgs', 'lock', 'pthread'):
                if got[key] != exp[key]:
                    why = 'final %s: implementation %r, model %r' % (key, got[key], exp[key])
                    break
            if why is None and got['threads'] != exp_threads:
                why = 'final thread outcomes: implementation %r, model %r' % (got['threads'], exp_threads)
        if why is not None:
            n_dis += 1
            if len(st.disagree) < max_report:
                st.disagree.append({'workload': workload, 'lf': lf, 'variant': variant, 'schedule': s, 'why': why})
        judge(check, st, workload, lf, w, tid_str([t for _, t, _ in trace]))
    st.by_workload[json.dumps(workload) + (' lf' if lf else '')] = {'mode': ['all', 'invisible-first', 'sleep-sets'][mode],
                                                                     'schedules': len(scheds), 'truncated': trunc,
                                                                     'disagreements': n_dis}
    return n_dis


def judge(check, st, workload, lf, w, sched):
    bad = oracle(workload, lf, w)
    if w.swapped:
        st.swapped += 1
        if st.swapped == 1:
            st.first_swap = {'workload': workload, 'schedule': sched}
    if not bad:
        return
    if concurrent_close_call(workload):
        key = json.dumps(workload)
        r = st.race.setdefault(key, {'schedules_with_exception_or_anomaly': 0, 'first': None})
        r['schedules_with_exception_or_anomaly'] += 1
        if r['first'] is None:
            r['first'] = {'schedule': sched, 'observed': bad}
        return
    if getattr(st, 'nfail', 0) < 8:
        st.nfail = getattr(st, 'nfail', 0) + 1
        check.fail('; '.join(bad)[:300], {'workload': workload, 'lf': lf, 'schedule': sched,
                                          'outcome': w.summary(),
                                          'exceptions': [getattr(lt, 'exc', None) for lt in w.threads]})


def explore_real(check, ctx, st, workload, lf, budget, rng, n_random):
    """model-free search on the real class: default-first DFS over scheduling decisions + random walks"""
    runs = 0
    stack = [[]]
    seen_final = set()
    while stack and runs < budget:
        pre = stack.pop()
        w = World(ctx, workload, lf)
        trace = w.run(by_schedule(pre))
        runs += 1
        if w.bug:
            raise common.Infra('scheduler inconsistency: %s' % w.bug)
        chosen = [t for _, t, _ in trace]
        st.distinct.add((json.dumps(workload), lf, tid_str(chosen)))
        judge(check, st, workload, lf, w, tid_str(chosen))
        for i in range(len(trace) - 1, len(pre) - 1, -1):
            for alt in trace[i][0]:
                if alt != chosen[i]:
                    stack.append(chosen[:i] + [alt])
        seen_final.add(json.dumps(w.summary(), sort_keys=True))
    exhausted = not stack
    for _ in range(n_random):
        w = World(ctx, workload, lf)
        trace = w.run(lambda k, en, w: rng.choice(en))
        runs += 1
        chosen = [t for _, t, _ in trace]
        st.distinct.add((json.dumps(workload), lf, tid_str(chosen)))
        judge(check, st, workload, lf, w, tid_str(chosen))
    st.runs += runs
    return runs, exhausted


# --------------------------------------------------------------------------- server loop

class ScriptConn(object):
    class Stop(BaseException):
        pass

    def __init__(self, inputs, um):
        self.inputs = list(inputs)
        self.um = um
        self.sent = 0
        self.closed = False

    def poll(self, timeout=None):
        if not self.inputs:
            raise ScriptConn.Stop()
        return True

    def recv_bytes(self):
        i = self.inputs.pop(0)
        if i == 'eof':
            raise EOFError()
        if i == 'garbage':
            return b'\xc1\xff'
        if i == 'close':
            return self.um.dumps(('close', (), {}))
        return self.um.dumps(('eval', ('return 1',), {}))

    def send_bytes(self, b):
        self.sent += 1

    def close(self):
        self.closed = True


def server_ok(c, got):
    """oracle: the loop is left exactly at the first close / eof / garbage; every request before it is answered"""
    stops = [i for i, x in enumerate(c) if x != 'request']
    return got == {'running': not stops, 'replies': stops[0] if stops else len(c),
                   'closed': bool(stops and c[stops[0]] == 'close')}


def run_server_case(c):
    import logging
    import supp.server as S
    import supp.umsgpack as um
    logging.getLogger('server').disabled = True
    conn = ScriptConn(c, um)
    running = False
    try:
        S.Server(conn).run()
    except ScriptConn.Stop:
        running = True
    return {'running': running, 'replies': conn.sent, 'closed': conn.closed}


def server_stream(check, rng, n):
    import logging
    import supp.server as S
    import supp.umsgpack as um
    logging.getLogger('server').disabled = True
    cases = [[], ['close'], ['eof'], ['garbage'], ['request'], ['request', 'close', 'request'], ['request', 'eof'],
             ['request', 'request', 'garbage', 'request']]
    for _ in range(n):
        cases.append([rng.choice(['request', 'request', 'request', 'close', 'eof', 'garbage']) for _ in range(rng.randrange(0, 7))])
    model = common.ask_driver([{'op': 'server', 'inputs': c} for c in cases], exe='drv_startup')
    dis = []
    for c, m in zip(cases, model):
        conn = ScriptConn(c, um)
        running = False
        try:
            S.Server(conn).run()
        except ScriptConn.Stop:
            running = True
        except Exception as e:  # noqa
            dis.append('%s: server loop raised %s' % (c, type(e).__name__))
            continue
        got = {'running': running, 'replies': conn.sent, 'closed': conn.closed}
        if got != m:
            dis.append('%s: implementation %s, model %s' % (c, got, m))
        if not server_ok(c, got):
            check.fail('server loop: wrong reaction to %s' % c, {'server_inputs': c, 'got': got})
    check.oblige('correspondence server loop (serverRun = supp.server.Server.run on scripted connections)', not dis, '; '.join(dis[:3]))
    return len(cases)


# --------------------------------------------------------------------------- real subprocess runs

def real_runs(check, repo, quick):
    """real Environment, real server process: close, disconnect, launch failure"""
    for k in [k for k in sys.modules if k == 'supp' or k.startswith('supp.')]:
        del sys.modules[k]
    import subprocess
    import supp.remote as R
    launched = []
    real_popen = subprocess.Popen

    class CountingPopen(real_popen):
        def __init__(self, *a, **kw):
            launched.append(self)
            real_popen.__init__(self, *a, **kw)
    done = []

    def fail(what, detail):
        check.fail('real subprocess: ' + what, {'real_run': what, 'detail': detail})
    def stage_close():
        # close: server exits, client reusable with a new server
        env = R.Environment()
        r = env.eval('return 40 + 2')
        if r != 42:
            fail('call', repr(r))
        p1 = env.proc
        try:
            env.close()
        except Exception as e:  # noqa
            fail('close() raised', repr(e))
        if hasattr(env, 'conn'):
            fail('conn still present after close()', '')
        try:
            rc = p1.wait(timeout=8)
            if rc != 0:
                fail('server exit status after close', rc)
        except subprocess.TimeoutExpired:
            fail('server still running 8 s after close()', '')
            p1.kill()
        if hasattr(env, 'conn'):
            return
        r = env.eval('return 1')
        if r != 1 or env.proc is p1 or len(launched) != 2:
            fail('call after close', repr((r, len(launched))))
        # disconnect without a close message: the server leaves on its own
        p2 = env.proc
        env.conn.close()
        try:
            p2.wait(timeout=8)
        except subprocess.TimeoutExpired:
            fail('server still running 8 s after the client closed its end', '')
            p2.kill()
        del env.conn

    def stage_cycles():
        # a client is reusable after close() any number of times: 20 call + close cycles, each with its own server
        env = R.Environment()
        n0 = len(launched)
        for k in range(20):
            try:
                if env.eval('return %d' % k) != k:
                    fail('wrong answer in call/close cycle %d' % (k + 1), '')
                    break
                p = env.proc
                env.close()
                p.wait(timeout=8)
            except Exception as e:  # noqa
                fail('call/close cycle %d of one client failed' % (k + 1), repr(e)[:200])
                break
        else:
            if len(launched) - n0 != 20:
                fail('20 call/close cycles launched %d servers' % (len(launched) - n0), '')

    def stage_drop():
        env = R.Environment()
        env.prepare()
        r = env.eval('return 7')
        p3 = env.proc
        if r != 7 or env.prepare_thread is not None:
            fail('prepare + call', repr((r, env.prepare_thread)))
        del env.conn            # garbage collection closes the client end
        try:
            p3.wait(timeout=8)
        except subprocess.TimeoutExpired:
            fail('server still running 8 s after the connection object was dropped', '')
            p3.kill()

    def stage_launch_failure():
        # the executable starts but never listens
        saved = R.time
        R.time = FakeTime()
        try:
            env = R.Environment(executable='/bin/false')
            try:
                env.eval('return 1')
                fail('launch failure did not surface', '')
            except Exception as e:  # noqa
                if 'launching timeout' not in str(e):
                    fail('launch failure surfaced as something else', repr(e))
            if hasattr(env, 'conn') or env.prepare_lock.locked():
                fail('launch failure left conn / a held lock', '')
            env.executable = sys.executable
            R.time = saved
            if env.eval('return 5') != 5:
                fail('client unusable after a launch failure', '')
            p = env.proc
            env.close()
            p.wait(timeout=8)
            env = R.Environment(executable='/nonexistent/python')
            try:
                env.eval('return 1')
                fail('missing executable did not surface', '')
            except OSError:
                pass
            if env.prepare_lock.locked():
                fail('missing executable left the lock held', '')
            # the launch fails inside the BACKGROUND starter (prepare()), later a launch would succeed: the next call starts a server
            hook = threading.excepthook
            threading.excepthook = lambda a: None
            try:
                env = R.Environment(executable='/nonexistent/python')
                env.prepare()
                t = env.prepare_thread
                if t is not None:
                    t.join(8)
                env.executable = sys.executable
                n0 = len(launched)
                for k in range(2):
                    try:
                        if env.eval('return 6') != 6:
                            fail('wrong answer after a failed background launch', '')
                    except Exception as e:  # noqa
                        fail('client unusable after a failed background launch (call %d)' % (k + 1), repr(e)[:200])
                        break
                # (the failed Popen is counted too: it raised inside its constructor)
                if hasattr(env, 'conn'):
                    p = env.proc
                    env.close()
                    p.wait(timeout=8)
            finally:
                threading.excepthook = hook
        finally:
            R.time = saved

    subprocess.Popen = CountingPopen
    try:
        for name, stage in [('close/reuse/disconnect', stage_close), ('20 call/close cycles', stage_cycles)] + ([] if quick else [('prepare/drop', stage_drop)]) + \
                [('launch failure', stage_launch_failure)]:
            try:
                stage()
            except Exception as e:  # noqa
                fail('%s raised %s' % (name, type(e).__name__), repr(e)[:300])
            done.append(name)
    finally:
        subprocess.Popen = real_popen
        for p in launched:
            try:
                if p.poll() is None:
                    p.kill()
                p.wait(timeout=5)
            except Exception:  # noqa
                pass
    return done


# --------------------------------------------------------------------------- the check

def run(check):
    quick = check.tier == 'quick'
    rng = check.rng
    repo = common.REPO
    check.prove(extra_targets=('drv_startup',), extra_audit_modules=())
    witness_ok, wout = common.lake_build(['SuppModel.Witness.C16'])
    check.oblige('lake build SuppModel.Witness.C16 (failing schedules of the two pre-fix variants, by evaluation)', witness_ok, wout[-1500:])

    hits = common.grep_forbidden('SuppModel.Witness.C16')
    check.oblige('forbidden-construct audit of SuppModel.Witness.C16', not hits, '; '.join(hits))
    # full-strength statements kept as `def …_stmt : Prop` in Props/C16.lean (none once they are theorems): NOT obligations
    import re
    props_src = common.strip_comments(open(os.path.join(common.LEAN, 'SuppModel', 'Props', 'C16.lean')).read())
    check.extra['stated_not_proved'] = [
        '%s: stated in Props/C16.lean, not proved; exercised by the model check of every enumerated maximal schedule of every '
        'prepare/call workload (all threads returned, one launch, every call answered) and by the oracle on the real class' % n
        for n in re.findall(r'^def\s+(C16_\w+_stmt)\b', props_src, re.M)]
    ctx = Ctx(repo)
    info = ctx.info
    variant = info['variant']
    shape_ok = 'shape_error' not in info and variant == 'current'
    check.oblige('source shape: prepare/run/_threaded_run/_call/close are the statements the model transliterates',
                 shape_ok, info.get('shape_error') or ('the source is the pre-fix variant %s, whose failing schedule is '
                                                       'Witness.C16 (model variant used for the replay below)' % variant))
    tie_ok = 'shape_error' not in info
    st = Stats()
    t0 = time.time()
    with ctx:
        # ---- correspondence: every model schedule on the real class
        if tie_ok:
            # (workload, enumeration mode, limit): 0 = every schedule, 1 = invisible lines first, 2 = + sleep sets
            plan = [(w, 1 if quick else 0, 20000) for w in W2_FULL] + [([['prepare'], ['prepare']], 0, 20000)]
            plan += [(w, 1 if i < 1 else 2, 30000) for i, w in enumerate(W2_POR)]
            plan += [(w, 1 if quick else 0, 20000) for w in W1_SEQ] + [(w, 2 if quick else 1, 20000) for w in W2_CLOSE_DOMAIN]
            plan += [(w, 1 if quick else 0, 20000) for w in W_CLOSE_RACE[:1]] + [(w, 2, 5000) for w in W_CLOSE_RACE[1:]]
            plan += [(w, 2, 20000) for w in W3_SLEEP]
            if not quick:
                plan += [(w, 1, 30000) for w in W2_POR[1:2]]
                plan += [(w, 2, 60000) for w in W3_THOROUGH] + [(w, 2, 20000) for w in W3_CLOSE_RACE]
            ndis = 0
            for w, mode, limit in plan:
                ndis += replay_model(check, ctx, st, w, variant, mode, limit)
            for w in W_LF:
                ndis += replay_model(check, ctx, st, w, variant, 1, 5000, lf=True)
            check.oblige('correspondence schedules (runnable set and line of every step, final outcome: model = real class)',
                         ndis == 0, json.dumps(st.disagree[:3])[:1500])
            check.oblige('model run of C16_no_deadlock / C16_exactly_one on every enumerated schedule (cross-check of the theorems through the '
                         'driver: every maximal schedule of a prepare/call workload ends with all threads returned, one launch, all calls answered)',
                         not st.bounded_bad, json.dumps(st.bounded_bad)[:800])
            check.extra['bounded_model_check_schedules'] = st.bounded
            # the reductions lose no outcome: on small workloads the set of final states is the same
            chk = sleep_sanity(variant)
            check.oblige('schedule reductions (invisible-first, sleep sets) reach the same final states as full enumeration', not chk, chk)
        # ---- model-free search
        boost = 1 if (tie_ok and shape_ok and not st.disagree) else 6
        budget = (150 if quick else 900) * boost
        nrand = (40 if quick else 300) * boost
        sr = {}
        for w in W2_FULL + W2_POR + W1_SEQ + W2_CLOSE_DOMAIN + W3_SLEEP + (W3_THOROUGH if not quick else []) + W_CLOSE_RACE:
            runs, exhausted = explore_real(check, ctx, st, w, False, budget, rng, nrand)
            sr[json.dumps(w)] = {'runs': runs, 'exhausted': exhausted}
        for w in W_LF:
            runs, exhausted = explore_real(check, ctx, st, w, True, budget, rng, nrand // 2)
            sr[json.dumps(w) + ' lf'] = {'runs': runs, 'exhausted': exhausted}
        for w in W_LF_ONCE:
            runs, exhausted = explore_real(check, ctx, st, w, 'once', budget, rng, nrand // 2)
            sr[json.dumps(w) + ' lf-once'] = {'runs': runs, 'exhausted': exhausted}
    sched_s = time.time() - t0
    n_srv = server_stream(check, rng, 200 if quick else 3000)
    t1 = time.time()
    done = real_runs(check, repo, quick)
    check.extra['real_subprocess_runs'] = done
    check.extra['real_subprocess_s'] = round(time.time() - t1, 1)

    check.cov['evaluations'] = st.runs + n_srv
    check.cov['distinct_nontrivial'] = len([1 for (w, lf, s) in st.distinct if len(set(s)) > 1])
    check.cov['rule'] = ('one evaluation = one complete schedule forced on a fresh real Environment (or one scripted server-loop run); '
                         'distinct non-trivial = distinct (workload, schedule) in which at least two threads take steps, i.e. a real interleaving')
    check.extra.update({
        'variant_recognised': variant, 'scheduler_s': round(sched_s, 1), 'steps_replayed': st.steps,
        'model_schedules_by_workload': st.by_workload, 'model_free_search': sr,
        'close_concurrent_with_call (outside the domain, reported)': st.race,
        'server_loop_cases': n_srv,
        'runs_in_which_a_caller_received_the_reply_to_another_thread_s_request (not part of C16, reported)':
            {'runs': st.swapped, 'first': getattr(st, 'first_swap', None)},
    })
    for k, v in list(st.by_workload.items())[:3]:
        check.sample({'workload': json.loads(k.replace(' lf', '')), 'schedules': v['schedules']})
    for (w, lf, s) in sorted(st.distinct, key=lambda t: (t[0], str(t[1]), t[2]))[:3]:
        check.sample({'workload': json.loads(w), 'schedule': s})
    check.assumptions += [
        'thread switches happen only between source lines of prepare/run/_threaded_run/_call/close (the GIL makes the attribute '
        'reads and writes of one line atomic); _run (Popen + connect loop) is one atomic action of the calling line',
        'threading.Thread/Lock, subprocess.Popen and multiprocessing.connection.Client are replaced by fakes whose behaviour '
        '(join blocks until the target finished, the lock excludes, a closed connection raises OSError, a connection whose server '
        'left raises BrokenPipeError/EOFError) is what the model assumes; the real ones are exercised by the real-subprocess runs only',
        'close() concurrent with a call in another thread is outside the property (callers can see BrokenPipeError/EOFError/'
        'AttributeError/OSError): explored, compared with the model, counted in the evidence, not judged',
        'three-thread workloads are exhaustive up to commutation of independent lines (sleep sets over a hand-written read/write '
        'footprint per line); two-thread workloads of <= 20000 schedules are enumerated in full',
    ]
    check.trusted += ['harness/c16.py: the scheduler (settrace on the five methods, semaphores), the fakes, the statement templates',
                      'Drv/Startup.lean: schedule enumeration (DFS, invisible-first and sleep-set reductions)']


def sleep_sanity(variant):
    probs = []
    for w in ([['prepare'], ['call']], [['prepare'], ['prepare']], [['call'], ['close']], [['prepare'], ['close']],
              [['prepare', 'call', 'close', 'call']]):
        finals = []
        for mode in (0, 1, 2):
            scheds, trunc = model_schedules(w, variant, mode, 50000)
            rs = common.ask_driver([{'op': 'run', 'workload': w, 'variant': variant, 'schedule': s} for s in scheds], exe='drv_startup')
            finals.append(set(json.dumps(r['state'], sort_keys=True) for r in rs))
        if not (finals[0] == finals[1] == finals[2]):
            probs.append('%s: %d / %d / %d final states' % (w, len(finals[0]), len(finals[1]), len(finals[2])))
    return '; '.join(probs)


def replay(path):
    d = json.load(open(path))
    ctx = Ctx(common.REPO)
    bad_any = False
    real_done = False
    for f in d.get('failing_inputs', []):
        r = f['replay']
        if 'schedule' in r:
            with ctx:
                w = World(ctx, r['workload'], r.get('lf', False))
                w.run(by_schedule(str_tids(r['schedule'])))
            bad = oracle(r['workload'], r.get('lf', False), w)
            print('workload %s schedule %s -> %s' % (r['workload'], r['schedule'], bad or 'property holds'))
            print('  outcome', json.dumps(w.summary()))
            bad_any = bad_any or bool(bad)
        elif 'real_run' in r and not real_done:
            real_done = True

            class C(object):
                failures = []

                def fail(self, what, rep):
                    self.failures.append(what)
            c = C()
            real_runs(c, common.REPO, False)
            print('real subprocess runs ->', c.failures or 'property holds')
            bad_any = bad_any or bool(c.failures)
        elif 'server_inputs' in r:
            got = run_server_case(r['server_inputs'])
            ok = server_ok(r['server_inputs'], got)
            print('server loop %s -> %s: %s' % (r['server_inputs'], got, 'property holds' if ok else 'wrong reaction'))
            bad_any = bad_any or not ok
    for b in d.get('no_longer_checks', []):
        print('no longer checks:', b[:300])
    return 1 if bad_any else 0
