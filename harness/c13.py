"""C13 — the analysis depends on program structure, not on layout.

theorems : Props/C13.lean — the graph evaluator only COMPARES positions: an order-preserving re-positioning of
           a region changes no table (C13_names_at / C13_layouts / C13_history), bisect/insert facts
tie      : for every layout pair the two REAL flow graphs are serialised; the driver checks they have the same
           shape up to positions and that every query's compared positions are ordered alike (the hypotheses of
           C13_layouts, per pair), and runs the model on both; real answers are diffed with the model's
search   : on the real code alone: lint diagnostics (codes, messages, order) and per-read tables of a program
           versus its ast.unparse normal form and random layout-only re-renderings
"""
import ast
import glob
import json
import os
import shutil

from . import common, flowgraph, pygen, relayout, extractcorr


def lint_shape(S, project, src, fname):
    """diagnostics with positions replaced by the ordinal of the statement-level node they sit in is too
    fragile; compare codes + messages in order, positions are checked through the per-read tables"""
    try:
        return [(d[0], d[1]) for d in S['linter'].lint(project, src, fname)]
    except RecursionError:
        return 'RecursionError'
    except Exception as e:  # C08's business; recorded, not judged here
        return 'crash:' + type(e).__name__


def corpus(check):
    quick = check.tier == 'quick'
    progs = []
    for fn in sorted(glob.glob(os.path.join(common.VERIF, 'corpus', 'layout', '*.py'))):
        progs.append(('corpus:' + os.path.basename(fn), open(fn).read()))
    for i in range(260 if quick else 4000):
        g = pygen.Gen(check.rng, depth=check.rng.choice([2, 3, 3, 4]))
        src = g.program()
        if not pygen.valid(src):
            continue
        progs.append(('gen%d' % i, src))
    files = sorted(glob.glob(os.path.join(common.REPO, 'supp', '*.py'))) + sorted(glob.glob(os.path.join(common.REPO, 'tests', '*.py')))
    if not quick:
        import sysconfig
        files += sorted(glob.glob(os.path.join(sysconfig.get_paths()['stdlib'], '*.py')))[:150]
    for fn in files:
        try:
            src = open(fn, encoding='utf-8').read()
            ast.parse(src)
        except Exception:
            continue
        if len(src) < 60000:
            progs.append(('file:' + os.path.basename(fn), src))
    return progs


def run(check):
    quick = check.tier == 'quick'
    check.prove(extra_targets=('drv_flow', 'drv_extract'))
    # the extractor itself: Lean transliteration of nast.extract (family Extract), its theorems count here too
    check.prove_also('Extract')
    S = flowgraph.load_supp()
    extract_programs = [('special%d' % i, s) for i, s in enumerate(extractcorr.SPECIALS)] + \
        extractcorr.generated(check.rng, 150 if quick else 1500) + extractcorr.repo_files() + \
        extractcorr.stdlib_files(check.rng, 10 if quick else 200)
    extractcorr.stream(check, S, extract_programs, name='extractor (Lean transliteration of nast.extract = real extractor, exact graph comparison)')
    tmp = '/tmp/verif-c13-%d' % os.getpid()
    os.makedirs(tmp, exist_ok=True)
    project = S['project'].Project([tmp])
    fname = os.path.join(tmp, 'm.py')
    requests, meta = [], []
    pairs = skipped = 0
    kinds = {'normal_form': 0, 'random': 0, 'wide': 0}
    nontrivial = set()
    for label, src in corpus(check):
        layouts = []
        try:
            nf = relayout.normal_form(src)
            if nf != src and relayout.same_ast(src, nf):
                layouts.append(('normal_form', nf))
        except (SyntaxError, ValueError, RecursionError):
            pass
        for _ in range(2 if quick else 3):
            r = relayout.relayout(src, check.rng)
            if r is not None:
                layouts.append(('random', r))
        if kinds.get('wide', 0) + len([1 for k, _ in layouts if k == 'wide']) < (25 if quick else 300) and len(src) < 6000:
            r = relayout.wide(src, check.rng)
            if r is not None:
                layouts.append(('wide', r))
        if not layouts:
            skipped += 1
            continue
        try:
            g1 = flowgraph.analyse(S, src, fname, project)
        except Exception as e:
            check.extra.setdefault('extractor_crashes_skipped', []).append('%s: %s' % (label, type(e).__name__))
            continue
        r1 = g1.reads()
        a1 = [g1.real_answer(n) for _q, n in r1]
        l1 = lint_shape(S, project, src, fname)
        for kind, src2 in layouts:
            try:
                g2 = flowgraph.analyse(S, src2, fname, project)
            except Exception as e:
                check.fail('a re-layout crashes the analysis although the original does not',
                           {'source': src, 'relayout': src2, 'exception': type(e).__name__})
                continue
            r2 = g2.reads()
            a2 = [g2.real_answer(n) for _q, n in r2]
            l2 = lint_shape(S, project, src2, fname)
            pairs += 1
            kinds[kind] += 1
            if src.count('\n') != src2.count('\n'):
                nontrivial.add(src2)
            # oracle on the real code
            if l1 != l2:
                check.fail('lint diagnostics (codes, messages, order) differ between two layouts of one program',
                           {'source': src, 'relayout': src2, 'lint_original': l1, 'lint_relayout': l2})
            if len(r1) != len(r2) or [q['key'] for q, _ in r1] != [q['key'] for q, _ in r2]:
                check.fail('the reads that got a region differ between two layouts', {'source': src, 'relayout': src2})
                continue
            bad = [i for i, (x, y) in enumerate(zip(a1, a2)) if x != y]
            if bad:
                i = bad[0]
                check.fail('visible names / definitions at corresponding reads differ between two layouts',
                           {'source': src, 'relayout': src2, 'read_original': r1[i][0], 'read_relayout': r2[i][0],
                            'answer_original': a1[i], 'answer_relayout': a2[i]})
            requests.append({'op': 'iso', 'g1': g1.json, 'g2': g2.json, 'q1': [q for q, _ in r1], 'q2': [q for q, _ in r2]})
            meta.append((label, kind, src, src2, a1, a2))
    replies = common.ask_driver(requests, exe='drv_flow')
    # which real layout pairs are instances of the extractor-level theorem extract_C13 (hypothesis layoutPairOK,
    # evaluated by drv_extract on the two serialised trees, in both directions)
    lp_pairs = [(m[2], m[3]) for m in meta if len(m[2]) < 60000]
    try:
        lp = extractcorr.layout_pairs(lp_pairs)
        check.extra['extract_C13_instances'] = {
            'pairs': len(lp), 'layoutPairOK_forward': sum(1 for x in lp if x['direction'] == 'forward'),
            'layoutPairOK_reverse_only': sum(1 for x in lp if x['direction'] == 'reverse'),
            'not_covered(position shared by two nodes in each layout only)': sum(1 for x in lp if not x['ok']),
            'note': 'covered pairs are instances of the theorem extract_C13 (equal tables at corresponding reads follow from the '
                    'two trees alone); the others rest on the per-pair validation of C13_layouts on the real graphs below'}
    except Exception as e:  # the driver op is an extra; its absence is not a verdict
        check.extra['extract_C13_instances'] = 'not evaluated: %r' % e
    dis = 0
    hyp = {'pairs': 0, 'sameShape': 0, 'queries': 0, 'orderIso_true': 0, 'strict_orderIso_true': 0}
    for (label, kind, src, src2, a1, a2), rep in zip(meta, replies):
        if 'a1' not in rep:
            check.oblige('correspondence layout pairs', False, '%s: driver said %r' % (label, rep))
            dis += 1
            continue
        hyp['pairs'] += 1
        hyp['sameShape'] += bool(rep['sameShape'] and rep['sameQueries'])
        hyp['queries'] += len(rep['orderIso'])
        hyp['orderIso_true'] += sum(1 for x in rep['orderIso'] if x)
        hyp['strict_orderIso_true'] += sum(1 for x in rep.get('strictOrderIso', []) if x)
        m1 = [flowgraph.canon_model(x) for x in rep['a1']]
        m2 = [flowgraph.canon_model(x) for x in rep['a2']]
        if m1 != a1 or m2 != a2:
            dis += 1
            if dis <= 4:
                check.oblige('correspondence layout pairs', False, '%s (%s): model and implementation disagree on a table\n%s\n-----\n%s'
                             % (label, kind, src[:800], src2[:800]))
        if not (rep['sameShape'] and rep['sameQueries']) or not all(rep['orderIso']):
            # the hypotheses of C13_layouts fail for a genuine re-layout: the extractor positioned something by layout
            n_bad = sum(1 for x in rep['orderIso'] if not x)
            check.oblige('hypotheses of C13_layouts hold for this layout pair (same shape, queryIsoAt: the query position compares alike with every binding of its region)', False,
                         '%s (%s): sameShape=%s sameQueries=%s queries-not-order-isomorphic=%d\n%s\n-----\n%s'
                         % (label, kind, rep['sameShape'], rep['sameQueries'], n_bad, src[:800], src2[:800]))
    if dis == 0:
        check.oblige('correspondence layout pairs (model = implementation on both layouts)', True)
    if hyp['pairs'] and hyp['sameShape'] == hyp['pairs'] and hyp['orderIso_true'] == hyp['queries']:
        check.oblige('hypotheses of C13_layouts hold for every layout pair (same shape, queryIsoAt: the query position compares alike with every binding of its region)', True)
    check.cov['evaluations'] = pairs
    check.cov['distinct_nontrivial'] = len(nontrivial)
    check.cov['rule'] = ('programs: generated (harness/pygen.py), repo files (thorough: + 150 stdlib files); each against its ast.unparse normal '
                         'form and 2 (thorough 3) random layout-only re-renderings (indent width, blank lines/comments, breaks after commas in '
                         'brackets, `a; b` joining, one-line compounds; harness/relayout.py), each verified to parse to an identical AST. '
                         'evaluations = layout pairs; non-trivial = distinct re-layout whose line count differs from the original')
    check.extra.update({'layout_pairs': pairs, 'kinds': kinds, 'programs_without_relayout': skipped, 'hypotheses': hyp, 'disagreements': dis})
    for label, kind, src, src2, _a, _b in meta[:2]:
        check.sample({'program': label, 'kind': kind, 'original_head': src[:200], 'relayout_head': src2[:260]})
    check.assumptions += ['a layout-only printer keeps token order; every generated re-layout is checked to parse to the identical AST',
                          'positions of diagnostics are compared through the per-read tables, lint entries by (code, message) in order']
    shutil.rmtree(tmp, ignore_errors=True)


def replay(path):
    data = json.load(open(path))
    S = flowgraph.load_supp()
    tmp = '/tmp/verif-c13-replay'
    os.makedirs(tmp, exist_ok=True)
    project = S['project'].Project([tmp])
    fname = os.path.join(tmp, 'm.py')
    bad = 0
    for item in data.get('failing_inputs', []):
        r = item['replay']
        if 'relayout' not in r:
            continue
        out = []
        for src in (r['source'], r['relayout']):
            try:
                g = flowgraph.analyse(S, src, fname, project)
                out.append((lint_shape(S, project, src, fname), [g.real_answer(n) for _q, n in g.reads()]))
            except Exception as e:
                out.append(('crash', type(e).__name__))
        same = out[0] == out[1]
        print('layouts agree' if same else 'layouts DISAGREE: %s' % item['what'])
        bad += not same
    print('REPLAY: %d of the recorded inputs still fail' % bad)
    return 1 if bad else 0
