"""A text-level generator of small Python programs rich in the constructs supp's extractor has
a visit_* method for.  Used by the graph-level checks (C04, C05, C13, C08) - every random choice
comes from the `rng` handed in.  Output always parses (checked by the callers with ast.parse)."""

IDENTS = ['a', 'b', 'c', 'd', 'e', 'z']


class Gen(object):
    def __init__(self, rng, depth=3, scopes=True, loops=1.0):
        self.rng = rng
        self.depth = depth
        self.scopes = scopes
        self.loops = loops
        self.counter = 0
        self.constructs = {}

    def note(self, k):
        self.constructs[k] = self.constructs.get(k, 0) + 1

    def ident(self):
        return self.rng.choice(IDENTS)

    def expr(self, d=2):
        r = self.rng.random()
        if d <= 0 or r < 0.35:
            return self.ident()
        if r < 0.42:
            return str(self.rng.randrange(10))
        if r < 0.45:
            return repr(self.rng.choice(['q\nr', 'line one\nline two\n', 's']))
        if r < 0.6:
            return '%s + %s' % (self.expr(d - 1), self.expr(d - 1))
        if r < 0.7:
            return 'f(%s, %s)' % (self.expr(d - 1), self.expr(d - 1))
        if r < 0.75:
            self.note('comprehension')
            v = self.ident()
            return '[%s for %s in %s if %s]' % (self.expr(d - 1), v, self.expr(d - 1), self.expr(d - 1))
        if r < 0.8:
            self.note('walrus')
            return '(%s := %s)' % (self.ident(), self.expr(d - 1))
        if r < 0.85:
            self.note('lambda')
            v = self.ident()
            return '(lambda %s, %s=%s: %s)' % (v, self.ident(), self.expr(d - 1), self.expr(d - 1))
        if r < 0.9:
            return '%s.attr' % self.ident()
        if r < 0.95:
            return '%s if %s else %s' % (self.expr(d - 1), self.expr(d - 1), self.expr(d - 1))
        return '{%s: %s for %s in %s}' % (self.ident(), self.expr(d - 1), self.ident(), self.expr(d - 1))

    def block(self, depth, ind, n=None, infunc=False):
        out = []
        pad = '    ' * ind
        for _ in range(n or self.rng.randint(1, 3)):
            k = self.rng.random()
            if depth <= 0 or k < 0.25:
                self.note('assign')
                if self.rng.random() < 0.2:
                    out.append(pad + '%s, %s = %s' % (self.ident(), self.ident(), self.expr()))
                else:
                    out.append(pad + '%s = %s' % (self.ident(), self.expr()))
            elif k < 0.38:
                self.note('read')
                out.append(pad + 'print(%s)' % self.expr())
            elif k < 0.5:
                self.note('if')
                out.append(pad + 'if %s:' % self.expr(1))
                out += self.block(depth - 1, ind + 1, infunc=infunc)
                r = self.rng.random()
                if r < 0.3:
                    out.append(pad + 'elif %s:' % self.expr(1))
                    out += self.block(depth - 1, ind + 1, infunc=infunc)
                if r < 0.6:
                    out.append(pad + 'else:')
                    out += self.block(depth - 1, ind + 1, infunc=infunc)
            elif k < 0.5 + 0.12 * self.loops:
                self.note('while')
                out.append(pad + 'while %s:' % self.expr(1))
                out += self.block(depth - 1, ind + 1, infunc=infunc)
                if self.rng.random() < 0.3:
                    out.append(pad + 'else:')
                    out += self.block(depth - 1, ind + 1, infunc=infunc)
            elif k < 0.5 + 0.24 * self.loops:
                self.note('for')
                tgt = self.ident() if self.rng.random() < 0.7 else '%s, %s' % (self.ident(), self.ident())
                out.append(pad + 'for %s in %s:' % (tgt, self.expr(1)))
                out += self.block(depth - 1, ind + 1, infunc=infunc)
                if self.rng.random() < 0.3:
                    out.append(pad + 'else:')
                    out += self.block(depth - 1, ind + 1, infunc=infunc)
            elif k < 0.82:
                self.note('try')
                out.append(pad + 'try:')
                out += self.block(depth - 1, ind + 1, infunc=infunc)
                for _h in range(self.rng.randint(1, 2)):
                    if self.rng.random() < 0.5:
                        out.append(pad + 'except E as %s:' % self.ident())
                    else:
                        out.append(pad + 'except %s:' % self.ident())
                    out += self.block(depth - 1, ind + 1, infunc=infunc)
                r = self.rng.random()
                if r < 0.3:
                    out.append(pad + 'else:')
                    out += self.block(depth - 1, ind + 1, infunc=infunc)
                if r > 0.7:
                    out.append(pad + 'finally:')
                    out += self.block(depth - 1, ind + 1, infunc=infunc)
            elif k < 0.86:
                self.note('with')
                if self.rng.random() < 0.5:
                    out.append(pad + 'with %s as %s:' % (self.expr(1), self.ident()))
                else:
                    out.append(pad + 'with %s as %s, %s as %s:' % (self.expr(1), self.ident(), self.expr(1), self.ident()))
                out += self.block(depth - 1, ind + 1, infunc=infunc)
            elif k < 0.93 and self.scopes:
                self.note('def')
                self.counter += 1
                name = self.rng.choice(IDENTS + ['g%d' % self.counter])
                params = ', '.join(self.rng.sample(IDENTS, self.rng.randint(0, 2)))
                if self.rng.random() < 0.3:
                    params = (params + ', ' if params else '') + '*, %s=%s' % (self.ident(), self.expr(1))
                if self.rng.random() < 0.2:
                    out.append(pad + '@%s' % self.ident())
                out.append(pad + 'def %s(%s):' % (name, params))
                body = []
                if self.rng.random() < 0.2:
                    self.note('global')
                    body.append('    ' * (ind + 1) + 'global %s' % self.ident())
                body += self.block(depth - 1, ind + 1, infunc=True)
                if self.rng.random() < 0.5:
                    body.append('    ' * (ind + 1) + 'return %s' % self.expr(1))
                out += body
            elif self.scopes:
                self.note('class')
                self.counter += 1
                out.append(pad + 'class K%d(%s):' % (self.counter, self.ident() if self.rng.random() < 0.4 else ''))
                out += self.block(depth - 1, ind + 1, infunc=False)
            else:
                out.append(pad + '%s = %s' % (self.ident(), self.expr()))
        return out

    def program(self):
        lines = self.block(self.depth, 0)
        lines.append('print(%s)' % ', '.join(IDENTS))
        return '\n'.join(lines) + '\n'


def valid(src):
    """the compiler accepts it (ast.parse alone lets duplicate parameters, misplaced walruses, ... through)"""
    try:
        compile(src, '<gen>', 'exec', dont_inherit=True)
        return True
    except (SyntaxError, ValueError, RecursionError):
        return False
