"""C02 — reaching-definitions core (family Den), see harness/flowsem.py.

tie    : correspondence supp names_at per read == Den at_ (lean/SuppModel/Den/Model.lean via drv_den), module and
         function level; executable Sem (run) == instrumented CPython trace
         real MergedDict == MDict model (lean/SuppModel/MDict/Model.lean via drv_mdict) on generated chains, all lengths
search : real supp vs real CPython on every decision sequence of generated programs
"""
from . import flowsem, mdict


def run(check):
    flowsem.run_property(check, 'C02')
    # executed corpus (c01_exec.py): a singly-bound name CPython reads was read from that binding -- not unused, listed by go-to-definition
    from . import c01_exec, flowgraph
    check.cov['evaluations'] = check.cov.get('evaluations', 0) + c01_exec.run_c02(check, flowgraph.load_supp())
    # the lookup chain itself (supp/merged_dict.py): the first table that has the name answers, for every chain length and
    # nesting (family MDict, lean/SuppModel/Props/MDict.lean); after the Den streams so that they draw the same random numbers
    mdict.run(check)


def replay(path):
    return flowsem.replay_file('C02', path)
