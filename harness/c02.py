"""C02 — reaching-definitions core (family Den), see harness/flowsem.py.

tie    : correspondence supp names_at per read == Den at_ (lean/SuppModel/Den/Model.lean via drv_den), module and
         function level; executable Sem (run) == instrumented CPython trace
search : real supp vs real CPython on every decision sequence of generated programs
"""
from . import flowsem


def run(check):
    flowsem.run_property(check, 'C02')


def replay(path):
    return flowsem.replay_file('C02', path)
