"""Extract family - the tie between `nast.extract` (the real extractor) and its Lean transliteration
(lean/SuppModel/Extract/Model.lean, driver `drv_extract`).

For a Python source:  real side  = `extract_scope(Source(src, fname), project)`; the graph it built is read through
harness/flowgraph.py (`GraphView`, unchanged) and renumbered canonically (flows and scopes by creation
order - which is what GraphView already does -, a name by (flow, index in `_names`), a loop edge by the flow
that holds it), plus what GraphView does not carry: declared_at / class / constructor arguments of every name,
`scope.globals`, `len(scope.returns)`, `_attr_assigns`, `_imports`, and the `.flow` attribute the extractor
left on `ast.Name` nodes (reads and bound targets).
                      model side = `drv_extract` on the generically serialised `ast.parse(src)` + `Source.lines`
+ for every star-imported module name what the REAL project resolves it to (parameter of the model).
Both are compared EXACTLY.  A crash of the real extractor is recorded and compared by exception class only.

Library: `stream(check, S, programs, name)` (called from c01.py / c13.py).  Standalone:
    /venv/bin/python -m harness.extractcorr [--tier quick|thorough] [--seed N]
"""
import ast
import glob
import json
import os
import random
import shutil
import sys
import sysconfig
import time

from . import common, flowgraph, pygen

DRIVER = 'drv_extract'


# --------------------------------------------------------------------------- the serialised ast

def ser(v, kinds=None):
    """generic serialisation: node = {"k": class, "p": [lineno, col_offset] | null, "n": [fields], "v": [values]}
    with the fields in `_fields` order; ctx -> class name; a Constant's value -> its type name"""
    if isinstance(v, ast.AST):
        k = type(v).__name__
        if kinds is not None:
            kinds[k] = kinds.get(k, 0) + 1
        names, vals = [], []
        if k in ('Import', 'ImportFrom') and all(hasattr(a, 'end_lineno') and hasattr(a, 'end_col_offset') for a in v.names):
            # SourceScope.alias_start reads the END position of an alias: carried as positioned pseudo-nodes, BEFORE the real
            # fields (get_expr_end must still end at the last alias), so that they move with the layout like every position
            names.append('alias_ends')
            vals.append([{'k': '_AliasEnd', 'p': [a.end_lineno, a.end_col_offset], 'n': [], 'v': []} for a in v.names])
            if kinds is not None:
                kinds['_AliasEnd'] = kinds.get('_AliasEnd', 0) + len(v.names)
        for f in v._fields:
            if not hasattr(v, f):
                continue            # an absent optional attribute stays absent (getattr default / hasattr in the code)
            x = getattr(v, f)
            names.append(f)
            if isinstance(x, ast.expr_context):
                vals.append(type(x).__name__)
            elif k == 'Constant' and f == 'value':
                vals.append(type(x).__name__)
            else:
                vals.append(ser(x, kinds))
        p = [v.lineno, v.col_offset] if hasattr(v, 'lineno') and hasattr(v, 'col_offset') else None
        return {'k': k, 'p': p, 'n': names, 'v': vals}
    if isinstance(v, list):
        return [ser(x, kinds) for x in v]
    if v is None or isinstance(v, (str, bool)):
        return v
    if isinstance(v, int):
        return v
    return type(v).__name__    # bytes / float / complex / Ellipsis never occur outside Constant.value


def star_modules(S, tree, project, fname):
    """for every `from M import *` of the tree: what the REAL project makes of M -> [[M, [keys of module._attrs]]]
    (absent = ImportError, as resolve_star_imports treats it)"""
    out, seen = [], set()
    for n in ast.walk(tree):
        if isinstance(n, ast.ImportFrom) and any((a.asname or a.name) == '*' for a in n.names):
            m = '.' * n.level + (n.module or '')
            if m in seen:
                continue
            seen.add(m)
            try:
                mod = project.get_nmodule(m, fname)
                out.append([m, list(mod._attrs)])
            except ImportError:
                pass
    return out


# --------------------------------------------------------------------------- canonical forms

def name_record(gv, n):
    r = {'name': n.name, 'loc': list(n.location), 'scope': gv.scope_id(n.scope), 'kind': type(n).__name__,
         'decl': list(n.declared_at)}
    if r['kind'] == 'ImportedName':
        r.update({'module': n.module, 'mname': n.mname, 'star': bool(n.is_star), 'qualified': bool(n.qualified)})
    elif r['kind'] == 'ArgumentName':
        r['idx'] = n.idx[0] if n.idx else None
    return r


def real_canon(S, gv, tree):
    sc = S['scope']
    top = gv.top
    flows = []
    for f in top._all_flows:
        parents = []
        for p in f.parents:
            if isinstance(p, sc.LoopFlow):
                parents.append(['l', gv.flow_id(f), gv.flow_id(p.parent)])
            else:
                parents.append(['f', gv.flow_id(p)])
        flows.append({'scope': gv.scope_id(f.scope), 'names': [name_record(gv, n) for n in f._names], 'parents': parents})
    scopes = []
    for i, s in enumerate(gv.scope_id.objs):
        if isinstance(s, sc.BuiltinScope):
            scopes.append({'kind': 'builtin', 'parent': None, 'locals': [], 'globals_decl': [], 'nonlocals_decl': [], 'final': 0, 'returns': 0})
            continue
        kind = 'module' if isinstance(s, sc.SourceScope) else 'class' if isinstance(s, sc.ClassScope) else 'func'
        scopes.append({'kind': kind, 'parent': gv.scope_id(s.parent) if s.parent is not None else None,
                       'locals': sorted(s.locals), 'globals_decl': sorted(s.globals), 'nonlocals_decl': sorted(getattr(s, 'nonlocals', ())),
                       'final': gv.flow_id(s.flow),
                       'returns': len(getattr(s, 'returns', []))})
    attrs = []
    for n in ast.walk(tree):
        if isinstance(n, ast.Name) and hasattr(n, 'flow'):
            fid = gv.flow_id.d.get(id(n.flow))
            attrs.append([[n.lineno, n.col_offset], n.id, fid if fid is not None else 'foreign'])
    return {'flows': flows, 'scopes': scopes,
            'globals': [name_record(gv, n) for n in top._global_names.values()],
            'flow_attrs': sorted(attrs),
            'attr_assigns': [[gv.scope_id(s), [a.lineno, a.col_offset]] for s, a, _v in top._attr_assigns],
            'imports': list(top._imports)}


def model_canon(rep):
    def nm(n):
        n = dict(n)
        n.pop('id', None)
        return n
    flows = [{'scope': f['scope'], 'names': [nm(n) for n in f['names']], 'parents': f['parents']} for f in rep['flows']]
    scopes = [{'kind': s['kind'], 'parent': s['parent'], 'locals': sorted(s['locals']),
               'globals_decl': sorted(s['globals_decl']), 'nonlocals_decl': sorted(s.get('nonlocals_decl', [])),
               'final': s['final'], 'returns': s['returns']} for s in rep['scopes']]
    last = {}
    for p, i, f in rep['flow_attrs']:      # `name.flow = ...`: the last write counts
        last[(tuple(p) if p else None, i)] = f
    return {'flows': flows, 'scopes': scopes, 'globals': [nm(n) for n in rep['globals']],
            'flow_attrs': sorted([list(k[0]), k[1], f] for k, f in last.items()),
            'attr_assigns': rep['attr_assigns'], 'imports': rep['imports']}


def first_diff(a, b, path=''):
    if type(a) != type(b):
        return '%s: real %r / model %r' % (path, a, b)
    if isinstance(a, dict):
        for k in sorted(set(a) | set(b)):
            if k not in a or k not in b:
                return '%s.%s: only on one side' % (path, k)
            d = first_diff(a[k], b[k], path + '.' + k)
            if d:
                return d
        return None
    if isinstance(a, list):
        if len(a) != len(b):
            return '%s: lengths real %d / model %d; real %s / model %s' % (path, len(a), len(b), json.dumps(a)[:300], json.dumps(b)[:300])
        for i, (x, y) in enumerate(zip(a, b)):
            d = first_diff(x, y, '%s[%d]' % (path, i))
            if d:
                return d
        return None
    return None if a == b else '%s: real %r / model %r' % (path, a, b)


# --------------------------------------------------------------------------- one stream

def special_kinds():
    return set(common.ask_driver([{'op': 'kinds'}], exe=DRIVER)[0]['special'])


def stream(check, S, programs, name='extract', tmp=None, batch=40):
    """programs: [(label, src)].  One obligation `correspondence <name>`; statistics -> check.extra[name].
    Returns the statistics dict."""
    own_tmp = tmp is None
    if own_tmp:
        tmp = '/tmp/verif-extract-%d' % os.getpid()
        os.makedirs(tmp, exist_ok=True)
    with open(os.path.join(tmp, 'starmod.py'), 'w') as f:      # something `from starmod import *` resolves to
        f.write('a = 1\n_hidden = 2\ndef c(): pass\nclass D: pass\nimport os as e\n')
    project = S['project'].Project([tmp])
    fname = os.path.join(tmp, 'm.py')
    special = special_kinds()
    visit_methods = set(k[6:] for k in vars(S['nast'].extract_visitor) if k.startswith('visit_') and k != 'visit_in_flow')
    stats = {'programs': 0, 'compared': 0, 'agree': 0, 'real_crashes': {}, 'both_crash': 0, 'well_shaped': 0,
             'with_type_params': 0, 'wf': 0, 'sorted': 0, 'flows': 0, 'names': 0, 'reads': 0, 'scopes': 0,
             'skipped_too_deep': 0, 'stars_resolved': 0, 'kinds': {}, 'kinds_generic': []}
    problems = []
    # a visit method the model has no case for (or the reverse) breaks the tie
    if visit_methods - special:
        problems.append('visit methods without a model case: %s' % sorted(visit_methods - special))
    if special - visit_methods:
        problems.append('model cases without a visit method: %s' % sorted(special - visit_methods))
    pending = []

    def flush():
        if not pending:
            return
        replies = common.ask_driver([p[0] for p in pending], exe=DRIVER)
        for (req, label, real, src), rep in zip(pending, replies):
            stats['compared'] += 1
            if 'driver_error' in rep:
                problems.append('%s: driver error %s' % (label, rep['driver_error']))
                continue
            stats['well_shaped'] += bool(rep.get('wellShaped'))
            stats['with_type_params'] += not rep.get('noTypeParams', True)
            if isinstance(real, str):       # the real extractor crashed
                if rep['ok']:
                    problems.append('%s: real extractor raised %s, the model returned a graph' % (label, real))
                elif rep['error'] != real:
                    problems.append('%s: real extractor raised %s, the model %s' % (label, real, rep['error']))
                else:
                    stats['both_crash'] += 1
                    stats['agree'] += 1
                continue
            if not rep['ok']:
                problems.append('%s: the model raised %s, the real extractor returned a graph' % (label, rep['error']))
                continue
            if not rep.get('wellShaped'):
                problems.append('%s: a tree of the real parser is not well-shaped' % label)
            stats['wf'] += bool(rep['wf'])
            stats['sorted'] += bool(rep['sorted'])
            if not rep['wf'] or not rep['sorted']:
                problems.append('%s: extracted graph wf=%s sorted=%s' % (label, rep['wf'], rep['sorted']))
            m = model_canon(rep)
            d = first_diff(real, m)
            if d:
                problems.append('%s: %s' % (label, d))
                if len(problems) <= 3:
                    common.log('[extract] DISAGREEMENT %s: %s\n%s' % (label, d, src[:600]))
            else:
                stats['agree'] += 1
            stats['flows'] += len(m['flows'])
            stats['scopes'] += len(m['scopes'])
            stats['names'] += sum(len(f['names']) for f in m['flows'])
            stats['reads'] += len(m['flow_attrs'])
        del pending[:]

    old_limit = sys.getrecursionlimit()
    sys.setrecursionlimit(max(old_limit, 6000))
    try:
        for label, src in programs:
            stats['programs'] += 1
            try:
                source = S['util'].Source(src, fname)
                tree = source.tree
                lines = source.lines
                node = ser(tree, stats['kinds'])
                mods = star_modules(S, tree, project, fname)
                stats['stars_resolved'] += len(mods)
            except RecursionError:
                stats['skipped_too_deep'] += 1
                continue
            except SyntaxError:
                continue
            try:
                scope = S['nast'].extract_scope(source, project)
                real = real_canon(S, flowgraph.GraphView(S, scope), tree)
            except RecursionError:
                stats['skipped_too_deep'] += 1
                continue
            except Exception as e:
                real = type(e).__name__
                stats['real_crashes'][label] = real
            pending.append(({'op': 'extract', 'ast': node, 'lines': lines, 'mods': mods}, label, real, src))
            if len(pending) >= batch:
                flush()
        flush()
    finally:
        sys.setrecursionlimit(old_limit)
        if own_tmp:
            shutil.rmtree(tmp, ignore_errors=True)
    stats['kinds_generic'] = sorted(k for k in stats['kinds'] if k not in special)
    stats['kinds_special'] = sorted(k for k in stats['kinds'] if k in special)
    ok = not problems and stats['compared'] > 0
    check.oblige('correspondence %s' % name, ok,
                 '; '.join(problems[:5]) if problems else '')
    stats['disagreements'] = len(problems)
    check.extra[name] = stats
    return stats


# --------------------------------------------------------------------------- layout pairs (C13 at extractor level)

def layout_pairs(pairs):
    """pairs: [(src1, src2)], two layouts of one program (identical ast.dump).  For each pair the driver evaluates
    `layoutPairOK` (lean/SuppModel/Extract/LayoutPair.lean) on the two serialised trees, in both directions - the
    conclusion of `extract_C13` (equal tables at corresponding Name nodes) is symmetric, and a position shared by two
    nodes in one layout only (`x` / `(x)`) makes the position map a function in one direction only.
    -> [{'ok': bool, 'direction': 'forward' | 'reverse' | None, 'forward': reply, 'reverse': reply}]"""
    reqs = []
    for a, b in pairs:
        t1, t2 = ser(ast.parse(a)), ser(ast.parse(b))
        reqs.append({'op': 'layoutPair', 'ast1': t1, 'ast2': t2})
        reqs.append({'op': 'layoutPair', 'ast1': t2, 'ast2': t1})
    reps = common.ask_driver(reqs, exe=DRIVER)
    out = []
    for i in range(0, len(reps), 2):
        f, r = reps[i], reps[i + 1]
        d = 'forward' if f.get('ok') else 'reverse' if r.get('ok') else None
        out.append({'ok': d is not None, 'direction': d, 'forward': f, 'reverse': r})
    return out


def mark_pairs(cases, mark_len=13):
    """cases: [(src, marked_src, (line, col))] - a source, the text supp analyses for a cursor at (line, col)
    (`Source(src, fname, position).source`), the cursor.  The driver checks that the REAL marked tree is `markTree`
    (lean/SuppModel/Extract/Rename.lean) of the real unmarked tree for exactly one renamed `Name`, and evaluates
    `markOK` - the hypotheses of `C12_mark_transparent`.  -> the replies:
    {'ok', 'p', 'newId', 'equal', 'renQ', 'layoutPair', 'cursorOK', 'nameFixed'} or {'ok': False, 'why': ...}"""
    reqs = [{'op': 'markPair', 'ast': ser(ast.parse(a)), 'marked': ser(ast.parse(m)), 'cursor': list(pos), 'mark_len': mark_len}
            for a, m, pos in cases]
    return common.ask_driver(reqs, exe=DRIVER)


def mark_attr_pairs(cases, mark_len=13):
    """cases: [(src, marked_src, (line, col))] for cursors inside / right before an ATTRIBUTE name (`x.re|al`, `x.|y`).
    The driver checks that the REAL marked tree is `markAttrTree` (lean/SuppModel/Extract/RenameAttr.lean) of the real
    unmarked tree for exactly one `Attribute` whose `attr` differs, and evaluates `markAttrOK` - the hypotheses of
    `C12_mark_transparent_attr`.  -> the replies: {'ok', 'p', 'size', 'newAttr', 'equal', 'renQ', 'layoutPair',
    'queries', 'queriesFixed', 'queriesOK'} or {'ok': False, 'why': ...}"""
    reqs = [{'op': 'markAttrPair', 'ast': ser(ast.parse(a)), 'marked': ser(ast.parse(m)), 'cursor': list(pos), 'mark_len': mark_len}
            for a, m, pos in cases]
    return common.ask_driver(reqs, exe=DRIVER)


# --------------------------------------------------------------------------- corpora

SPECIALS = [
    'x = 1\nprint(x)\n',
    'import os.path, sys as s\nfrom . import a\nfrom ..b import c as d, e\nfrom os import *\n',
    'def f(a, /, b, *c, d=1, **e) -> int:\n    global g\n    g = a\n    return b\n',
    'async def f(x: int = 3, *, y: str):\n    async for i, (j, *k) in x:\n        pass\n    else:\n        z = 1\n    async with a as b, c as (d, e.f, g[0]):\n        pass\n    return await z\n',
    'class C(B, metaclass=M):\n    @dec\n    def m(self): return [q for q in self]\n    x: int = 3\n    y: str\n    self.z: int = 4\n',
    'try:\n    a = 1\nexcept E as e:\n    b = e\nexcept (F, G):\n    pass\nelse:\n    c = 2\nfinally:\n    d = 3\n',
    'try:\n    a = 1\nexcept* E as e:\n    b = e\n',
    'while (n := f()) > 0:\n    if n: break\n    continue\nelse:\n    m = n\n',
    'r = {k: v for k, v in d.items() if k if v}\ns = {a for a.b in c}\ng = (i for i in j for j in i)\n',
    '*(a, b), c = range(3)\nfor *(a, b), c in []: pass\n[a for *(a, b), c in []]\nwith x as (*(a, b), c): pass\n',
    'f = lambda a, *b, c=1, **d: a + c\nx = (lambda: y)()\n',
    'f = lambda *, k: k\ng = lambda a, /, b=1, *, k, l=2, **kw: (a, k)\ndef h(a, /, *, k, l=3): return k\nasync def i(*, k): return k\n',
    'match p:\n    case [a, b] if a:\n        print(b)\n    case {"k": v, **rest}:\n        pass\n    case C(x=1) | D():\n        pass\n',
    'def f[T: int](x: T) -> T:\n    return x\nclass K[T]:\n    pass\ntype A[T] = list[T]\n',
    'def f():\n    @d\n    def g(): pass\n    return g\nfor i in x:\n    @d\n    class Q: pass\n',
    'x = 1; y = x if x else 2; del x\nassert y, "m"\nraise E from y\n',
    'a = b = c, d = 1, 2\na.b = c[0] = 3\nx += 1\nprint(f"{a!r:>{b}}")\n',
    'return 3\nglobal q\nq = 1\nnonlocal_ = 1\n',
    'def o():\n    v = 0\n    def i():\n        print(v)\n        nonlocal v, w\n        v = v + 1\n        for w in v: pass\n        return [v for v in w]\n    w = 2\n    return i\n',
    'def o():\n    v = 0\n    class K:\n        nonlocal v\n        v = 1\n        def m(self):\n            global v\n            nonlocal v\n            v = 2\n    import v\n',
    'from mod.x import y as mod\nimport o as o, os.path as p\nfrom a import (\nb, c as d,\n    e)\nx = "é€"; import os as o; from é import ü as é\nfrom . import *\n',
    '',
    'v = 1\ndef f(a=v, /, b=v, *c, d=v, e: v = v, **g: v) -> v:\n    pass\nh = lambda a=v, *, b=v: a\n',
    'def f():\n    """doc"""\n',
    'from starmod import *\nprint(a, c, D, e)\ndef f():\n    global a\n    from starmod import *\n    from nowhere import *\n',
    'class A(f([x for x in y])):\n    pass\nwhile [t for t in u]:\n    pass\n@dec([p for p in q])\ndef g(a=[r for r in s]): pass\n',
    'def f():\n    global x, y\n    x = 1\n    def x(): pass\n    class y: pass\n    import x\n    for x in y: pass\n    with a as x: pass\n    [x for x in y]\n    (x := 2)\n    x: int = 3\n',
]


# `nonlocal` / `global` declarations against every binding form (Flow.add_name's three branches), declaration before or after
_BINDS = ['v = 1', 'v += 1', 'for v in s: pass', 'with s as v: pass', 'import v', 'from m import a as v', 'def v(): pass',
          'class v: pass', 'print(v := 2)', 'try: pass\nexcept E as v: pass', 'v: int = 3', '[v for v in s]', 'lambda v: v']
SPECIALS += ['def o(s):\n    v = 0\n    def i():\n        print(v)\n%s%s%s        return v\n    return i, v\n' % (
                 ('        %s v\n' % decl) if first else '', ''.join('        %s\n' % ln for ln in b.split('\n')),
                 '' if first else '        %s v\n' % decl)
             for decl in ('nonlocal', 'global') for first in (True, False) for b in _BINDS]


def generated(rng, n):
    out = []
    for i in range(4 * n):
        g = pygen.Gen(rng, depth=rng.choice([2, 3, 4]), loops=rng.choice([0.5, 1.0]))
        src = g.program()
        if pygen.valid(src):
            out.append(('gen%d' % i, src))
            if len(out) >= n:
                break
    return out


def files(paths, limit=200000):
    out = []
    for fn in paths:
        try:
            src = open(fn, encoding='utf-8').read()
            ast.parse(src)
        except Exception:
            continue
        if len(src) < limit:
            out.append(('file:' + os.path.relpath(fn, '/'), src))
    return out


def repo_files():
    return files(sorted(glob.glob(os.path.join(common.REPO, '**', '*.py'), recursive=True)))


def stdlib_files(rng, n):
    root = sysconfig.get_paths()['stdlib']
    std = sorted(glob.glob(os.path.join(root, '*.py')) + glob.glob(os.path.join(root, '*', '*.py')))
    std = [f for f in std if '/site-packages/' not in f and '/lib2to3/tests/' not in f]
    return files(rng.sample(std, min(n, len(std))))


class _StandaloneCheck(object):
    def __init__(self, tier, seed):
        self.tier, self.rng, self.extra, self.obligations = tier, random.Random(seed), {}, []

    def oblige(self, name, ok, detail=''):
        self.obligations.append((name, ok, detail))
        print('%s %s %s' % ('ok    ' if ok else 'BROKEN', name, detail[:3000]))


def main(argv):
    tier = 'thorough' if 'thorough' in argv else 'quick'
    seed = int(argv[argv.index('--seed') + 1]) if '--seed' in argv else 0
    check = _StandaloneCheck(tier, seed)
    S = flowgraph.load_supp()
    quick = tier == 'quick'
    t0 = time.time()
    for name, progs in (('extract specials', [('special%d' % i, s) for i, s in enumerate(SPECIALS)]),
                        ('extract generated', generated(check.rng, 300 if quick else 3000)),
                        ('extract repo files', repo_files()),
                        ('extract stdlib sample', stdlib_files(check.rng, 30 if quick else 300))):
        st = stream(check, S, progs, name)
        brief = {k: v for k, v in st.items() if k not in ('kinds', 'kinds_generic', 'kinds_special')}
        print('   %s  [%.1fs]' % (json.dumps(brief), time.time() - t0))
    kinds = {}
    for st in check.extra.values():
        for k, v in st['kinds'].items():
            kinds[k] = kinds.get(k, 0) + v
    special = special_kinds()
    print('node kinds seen: %d classes, %d nodes' % (len(kinds), sum(kinds.values())))
    print('  with a visit method / model case: ' + ', '.join('%s %d' % (k, kinds[k]) for k in sorted(kinds) if k in special))
    print('  generic_visit: ' + ', '.join('%s %d' % (k, kinds[k]) for k in sorted(kinds) if k not in special))
    return 0 if all(ok for _, ok, _ in check.obligations) else 1


if __name__ == '__main__':
    sys.exit(main(sys.argv[1:]))
