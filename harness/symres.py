"""The CPython compiler's name resolution, written from the language reference (section 4.2 "Naming and
binding") and cross-checked against the `symtable` module by the callers: for every identifier read,
the scope that OWNS the binding the read refers to.

Comprehensions are their own scopes, as in the compiler.  Owners are reported as
('function', node) | ('class', node) | ('comp', node) | ('module',) | ('global-or-builtin',)."""
import ast

COMPS = (ast.ListComp, ast.SetComp, ast.DictComp, ast.GeneratorExp)
FUNCS = (ast.FunctionDef, ast.AsyncFunctionDef, ast.Lambda)


class Scope(object):
    def __init__(self, kind, node, parent):
        self.kind = kind          # module | function | class | comp
        self.node = node
        self.parent = parent
        self.bound = set()
        self.strong = set()       # bound by something other than an augmented assignment / del
        self.weak = set()         # bound by `x += ...` or `del x`
        self.globals = set()
        self.nonlocals = set()
        self.reads = []           # (ast.Name, ) read directly in this scope

    def owner_key(self):
        return ('module',) if self.kind == 'module' else (self.kind, self.node)


def target_names(t, out):
    if isinstance(t, ast.Name):
        out.append(t.id)
    elif isinstance(t, (ast.Tuple, ast.List)):
        for e in t.elts:
            target_names(e, out)
    elif isinstance(t, ast.Starred):
        target_names(t.value, out)
    return out


class Builder(ast.NodeVisitor):
    def __init__(self, tree):
        self.module = Scope('module', tree, None)
        self.cur = self.module
        self.scope_of_read = {}
        self.scopes = [self.module]
        for st in tree.body:
            self.visit(st)

    # --- helpers
    def bind(self, name, scope=None, weak=False):
        s = scope or self.cur
        s.bound.add(name)
        (s.weak if weak else s.strong).add(name)

    def visit_AugAssign(self, node):
        self.visit(node.value)
        if isinstance(node.target, ast.Name):
            self.bind(node.target.id, weak=True)
        else:
            self.visit_targets_reads(node.target)

    def visit_Delete(self, node):
        for t in node.targets:
            if isinstance(t, ast.Name):
                self.bind(t.id, weak=True)
            else:
                self.visit_targets_reads(t)

    def binding_scope_for_walrus(self):
        s = self.cur
        while s.kind == 'comp':
            s = s.parent
        return s

    def new(self, kind, node):
        s = Scope(kind, node, self.cur)
        self.scopes.append(s)
        return s

    def within(self, scope, nodes):
        prev = self.cur
        self.cur = scope
        for n in nodes:
            if n is not None:
                self.visit(n)
        self.cur = prev

    # --- reads / binds
    def visit_Name(self, node):
        if isinstance(node.ctx, ast.Load):
            self.cur.reads.append(node)
            self.scope_of_read[id(node)] = self.cur
        elif isinstance(node.ctx, (ast.Store, ast.Del)):
            self.bind(node.id)

    def visit_NamedExpr(self, node):
        self.visit(node.value)
        self.bind(node.target.id, self.binding_scope_for_walrus())

    def visit_Global(self, node):
        self.cur.globals.update(node.names)

    def visit_Nonlocal(self, node):
        self.cur.nonlocals.update(node.names)

    def visit_Import(self, node):
        for a in node.names:
            self.bind(a.asname or a.name.partition('.')[0])

    def visit_ImportFrom(self, node):
        for a in node.names:
            if a.name != '*':
                self.bind(a.asname or a.name)

    def visit_ExceptHandler(self, node):
        if node.type:
            self.visit(node.type)
        if node.name:
            self.bind(node.name)
        for st in node.body:
            self.visit(st)

    def visit_arguments(self, args, into):
        for a in getattr(args, 'posonlyargs', []) + args.args + args.kwonlyargs:
            into.bound.add(a.arg)
            into.strong.add(a.arg)
        for a in (args.vararg, args.kwarg):
            if a:
                into.bound.add(a.arg)
                into.strong.add(a.arg)

    def outer_exprs_of_args(self, args):
        out = list(args.defaults) + [d for d in args.kw_defaults if d is not None]
        for a in getattr(args, 'posonlyargs', []) + args.args + args.kwonlyargs + [args.vararg, args.kwarg]:
            if a is not None and a.annotation is not None:
                out.append(a.annotation)
        return out

    def visit_FunctionDef(self, node):
        for d in node.decorator_list:
            self.visit(d)
        for e in self.outer_exprs_of_args(node.args):
            self.visit(e)
        if node.returns:
            self.visit(node.returns)
        self.bind(node.name)
        s = self.new('function', node)
        self.visit_arguments(node.args, s)
        self.within(s, node.body)

    visit_AsyncFunctionDef = visit_FunctionDef

    def visit_Lambda(self, node):
        for e in self.outer_exprs_of_args(node.args):
            self.visit(e)
        s = self.new('function', node)
        self.visit_arguments(node.args, s)
        self.within(s, [node.body])

    def visit_ClassDef(self, node):
        for d in node.decorator_list:
            self.visit(d)
        for b in node.bases:
            self.visit(b)
        for k in node.keywords:
            self.visit(k.value)
        self.bind(node.name)
        s = self.new('class', node)
        self.within(s, node.body)

    def visit_comp(self, node):
        gens = node.generators
        self.visit(gens[0].iter)            # evaluated in the enclosing scope
        s = self.new('comp', node)
        prev = self.cur
        self.cur = s
        for i, g in enumerate(gens):
            if i:
                self.visit(g.iter)
            for n in target_names(g.target, []):
                s.bound.add(n)
                s.strong.add(n)
            self.visit_targets_reads(g.target)
            for c in g.ifs:
                self.visit(c)
        if isinstance(node, ast.DictComp):
            self.visit(node.key)
            self.visit(node.value)
        else:
            self.visit(node.elt)
        self.cur = prev

    visit_ListComp = visit_SetComp = visit_DictComp = visit_GeneratorExp = visit_comp

    def visit_targets_reads(self, t):
        """reads hidden inside a target such as `a.b` or `d[k]`"""
        for n in ast.walk(t):
            if isinstance(n, ast.Name) and isinstance(n.ctx, ast.Load):
                self.visit_Name(n)


def resolve(scope, name):
    """-> owner key of the binding a read of `name` made directly in `scope` refers to"""
    s = scope
    if name in s.globals:
        return ('global-or-builtin',)
    first = True
    want_nonlocal = name in s.nonlocals
    while s is not None:
        if s.kind == 'module':
            return ('global-or-builtin',)
        if not first and name in s.globals and s.kind in ('function',):
            return ('global-or-builtin',)
        bound_here = name in s.bound and name not in s.globals and name not in s.nonlocals
        if first:
            if bound_here and not want_nonlocal:
                return s.owner_key()
        else:
            # class scopes are skipped when looking for free variables
            if s.kind in ('function', 'comp') and bound_here:
                return s.owner_key()
        first = False
        s = s.parent
    return ('global-or-builtin',)


def analyse(tree):
    """-> (builder, {id(ast.Name read): owner key})"""
    b = Builder(tree)
    owners = {}
    for s in b.scopes:
        for n in s.reads:
            owners[id(n)] = resolve(s, n.id)
    return b, owners


def symtable_crosscheck(src, builder):
    """compare our local/free/global classification with the symtable module for every function and
    class scope identified unambiguously by (name, lineno) -> list of mismatches"""
    import symtable
    try:
        top = symtable.symtable(src, '<c05>', 'exec')
    except (SyntaxError, ValueError, RecursionError):
        return []
    tables = {}

    def walk(t):
        tables.setdefault((t.get_type().__str__().split('.')[-1].lower().replace('tabletype.', ''), t.get_name(), t.get_lineno()), []).append(t)
        for c in t.get_children():
            walk(c)
    walk(top)
    out = []
    for s in builder.scopes:
        if s.kind not in ('function', 'class') or isinstance(s.node, ast.Lambda):
            continue
        key = (s.kind, s.node.name, s.node.lineno)
        ts = tables.get(key, [])
        if len(ts) != 1:
            continue
        t = ts[0]
        for n in set(r.id for r in s.reads):
            try:
                sym = t.lookup(n)
            except KeyError:
                continue
            own = resolve(s, n)
            if sym.is_local() and not sym.is_global() and not sym.is_free():
                ok = own == s.owner_key()
            elif sym.is_free():
                ok = own[0] in ('function', 'comp') and own != s.owner_key()
            elif sym.is_global():
                ok = own == ('global-or-builtin',)
            else:
                ok = True
            if not ok:
                out.append((key, n, own))
    return out
