"""Serialise the flow graph the REAL extractor built (supp.nast.extract_scope) into the JSON the
Lean graph model (lean/SuppModel/Flow/Graph.lean) reads, and canonicalise real `names_at` answers.

Nothing here interprets the graph: it copies object structure (flows, their `_names`, their
`parents`, scopes with `locals` / `parent` / final `flow`, `_global_names`) and replaces object
identity by small integers.
"""
import os
import sys

from . import common


def load_supp():
    """import supp from common.REPO, dropping any cached copy -> dict of modules"""
    for k in [k for k in sys.modules if k == 'supp' or k.startswith('supp.')]:
        del sys.modules[k]
    if sys.path[0] != common.REPO:
        sys.path.insert(0, common.REPO)
    import logging
    logging.disable(logging.CRITICAL)
    import supp.scope, supp.nast, supp.util, supp.name, supp.project, supp.linter, supp.assistant, supp.evaluator  # noqa
    mods = {m.split('.')[-1]: sys.modules[m] for m in sys.modules if m.startswith('supp.')}
    assert os.path.realpath(mods['scope'].__file__).startswith(os.path.realpath(common.REPO)), mods['scope'].__file__
    return mods


class Ids(object):
    def __init__(self):
        self.d = {}
        self.objs = []

    def __call__(self, obj):
        k = id(obj)
        if k not in self.d:
            self.d[k] = len(self.objs)
            self.objs.append(obj)
        return self.d[k]


class GraphView(object):
    """the serialised graph of one analysed source + what is needed to query it"""

    def __init__(self, S, scope):
        self.S = S
        self.top = scope
        self.flow_id = Ids()
        self.scope_id = Ids()
        self.name_id = Ids()
        self.loop_id = Ids()
        sc = S['scope']
        self.scope_id(sc.builtin_scope)
        flows = []
        for f in scope._all_flows:
            self.flow_id(f)
        scopes_seen = []

        def visit_scope(s):
            if id(s) in [id(x) for x in scopes_seen]:
                return
            scopes_seen.append(s)
            self.scope_id(s)
            p = getattr(s, 'parent', None)
            if p is not None:
                visit_scope(p)
        visit_scope(scope)
        for f in scope._all_flows:
            visit_scope(f.scope)
        for f in scope._all_flows:
            parents = []
            for p in f.parents:
                if isinstance(p, sc.LoopFlow):
                    parents.append(['l', self.loop_id(p), self.flow_id(p.parent)])
                else:
                    parents.append(['f', self.flow_id(p)])
            flows.append({'id': self.flow_id(f), 'scope': self.scope_id(f.scope),
                          'names': [self.name_rec(n) for n in f._names], 'parents': parents})
        scopes = []
        for s in scopes_seen:
            if isinstance(s, sc.BuiltinScope):
                scopes.append({'id': self.scope_id(s), 'kind': 'builtin', 'parent': None, 'locals': [], 'final': 0, 'globals': []})
                continue
            kind = 'module' if isinstance(s, sc.SourceScope) else 'class' if isinstance(s, sc.ClassScope) else 'func'
            scopes.append({'id': self.scope_id(s), 'kind': kind,
                           'parent': self.scope_id(s.parent) if s.parent is not None else None,
                           'locals': sorted(s.locals), 'final': self.flow_id(s.flow),
                           'globals': [self.name_rec(n) for n in s._global_names.values()] if kind == 'module' else []})
        self.json = {'flows': flows, 'scopes': scopes, 'builtins': sorted(sc.builtin_scope.names)}

    def name_rec(self, n):
        return {'id': self.name_id(n), 'name': n.name, 'loc': list(n.location), 'scope': self.scope_id(n.scope)}

    # -- canonical answers of the real code
    def canon_value(self, v):
        nm = self.S['name']
        if v is None:
            return None
        if isinstance(v, nm.MultiName):
            return sorted(self.canon_alt(a) for a in v.alt_names)
        return [self.canon_alt(v)]

    def canon_alt(self, a):
        nm = self.S['name']
        if isinstance(a, nm.UndefinedName):
            return ['undef', str(a)]
        if isinstance(a, nm.RuntimeName):
            return ['rt', a.name]
        if id(a) not in self.name_id.d:
            return ['foreign', repr(a)]
        return ['nm', self.name_id(a)]

    def content_key(self, alt):
        """['nm', id] -> a key that identifies the binding across independent analyses of the same source"""
        if alt[0] != 'nm':
            return alt
        n = self.name_id.objs[alt[1]]
        return name_key(n)

    def content_answer(self, ans):
        if ans is None or isinstance(ans, str):
            return ans
        return sorted((self.content_key(a) for a in ans), key=repr)

    def reads(self):
        """(query dict, ast.Name) for every Load name the extractor gave a flow"""
        u = self.S['util']
        out = []
        for n in u.get_name_usages(self.top.source.tree):
            f = getattr(n, 'flow', None)
            if f is not None and id(f) in self.flow_id.d:
                out.append(({'flow': self.flow_id(f), 'pos': list(u.np(n)), 'key': n.id}, n))
        return out

    def real_answer(self, n):
        u = self.S['util']
        try:
            return self.canon_value(n.flow.names_at(u.np(n)).get(n.id))
        except RecursionError:
            return 'RecursionError'


def name_key(n):
    return ['nm', type(n).__name__, n.name, list(n.location), list(getattr(n, 'declared_at', None) or ())]


def light_answers(S, src, filename, project, indices=None, order=None):
    """a fresh analysis without serialisation: content-keyed answers of names_at for the reads in `order`
    (a list of read indices, queried in that order on ONE scope) -> list of answers in that order"""
    u = S['util']
    nm = S['name']
    source = u.Source(src, filename)
    S['nast'].extract_scope(source, project)
    reads = [n for n in u.get_name_usages(source.tree) if getattr(n, 'flow', None) is not None]
    out = []
    for i in order:
        n = reads[i]
        try:
            v = n.flow.names_at(u.np(n)).get(n.id)
        except RecursionError:
            out.append('RecursionError')
            continue
        if v is None:
            out.append(None)
            continue
        alts = v.alt_names if isinstance(v, nm.MultiName) else [v]
        ans = []
        for a in alts:
            if isinstance(a, nm.UndefinedName):
                ans.append(['undef', str(a)])
            elif isinstance(a, nm.RuntimeName):
                ans.append(['rt', a.name])
            else:
                ans.append(name_key(a))
        out.append(sorted(ans, key=repr))
    return out


def canon_model(ans):
    if ans is None or isinstance(ans, str):
        return ans
    return sorted(ans)


def analyse(S, src, filename, project):
    source = S['util'].Source(src, filename)
    scope = S['nast'].extract_scope(source, project)
    return GraphView(S, scope)
