"""C14 — MessagePack codec.

tie    : translator (format chains + dispatch table -> Generated/Msgpack.lean, proofs re-checked)
         + correspondence model `dumps/loads` vs supp.umsgpack on the same inputs
search : the real codec against an independent reference codec written from the specification
"""
import json
import os
import struct
import sys

from . import common
from .common import REPO

sys.path.insert(0, os.path.join(common.VERIF, 'translators'))
import tr_msgpack  # noqa: E402


# ----------------------------------------------------------------------------- values <-> JSON

class Opaque(object):
    def __repr__(self):
        return 'Opaque()'


def to_json(v, um):
    if v is None or v is True or v is False:
        return v
    if isinstance(v, int):
        return {'i': str(v)}
    if isinstance(v, float):
        return {'f': str(int.from_bytes(struct.pack('>d', v), 'big'))}
    if isinstance(v, str):
        return {'s': v.encode('utf-8').hex()}
    if isinstance(v, bytes):
        return {'b': v.hex()}
    if isinstance(v, list):
        return {'a': [to_json(x, um) for x in v]}
    if isinstance(v, tuple):
        return {'t': [to_json(x, um) for x in v]}
    if isinstance(v, dict):
        return {'m': [[to_json(k, um), to_json(x, um)] for k, x in v.items()]}
    if isinstance(v, um.Ext):
        return {'e': [str(v.type), v.data.hex()]}
    return {'o': 1}


def canon(j):
    """canonical form for comparison: all NaNs are one value"""
    if isinstance(j, dict):
        if 'f' in j:
            bits = int(j['f'])
            if (bits >> 52) & 0x7ff == 0x7ff and bits & ((1 << 52) - 1):
                return {'f': 'nan'}
            return j
        if 'a' in j:
            return {'a': [canon(x) for x in j['a']]}
        if 't' in j:
            return {'t': [canon(x) for x in j['t']]}
        if 'm' in j:
            return {'m': [[canon(k), canon(x)] for k, x in j['m']]}
    return j


def norm_json(j, key=False):
    """what the decoder hands back: tuples as lists outside dict keys"""
    if isinstance(j, dict):
        if 'a' in j or 't' in j:
            xs = j.get('a', j.get('t'))
            return {('t' if key else 'a'): [norm_json(x, key) for x in xs]}
        if 'm' in j:
            return {'m': [[norm_json(k, True), norm_json(x)] for k, x in j['m']]}
    return j


# ----------------------------------------------------------------------------- reference codec (from the spec)

class RefError(Exception):
    pass


def ref_decode(bs, pos=0, key=False):
    """independent decoder written from the MessagePack specification -> (json-value, newpos)"""
    def need(n):
        if pos + n > len(bs):
            raise RefError('short')
    need(1)
    c = bs[pos]
    pos += 1

    def take(n):
        nonlocal pos
        if pos + n > len(bs):
            raise RefError('short')
        r = bs[pos:pos + n]
        pos += n
        return r

    def seq(n):
        nonlocal pos
        out = []
        for _ in range(n):
            x, pos = ref_decode(bs, pos, key)
            out.append(x)
        return {('t' if key else 'a'): out}

    def mp(n):
        nonlocal pos
        out = []
        for _ in range(n):
            k, pos = ref_decode(bs, pos, True)
            x, pos = ref_decode(bs, pos, False)
            out.append([k, x])
        return {'m': out}

    if c <= 0x7f:
        return {'i': str(c)}, pos
    if c <= 0x8f:
        return mp(c & 0x0f), pos
    if c <= 0x9f:
        return seq(c & 0x0f), pos
    if c <= 0xbf:
        return {'s': take(c & 0x1f).hex()}, pos
    if c == 0xc0:
        return None, pos
    if c == 0xc1:
        raise RefError('reserved')
    if c == 0xc2:
        return False, pos
    if c == 0xc3:
        return True, pos
    if c in (0xc4, 0xc5, 0xc6):
        n = int.from_bytes(take(1 << (c - 0xc4)), 'big')
        return {'b': take(n).hex()}, pos
    if c in (0xc7, 0xc8, 0xc9):
        n = int.from_bytes(take(1 << (c - 0xc7)), 'big')
        t = take(1)[0]
        return {'e': [str(t), take(n).hex()]}, pos
    if c == 0xca:
        w = take(4)
        return {'f': str(int.from_bytes(struct.pack('>d', struct.unpack('>f', w)[0]), 'big'))}, pos
    if c == 0xcb:
        return {'f': str(int.from_bytes(take(8), 'big'))}, pos
    if 0xcc <= c <= 0xcf:
        return {'i': str(int.from_bytes(take(1 << (c - 0xcc)), 'big'))}, pos
    if 0xd0 <= c <= 0xd3:
        return {'i': str(int.from_bytes(take(1 << (c - 0xd0)), 'big', signed=True))}, pos
    if 0xd4 <= c <= 0xd8:
        t = take(1)[0]
        return {'e': [str(t), take(1 << (c - 0xd4)).hex()]}, pos
    if 0xd9 <= c <= 0xdb:
        n = int.from_bytes(take(1 << (c - 0xd9)), 'big')
        return {'s': take(n).hex()}, pos
    if c in (0xdc, 0xdd):
        return seq(int.from_bytes(take(2 << (c - 0xdc)), 'big')), pos
    if c in (0xde, 0xdf):
        return mp(int.from_bytes(take(2 << (c - 0xde)), 'big')), pos
    return {'i': str(c - 256)}, pos


def ref_encode(j, rng=None):
    """independent encoder from the spec; with rng: any legal (also non-minimal) format"""
    def pick(cands):
        return cands[0] if rng is None else rng.choice(cands)

    def lenhdr(n, fix, codes):
        c = []
        if fix is not None and n <= fix[1]:
            c.append(bytes([fix[0] | n]))
        for code, w in codes:
            if n < (1 << (8 * w)):
                c.append(bytes([code]) + n.to_bytes(w, 'big'))
        return pick(c)

    if j is None:
        return b'\xc0'
    if j is True:
        return b'\xc3'
    if j is False:
        return b'\xc2'
    if 'i' in j:
        n = int(j['i'])
        c = []
        if 0 <= n <= 127:
            c.append(bytes([n]))
        if -32 <= n < 0:
            c.append(bytes([256 + n]))
        for k, w in enumerate((1, 2, 4, 8)):
            if 0 <= n < (1 << (8 * w)):
                c.append(bytes([0xcc + k]) + n.to_bytes(w, 'big'))
        for k, w in enumerate((1, 2, 4, 8)):
            if -(1 << (8 * w - 1)) <= n < (1 << (8 * w - 1)):
                c.append(bytes([0xd0 + k]) + n.to_bytes(w, 'big', signed=True))
        return pick(c)
    if 'f' in j:
        bits = int(j['f'])
        c = [b'\xcb' + bits.to_bytes(8, 'big')]
        if rng is not None:
            d = struct.unpack('>d', bits.to_bytes(8, 'big'))[0]
            if d == d:
                try:
                    f = struct.pack('>f', d)
                    if struct.unpack('>f', f)[0] == d:
                        c.append(b'\xca' + f)
                except OverflowError:
                    pass
        return pick(c)
    if 's' in j:
        p = bytes.fromhex(j['s'])
        return lenhdr(len(p), (0xa0, 31), ((0xd9, 1), (0xda, 2), (0xdb, 4))) + p
    if 'b' in j:
        p = bytes.fromhex(j['b'])
        return lenhdr(len(p), None, ((0xc4, 1), (0xc5, 2), (0xc6, 4))) + p
    if 'e' in j:
        t, p = int(j['e'][0]), bytes.fromhex(j['e'][1])
        c = []
        if len(p) in (1, 2, 4, 8, 16):
            c.append(bytes([0xd4 + (1, 2, 4, 8, 16).index(len(p)), t]) + p)
        for code, w in ((0xc7, 1), (0xc8, 2), (0xc9, 4)):
            if len(p) < (1 << (8 * w)):
                c.append(bytes([code]) + len(p).to_bytes(w, 'big') + bytes([t]) + p)
        return pick(c)
    if 'a' in j or 't' in j:
        xs = j.get('a', j.get('t'))
        return lenhdr(len(xs), (0x90, 15), ((0xdc, 2), (0xdd, 4))) + b''.join(ref_encode(x, rng) for x in xs)
    if 'm' in j:
        kv = j['m']
        return lenhdr(len(kv), (0x80, 15), ((0xde, 2), (0xdf, 4))) + \
            b''.join(ref_encode(k, rng) + ref_encode(x, rng) for k, x in kv)
    raise ValueError(j)


# ----------------------------------------------------------------------------- generators

INT_BOUNDS = [2 ** 5, 2 ** 7, 2 ** 8, 2 ** 15, 2 ** 16, 2 ** 31, 2 ** 32, 2 ** 63, 2 ** 64]
LEN_BOUNDS_SMALL = [0, 1, 2, 3, 4, 5, 8, 9, 13, 14, 15, 16, 17, 18, 29, 30, 31, 32, 33, 34, 253, 254, 255, 256, 257, 258]
LEN_BOUNDS_BIG = [65533, 65534, 65535, 65536, 65537, 65538]
BIG_MAP = 3000
FLOATS = [0.0, -0.0, 1.0, -1.5, 1e300, 5e-324, float('inf'), float('-inf'), float('nan'), 2.0 ** 53, 0.1, 3.0, 255.0,
          -32.0, 2.0 ** 63, 2.0 ** 64]
STRS = ['', 'a', 'é', '日本語', '\U0001f600', 'x' * 31, 'x' * 32, '\x00', 'é' * 16, '߿ࠀ￿\U00010000\U0010ffff']


_BI = []


def boundary_ints():
    if _BI:
        return _BI
    out = set([0, 1, -1])
    for b in INT_BOUNDS:
        for s in (1, -1):
            for d in range(-3, 4):
                out.add(s * b + d)
    _BI.extend(sorted(out))
    return _BI


def gen_atom(rng, um, key=False):
    k = rng.randrange(9 if not key else 7)
    if k == 0:
        return None
    if k == 1:
        return rng.random() < 0.5
    if k == 2:
        if rng.random() < 0.5:
            return rng.choice(boundary_ints()) if rng.random() < 0.9 else rng.randrange(-2 ** 70, 2 ** 70)
        return rng.randrange(-300, 300)
    if k == 3:
        if rng.random() < 0.6:
            return rng.choice(FLOATS)
        return struct.unpack('>d', rng.getrandbits(64).to_bytes(8, 'big'))[0]
    if k == 4:
        if rng.random() < 0.5:
            return rng.choice(STRS)
        return ''.join(chr(rng.choice([rng.randrange(32, 127), rng.randrange(0x80, 0x800), rng.randrange(0x800, 0xd800),
                                       rng.randrange(0xe000, 0x10000), rng.randrange(0x10000, 0x110000)]))
                       for _ in range(rng.choice([0, 1, 2, 5, 31, 32, 40])))
    if k == 5:
        return bytes(rng.getrandbits(8) for _ in range(rng.choice([0, 1, 2, 4, 8, 16, 17, 40])))
    if k == 6:
        return rng.randrange(-5, 5)
    if k == 7:
        return um.Ext(rng.choice([0, 1, 5, 127]), bytes(rng.getrandbits(8) for _ in range(rng.choice([0, 1, 2, 3, 4, 8, 16, 17]))))
    return Opaque() if rng.random() < 0.15 else None


def gen_key(rng, um, depth):
    if depth > 0 and rng.random() < 0.25:
        return tuple(gen_key(rng, um, depth - 1) for _ in range(rng.randrange(0, 4)))
    return gen_atom(rng, um, key=True)


def gen_value(rng, um, depth, budget=None):
    """random nested value; `budget` (a one-element list) bounds the total number of nodes"""
    if budget is None:
        budget = [rng.choice([5, 20, 60, 150])]
    budget[0] -= 1
    if depth <= 0 or budget[0] <= 0 or rng.random() < 0.3:
        return gen_atom(rng, um)
    k = rng.random()
    n = rng.choice([0, 1, 2, 3, 5, 15, 16, 17]) if rng.random() < 0.8 else rng.randrange(0, 40)
    n = min(n, max(budget[0], 0))
    if k < 0.4:
        return [gen_value(rng, um, depth - 1, budget) for _ in range(n)]
    if k < 0.55:
        return tuple(gen_value(rng, um, depth - 1, budget) for _ in range(n))
    d = {}
    for _ in range(n):
        try:
            d[gen_key(rng, um, 2)] = gen_value(rng, um, depth - 1, budget)
        except TypeError:
            pass
    return d


def sized_values(um, sizes):
    for n in sizes:
        yield 'x' * n
        yield b'\x01' * n
        yield um.Ext(7, b'\x02' * n)
        yield [None] * n
        yield {i: None for i in range(n)}


def in_model(v, um):
    """values whose Python-level behaviour the model does not represent (lone surrogates)"""
    try:
        json.dumps(to_json(v, um))
        return True
    except (UnicodeEncodeError, RecursionError):
        return False


# ----------------------------------------------------------------------------- the check

def impl_dumps(um, v):
    try:
        return ('ok', um.dumps(v).hex())
    except Exception as e:  # noqa
        return ('err', type(e).__name__)


def impl_loads(um, bs):
    try:
        return ('ok', canon(to_json(um.loads(bs), um)))
    except RecursionError:
        return ('skip', None)
    except Exception as e:  # noqa
        return ('err', type(e).__name__)


def run(check):
    quick = check.tier == 'quick'
    rng = check.rng
    # 1. translate
    try:
        changed = common.regen('SuppModel/Generated/Msgpack.lean', tr_msgpack.translate(REPO))
        check.oblige('translator tr_msgpack (umsgpack.py -> Generated/Msgpack.lean)', True)
        check.extra['generated_changed'] = changed
    except tr_msgpack.Untranslatable as e:
        check.oblige('translator tr_msgpack (umsgpack.py -> Generated/Msgpack.lean)', False, 'source shape not recognised: %s' % e)
    except Exception as e:  # import failure of the mutated module etc.
        check.oblige('translator tr_msgpack (umsgpack.py -> Generated/Msgpack.lean)', False, repr(e))
    # 2. prove
    check.prove()

    for k in [k for k in sys.modules if k == 'supp' or k.startswith('supp.')]:
        del sys.modules[k]
    sys.path.insert(0, REPO)
    import supp.umsgpack as um

    # 3. inputs
    values = []
    values += boundary_ints()
    values += FLOATS + STRS + [None, True, False, b'', Opaque(), [Opaque()], {1: Opaque()}]
    values += list(sized_values(um, LEN_BOUNDS_SMALL if quick else LEN_BOUNDS_SMALL + LEN_BOUNDS_BIG))
    if quick:
        values += ['y' * 65535, 'y' * 65536, b'\x00' * 65536, [0] * 65536, {i: i for i in range(65536)}, um.Ext(1, b'\x03' * 65536)]
    n_random = 1500 if quick else 20000
    for _ in range(n_random):
        values.append(gen_value(rng, um, rng.choice([1, 2, 3, 4, 6, 6])))
    if not quick:
        values.append('z' * (4 * 1024 * 1024))
        values.append([b'\xff' * 70000, 'w' * 70000])
    values = [v for v in values if in_model(v, um)]

    # 3a. dumps correspondence
    def big_map(v):
        return isinstance(v, dict) and len(v) > BIG_MAP
    reqs = [dict({'m': 'msgpack', 'op': 'dumps', 'v': to_json(v, um)}, **({'nowf': 1} if big_map(v) else {})) for v in values]
    model = common.ask_driver(reqs)
    dis_dumps = 0
    wf_count = 0
    encodings = []
    kinds = {}
    for v, r in zip(values, model):
        impl = impl_dumps(um, v)
        mod = ('ok', r['ok']) if 'ok' in r else ('err', r.get('err', r))
        if r.get('wf') is None and 'wf' in r:
            r['wf'] = data_model(v, um)      # huge dict of distinct int keys: the model's quadratic `wf` was skipped
        wf_count += 1 if r.get('wf') else 0
        kinds[type(v).__name__] = kinds.get(type(v).__name__, 0) + 1
        if impl != mod:
            dis_dumps += 1
            if dis_dumps <= 5:
                check.oblige('correspondence dumps', False, 'value %r: impl %r, model %r' % (short(v), short(impl), short(mod)))
        if impl[0] == 'ok':
            encodings.append((v, bytes.fromhex(impl[1]), bool(r.get('wf'))))
        # oracle on the implementation (independent of the model)
        oracle_value(check, um, v, impl)
    if dis_dumps == 0:
        check.oblige('correspondence dumps (model = supp.umsgpack.dumps, bytes or error class)', True)

    # 3b. loads correspondence: produced encodings, cut points, first bytes, random legal formats, mutations
    streams = []
    for v, bs, wf in encodings:
        if big_map(v):
            # the model's dict is an association list (quadratic); huge maps are decoded by the model only as
            # truncated streams (header + first entries) in the quick tier, one full stream in the thorough tier
            streams.append(bs[:40])
            if not quick and len(v) == 65536 and not any(len(s) > 100000 and s[0] == 0xdf for s in streams):
                streams.append(bs)
        elif len(bs) <= 300000:
            streams.append(bs)
    cut_budget = 6000 if quick else 150000
    cut_streams = []
    for v, bs, wf in encodings:
        if len(bs) <= 64:
            cuts = range(len(bs))
        else:
            cuts = sorted(set([0, 1, 2, 3, 4, 5, 6, len(bs) - 1, len(bs) - 2, len(bs) // 2] +
                              [rng.randrange(len(bs)) for _ in range(4)]))
        for c in cuts:
            if len(cut_streams) < cut_budget and c < len(bs) and len(bs) < 200000:
                cut_streams.append((bs[:c], wf, v))
    for b in range(256):
        for tail in (b'', b'\x00', b'\x01\x02\x03\x04\x05\x06\x07\x08\x09', bytes(rng.getrandbits(8) for _ in range(20))):
            streams.append(bytes([b]) + tail)
    nonmin = []
    for v, bs, wf in encodings:
        if wf and len(bs) < 5000:
            j = to_json(v, um)
            for _ in range(2):
                e = ref_encode(j, rng)
                nonmin.append((j, e))
                streams.append(e)
    for _ in range(2000 if quick else 30000):
        if streams:
            s = bytearray(rng.choice(streams[:5000]))
            if s and len(s) < 2000:
                for _ in range(rng.randrange(1, 3)):
                    s[rng.randrange(len(s))] = rng.getrandbits(8)
                streams.append(bytes(s))
    # invalid UTF-8 probes
    for bad in (b'\xa1\x80', b'\xa2\xc0\x80', b'\xa3\xed\xa0\x80', b'\xa4\xf4\x90\x80\x80', b'\xa2\xc2\x41', b'\xa3\xe0\x80\x80',
                b'\xa4\xf0\x8f\xbf\xbf', b'\xa1\xff', b'\xa3\xef\xbf\xbf', b'\xa4\xf4\x8f\xbf\xbf', b'\xa2\xdf\xbf'):
        streams.append(bad)
    all_streams = streams + [c for c, _, _ in cut_streams]
    reqs = [{'m': 'msgpack', 'op': 'loads', 'bytes': s.hex()} for s in all_streams]
    model = common.ask_driver(reqs)
    dis_loads = 0
    errs = {}
    for s, r in zip(all_streams, model):
        impl = impl_loads(um, s)
        if impl[0] == 'skip':
            continue
        mod = ('ok', canon(r['ok'])) if 'ok' in r else ('err', r.get('err', r))
        key = impl[1] if impl[0] == 'err' else 'ok'
        errs[key] = errs.get(key, 0) + 1
        if impl != mod:
            dis_loads += 1
            if dis_loads <= 5:
                check.oblige('correspondence loads', False, 'bytes %s: impl %r, model %r' % (s[:40].hex(), short(impl), short(mod)))
    if dis_loads == 0:
        check.oblige('correspondence loads (model = supp.umsgpack.loads, value or error class)', True)

    # 4. oracle on the implementation: prefixes and foreign encodings
    for p, wf, v in cut_streams:
        if wf:
            r = impl_loads(um, p)
            if r != ('err', 'InsufficientDataException'):
                check.fail('proper prefix of an encoding not rejected as insufficient data',
                           {'kind': 'prefix', 'value': short(v), 'prefix_hex': p.hex()[:4000], 'got': short(r)})
    for j, e in nonmin:
        r = impl_loads(um, e)
        if r != ('ok', canon(norm_json(j))):
            check.fail('spec-valid (non-minimal) encoding not decoded to its value',
                       {'kind': 'stream', 'value': short(j), 'value_json': small_json(j), 'bytes_hex': e.hex()[:4000], 'got': short(r)})
        for c in sorted(set([0, len(e) // 2, len(e) - 1])):
            if 0 <= c < len(e):
                r = impl_loads(um, e[:c])
                if r != ('err', 'InsufficientDataException'):
                    check.fail('proper prefix of a spec-valid encoding not rejected as insufficient data',
                               {'kind': 'prefix', 'value': short(j), 'prefix_hex': e[:c].hex()[:4000], 'got': short(r)})

    check.cov['evaluations'] = len(values) + len(all_streams)
    check.cov['distinct_nontrivial'] = len(set(bs for _, bs, wf in encodings if wf and len(bs) > 1)) + \
        len(set(s for s in all_streams if len(s) > 1))
    # 3z. the codec is a function of its argument: a call that FAILS half way (after part of the output was produced: an
    # unencodable leaf late in a container) must not change what later calls return
    poison = poison_values(um)
    hist_n = hist_bad = 0
    pool = [v for v in values[:4000] if not isinstance(v, (dict, list)) or len(v) < 50]
    for i in range(300 if quick else 5000):
        v = rng.choice(pool)
        before = impl_dumps(um, v)
        pi = rng.randrange(len(poison))
        bad_v = poison[pi]
        bad_r = impl_dumps(um, bad_v)
        after = impl_dumps(um, v)
        hist_n += 1
        if after != before or (after[0] == 'ok' and data_model(v, um) and impl_loads(um, bytes.fromhex(after[1])) != ('ok', canon(norm_json(to_json(v, um))))):
            hist_bad += 1
            if hist_bad <= 5:
                check.fail('dumps(v) changed after a failing dumps call (the codec keeps state between calls)',
                           {'kind': 'history', 'value': short(v), 'value_json': small_json(to_json(v, um)), 'failing_call': short(bad_v), 'poison_index': pi,
                            'failing_call_outcome': short(bad_r), 'before': short(before), 'after': short(after)})
    check.extra['failing_call_histories'] = {'histories': hist_n, 'changed': hist_bad, 'poison_values': len(poison)}

    check.cov['rule'] = ('values: every integer within +-3 of each format boundary, str/bin/ext/array/map lengths around every '
                         'length boundary, special floats, random nested values to depth 6 (one PRNG from VERIF_SEED); streams: '
                         'every produced encoding, cut points of every encoding (all for <= 64 bytes), all 256 first bytes x 4 tails, '
                         'random legal non-minimal re-encodings by the reference encoder, random byte mutations, invalid UTF-8 probes. '
                         'non-trivial = distinct data-model value with an encoding longer than one byte, or distinct stream longer than one byte')
    check.extra.update({'values': len(values), 'values_in_data_model(wf)': wf_count, 'streams': len(all_streams),
                        'cut_points': len(cut_streams), 'nonminimal_reencodings': len(nonmin),
                        'value_kinds': kinds, 'loads_outcomes': errs,
                        'disagreements_dumps': dis_dumps, 'disagreements_loads': dis_loads})
    for v in values[300:303] + values[-3:]:
        check.sample({'value': short(v)})
    for s in all_streams[-3:]:
        check.sample({'stream_hex': s.hex()[:200]})
    check.assumptions += [
        "struct.pack/unpack, bytes.decode('utf-8'), dict and tuple semantics are modelled by hand (Struct.lean, validUtf8, keyEq, dictSet) "
        'and validated only by this correspondence',
        'NaN payloads are compared as one NaN; Python recursion limit and memory are not modelled',
        "compatibility mode is off (the translator refuses a source that switches it on)",
    ]
    check.trusted += ['translators/tr_msgpack.py (pattern recogniser for the _pack_* chains; reads _unpack_dispatch_table from the loaded module)',
                      'the reference codec in harness/c14.py (written from the MessagePack specification)']


def oracle_value(check, um, v, impl):
    """property-level oracle on the real codec for one value"""
    j = to_json(v, um)
    dm = data_model(v, um)
    if isinstance(v, int) and not isinstance(v, bool) and not (-2 ** 63 <= v < 2 ** 64):
        if impl != ('err', 'UnsupportedTypeException'):
            check.fail('out-of-range integer not refused', {'kind': 'value', 'value': str(v), 'value_json': {'i': str(v)}, 'got': short(impl)})
        return
    if not dm:
        return
    if impl[0] != 'ok':
        check.fail('data-model value not encodable', {'kind': 'value', 'value': short(v), 'value_json': small_json(j), 'got': short(impl)})
        return
    bs = bytes.fromhex(impl[1])
    back = impl_loads(um, bs)
    if back != ('ok', canon(norm_json(j))):
        check.fail('round trip loads(dumps(v)) != v', {'kind': 'value', 'value': short(v), 'value_json': small_json(j), 'bytes_hex': bs.hex()[:4000], 'got': short(back)})
    try:
        ref, pos = ref_decode(bs)
        ok = pos == len(bs) and canon(ref) == canon(norm_json(j))
    except (RefError, RecursionError) as e:
        ok = isinstance(e, RecursionError)
        ref = repr(e)
    if not ok:
        check.fail('encoding is not valid MessagePack for the value (independent decoder disagrees)',
                   {'kind': 'value', 'value': short(v), 'value_json': small_json(j), 'bytes_hex': bs.hex()[:4000], 'reference_decoder': short(ref)})


def data_model(v, um, key=False):
    """the MessagePack data model as Python values (the domain of the property)"""
    if v is None or isinstance(v, bool):
        return True
    if isinstance(v, int):
        return -2 ** 63 <= v < 2 ** 64
    if isinstance(v, float):
        return True
    if isinstance(v, (str, bytes)):
        return True
    if isinstance(v, um.Ext):
        return not key
    if isinstance(v, (list, tuple)):
        if key and isinstance(v, list):
            return False
        return all(data_model(x, um, key) for x in v)
    if isinstance(v, dict):
        if key:
            return False
        # keys that differ as Python objects but are equal after a round trip do not exist in one dict
        return all(data_model(k, um, True) and data_model(x, um) for k, x in v.items())
    return False


def short(x, n=300):
    try:
        s = repr(x)
    except RecursionError:
        s = '<%s nested too deeply to print>' % type(x).__name__
    return s if len(s) <= n else s[:n] + '...(%d chars)' % len(s)


def small_json(j):
    s = json.dumps(j)
    return j if len(s) < 20000 else None


def from_json(j, um, key=False):
    if j is None or j is True or j is False:
        return j
    if 'i' in j:
        return int(j['i'])
    if 'f' in j:
        return struct.unpack('>d', int(j['f']).to_bytes(8, 'big'))[0]
    if 's' in j:
        return bytes.fromhex(j['s']).decode('utf-8')
    if 'b' in j:
        return bytes.fromhex(j['b'])
    if 'a' in j:
        return [from_json(x, um) for x in j['a']]
    if 't' in j:
        return tuple(from_json(x, um, key) for x in j['t'])
    if 'm' in j:
        return {from_json(k, um, True): from_json(x, um) for k, x in j['m']}
    if 'e' in j:
        return um.Ext(int(j['e'][0]), bytes.fromhex(j['e'][1]))
    return Opaque()


def poison_values(um):
    """values on which dumps fails after part of the output was produced"""
    class Boom(object):
        pass

    def deep(n):
        x = []
        for _ in range(n):
            x = [x]
        return x
    return [['ok', '\ud800'], {'k': [b'xy', '\udfff']}, [1, 2, Boom()], {'a': 1, 'b': Boom()}, ['pre', 2 ** 70], [b'bin', -2 ** 70],
            [1.5, um.Ext(3, b'abc'), Boom()], ['long' * 100, {'z': '\udc00'}], [0, deep(100000)]]


def replay(path):
    data = json.load(open(path))
    for k in [k for k in sys.modules if k == 'supp' or k.startswith('supp.')]:
        del sys.modules[k]
    sys.path.insert(0, REPO)
    import supp.umsgpack as um
    bad = 0
    for item in data.get('failing_inputs', []):
        r = item['replay']
        kind = r.get('kind')
        if kind == 'prefix':
            got = impl_loads(um, bytes.fromhex(r['prefix_hex']))
            ok = got == ('err', 'InsufficientDataException')
        elif kind == 'stream' and r.get('value_json') is not None:
            got = impl_loads(um, bytes.fromhex(r['bytes_hex']))
            ok = got == ('ok', canon(norm_json(r['value_json'])))
        elif kind == 'value' and r.get('value_json') is not None:
            v = from_json(r['value_json'], um)
            chk = common.Check('C14', 'quick', 0)
            oracle_value(chk, um, v, impl_dumps(um, v))
            got = [f['what'] for f in chk.failures]
            ok = not got
        elif kind == 'history' and r.get('value_json') is not None and r.get('poison_index') is not None:
            v = from_json(r['value_json'], um)
            before = impl_dumps(um, v)
            impl_dumps(um, poison_values(um)[r['poison_index']])
            got = impl_dumps(um, v)
            ok = got == before
        else:
            print('not replayable (value too large to record):', item['what'])
            continue
        print(('passes now: ' if ok else 'STILL FAILS: ') + item['what'], '' if ok else short(got))
        bad += not ok
    print('REPLAY: %d of the recorded inputs still fail' % bad)
    return 1 if bad else 0
