"""C04 — answers do not depend on which positions were queried before.

theorems : Props/C04.lean over the graph evaluator (pure) and its memoised form (Flow/Memo.lean)
tie      : the flow graph the REAL extractor built is serialised; the SAME history of names_at queries is
           replayed on one real SourceScope and on the model's memoised evaluator; answers diffed per query
search   : on the real code alone: permuted query orders on one scope vs a fresh scope per query;
           lint (AST-order sweep) vs per-read answers; repeated identical requests on one Project
"""
import ast
import glob
import itertools
import json
import os

from . import common, flowgraph, pygen


def orders_for(n, rng, quick):
    idx = list(range(n))
    if n <= 1:
        return [idx]
    if n <= (4 if quick else 5):
        return [list(p) for p in itertools.permutations(idx)]
    out = [idx, idx[::-1]]
    mid = n // 2
    inside_out = []
    for k in range(n):
        j = mid + ((k + 1) // 2) * (1 if k % 2 else -1)
        if 0 <= j < n and j not in inside_out:
            inside_out.append(j)
    inside_out += [i for i in idx if i not in inside_out]
    out.append(inside_out)
    for _ in range(2 if quick else 5):
        p = idx[:]
        rng.shuffle(p)
        out.append(p)
    p = idx[:]
    rng.shuffle(p)
    out.append(p[:max(1, n // 3)] * 2)      # a subset, each queried twice
    out.append([i for i in idx for _ in (0, 1)])  # every query repeated immediately
    return out


def corpus(check, S):
    quick = check.tier == 'quick'
    progs = []
    # minimised past failures first
    cdir = os.path.join(common.VERIF, 'corpus', 'flow')
    for fn in sorted(glob.glob(os.path.join(cdir, '*.py'))):
        progs.append(('corpus:' + os.path.basename(fn), open(fn).read()))
    n = 120 if quick else 3000
    for i in range(n):
        g = pygen.Gen(check.rng, depth=check.rng.choice([2, 3, 3, 4]), loops=2.0)
        src = g.program()
        try:
            ast.parse(src)
        except SyntaxError:
            continue
        progs.append(('gen%d' % i, src))
    # smaller programs on which the checked and the exact evaluator (exponential in the loop nesting depth) also run
    for i in range(80 if quick else 1200):
        g = pygen.Gen(check.rng, depth=check.rng.choice([2, 2, 3]), loops=1.5, scopes=check.rng.random() < 0.5)
        src = g.program()
        try:
            ast.parse(src)
        except SyntaxError:
            continue
        if max((len(l) - len(l.lstrip())) // 4 for l in src.splitlines()) <= 3 and len(src.splitlines()) <= 45:
            progs.append(('val%d' % i, src))
    files = sorted(glob.glob(os.path.join(common.REPO, 'supp', '*.py')))
    if not quick:
        import sysconfig
        std = sysconfig.get_paths()['stdlib']
        files += sorted(glob.glob(os.path.join(std, '*.py')))[:120]
    for fn in files:
        try:
            src = open(fn, encoding='utf-8').read()
            ast.parse(src)
        except Exception:
            continue
        progs.append(('file:' + os.path.relpath(fn, common.REPO) if fn.startswith(common.REPO) else 'file:' + os.path.basename(fn), src))
    return progs


def run(check):
    quick = check.tier == 'quick'
    check.prove(extra_targets=('drv_flow',), extra_audit_modules=('SuppModel.Witness.C04',))
    S = flowgraph.load_supp()
    tmp = os.path.join('/tmp', 'verif-c04-%d' % os.getpid())
    os.makedirs(tmp, exist_ok=True)
    project = S['project'].Project([tmp])
    progs = corpus(check, S)
    requests, meta, gvs = [], [], {}
    n_queries = n_orders = 0
    nontrivial = set()
    dis = 0
    for label, src in progs:
        fname = os.path.join(tmp, 'm.py')
        try:
            gv = flowgraph.analyse(S, src, fname, project)
        except RecursionError:
            continue
        except Exception as e:  # a crash of the extractor is C08's business, not C04's
            check.extra.setdefault('extractor_crashes_skipped', []).append('%s: %s' % (label, type(e).__name__))
            continue
        reads = gv.reads()
        if not reads:
            continue
        big = label.startswith('file:')
        if big and len(reads) > 400:
            # a window of reads of a large file
            start = check.rng.randrange(0, len(reads) - 300)
            reads = reads[start:start + 300]
        queries = [q for q, _n in reads]
        offset = start if (big and len(gv.reads()) > 400) else 0
        orders = orders_for(len(reads), check.rng, quick or big)
        # reference: a fresh scope for every single query (cold start); sampled for programs with many reads
        ref = {}
        if not big:
            idxs = list(range(len(reads))) if len(reads) <= 40 else sorted(check.rng.sample(range(len(reads)), 25))
            for i in idxs:
                ref[i] = flowgraph.light_answers(S, src, fname, project, order=[i])[0]
        real_per_order = []
        for o in orders:
            answers = flowgraph.light_answers(S, src, fname, project, order=[offset + i for i in o])
            real_per_order.append(answers)
            for i, a in zip(o, answers):
                if i in ref and a != ref[i]:
                    check.fail('names_at answer depends on earlier queries',
                               {'source': src, 'order': o, 'query_index': i, 'query': queries[i],
                                'answer_in_this_history': a, 'cold_start_answer': ref[i]})
        # lint sweep vs per-read answers
        if ref:
            try:
                diags = S['linter'].lint(project, src, fname)
                e02 = set((d[2], d[3]) for d in diags if d[0] == 'E02')
                for k, (q, n) in enumerate(reads):
                    if k not in ref:
                        continue
                    a = ref[k]
                    if ((q['pos'][0], q['pos'][1]) in e02) != (a is None):
                        check.fail('lint and a direct query disagree on a read',
                                   {'source': src, 'read': q, 'lint_E02': (q['pos'][0], q['pos'][1]) in e02, 'cold_start_answer': a})
                if S['linter'].lint(project, src, fname) != diags and \
                        [d[:4] for d in S['linter'].lint(project, src, fname)] != [d[:4] for d in diags]:
                    check.fail('repeated identical lint requests differ', {'source': src})
            except RecursionError:
                pass
        gvs[label] = gv
        req = {'op': 'evalmany', 'graph': gv.json, 'queries': queries, 'orders': orders}
        if label.startswith('val') or label.startswith('corpus'):
            req['validate'] = 1   # also run the checked and the exact evaluator (hypotheses of the partial theorems)
        requests.append(req)
        meta.append((label, src, queries, orders, real_per_order))
        n_queries += sum(len(o) for o in orders)
        n_orders += len(orders)
        if 'while' in src or 'for ' in src:
            if len(reads) >= 2:
                nontrivial.add(src)
    replies = common.ask_driver(requests, exe='drv_flow')
    hyp = {'answers': 0, 'covered_by_C04_history_partial(checked=memo)': 0, 'covered_by_C04_history_validated(exact=memo)': 0, 'memo_differs_from_pure': 0}
    for (label, src, queries, orders, real_per_order), rep in zip(meta, replies):
        if 'answers' not in rep:
            check.oblige('correspondence query histories', False, '%s: driver said %r' % (label, rep))
            dis += 1
            continue
        for k, (o, model) in enumerate(zip(orders, rep['answers'])):
            if 'exact' in rep:
                for m, c, e in zip(model, rep['checked'][k], rep['exact'][k]):
                    hyp['answers'] += 1
                    hyp['covered_by_C04_history_partial(checked=memo)'] += (c == m)
                    hyp['covered_by_C04_history_validated(exact=memo)'] += (e == m)
                    if e != m and e != 'out-of-fuel' and m != 'out-of-fuel':
                        hyp['memo_differs_from_pure'] += 1
                        if hyp['memo_differs_from_pure'] <= 3:
                            check.oblige('memoised evaluator = pure evaluator on this history (per-run validation)', False,
                                         '%s order %s: memo %r, exact %r\n%s' % (label, o[:12], m, e, src[:1500]))
        for o, real, model in zip(orders, real_per_order, rep['answers']):
            for i, a, m in zip(o, real, model):
                if a != gvs[label].content_answer(flowgraph.canon_model(m)):
                    dis += 1
                    if dis <= 5:
                        check.oblige('correspondence query histories', False,
                                     '%s order %s query %s: impl %r, model %r\n%s' % (label, o[:12], queries[i], a, m, src[:1500]))
    if dis == 0:
        check.oblige('correspondence query histories (same history on a real SourceScope and on the memoised model)', True)
    check.cov['evaluations'] = n_queries
    check.cov['distinct_nontrivial'] = len(nontrivial)
    check.cov['rule'] = ('programs: corpus of past failures, generated loop-heavy programs (harness/pygen.py, PRNG from VERIF_SEED), '
                         'files of the repository (thorough: + 120 stdlib files); per program every permutation of its reads when there are '
                         'at most 4 (thorough 5), else forward / reverse / inside-out / random orders, a subset queried twice, every query '
                         'repeated. evaluations = names_at queries replayed; non-trivial = distinct program with a loop and at least two reads')
    if hyp['memo_differs_from_pure'] == 0:
        check.oblige('memoised evaluator = pure evaluator on every validated history (hypothesis of C04_history_validated, evaluated per run)', True)
    check.extra.update({'programs': len(meta), 'histories': n_orders, 'disagreements': dis, 'per_run_hypotheses': hyp,
                        'theorem_coverage_note': 'C04_history_partial covers the answers counted under checked=memo (loop-free, single and '
                        'sequential loops); C04_history_validated covers those under exact=memo (all, nested loops included, per run); '
                        'the full-strength C04_history_stmt is false of the model for non-extractor graphs (Witness/C04.lean)'})
    for label, src, queries, orders, _ in meta[:2] + meta[-1:]:
        check.sample({'program': label, 'source_head': src[:300], 'orders': [o[:8] for o in orders[:3]]})
    check.assumptions += [
        'the flow graph is taken from the real extractor (harness/flowgraph.py copies object structure); the theorems hold for every graph',
        'evaluation memos of the attribute evaluator (_ctx_values, ImportedName._ref, MultiValue._rvalues) are outside this model; '
        'repeated-request determinism of lint is checked on the implementation only',
    ]
    import shutil
    shutil.rmtree(tmp, ignore_errors=True)


def replay(path):
    data = json.load(open(path))
    S = flowgraph.load_supp()
    tmp = '/tmp/verif-c04-replay'
    os.makedirs(tmp, exist_ok=True)
    project = S['project'].Project([tmp])
    bad = 0
    for item in data.get('failing_inputs', []):
        r = item['replay']
        if 'order' not in r:
            continue
        g = flowgraph.analyse(S, r['source'], os.path.join(tmp, 'm.py'), project)
        reads = g.reads()
        ans = None
        for i in r['order']:
            a = g.real_answer(reads[i][1])
            if i == r['query_index']:
                ans = a
        g1 = flowgraph.analyse(S, r['source'], os.path.join(tmp, 'm.py'), project)
        cold = g1.real_answer(g1.reads()[r['query_index']][1])
        print('history answer %r, cold-start answer %r' % (ans, cold))
        bad += ans != cold
    print('REPLAY: %d of the recorded inputs still fail' % bad)
    return 1 if bad else 0
