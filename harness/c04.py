"""C04 — answers do not depend on which positions were queried before.

theorems : Props/C04.lean over the graph evaluator (pure) and its memoised form (Flow/Memo.lean)
tie      : the flow graph the REAL extractor built is serialised; the SAME history of names_at queries is
           replayed on one real SourceScope and on the model's memoised evaluator; answers diffed per query
search   : on the real code alone: permuted query orders on one scope vs a fresh scope per query;
           lint (AST-order sweep) vs per-read answers; repeated identical requests on one Project
"""
import ast
import glob
import itertools
import json
import os

from . import c04_stdlib, common, evalmemo, flowgraph, pygen


def orders_for(n, rng, quick):
    idx = list(range(n))
    if n <= 1:
        return [idx]
    if n <= (4 if quick else 5):
        return [list(p) for p in itertools.permutations(idx)]
    out = [idx, idx[::-1]]
    mid = n // 2
    inside_out = []
    for k in range(n):
        j = mid + ((k + 1) // 2) * (1 if k % 2 else -1)
        if 0 <= j < n and j not in inside_out:
            inside_out.append(j)
    inside_out += [i for i in idx if i not in inside_out]
    out.append(inside_out)
    for _ in range(2 if quick else 5):
        p = idx[:]
        rng.shuffle(p)
        out.append(p)
    p = idx[:]
    rng.shuffle(p)
    out.append(p[:max(1, n // 3)] * 2)      # a subset, each queried twice
    out.append([i for i in idx for _ in (0, 1)])  # every query repeated immediately
    return out


def corpus(check, S):
    quick = check.tier == 'quick'
    progs = []
    # minimised past failures first
    cdir = os.path.join(common.VERIF, 'corpus', 'flow')
    for fn in sorted(glob.glob(os.path.join(cdir, '*.py'))):
        progs.append(('corpus:' + os.path.basename(fn), open(fn).read()))
    n = 120 if quick else 900
    for i in range(n):
        g = pygen.Gen(check.rng, depth=check.rng.choice([2, 3, 3, 4]), loops=2.0)
        src = g.program()
        if not pygen.valid(src):
            continue
        progs.append(('gen%d' % i, src))
    # smaller programs on which the checked and the exact evaluator (exponential in the loop nesting depth) also run
    for i in range(80 if quick else 500):
        g = pygen.Gen(check.rng, depth=check.rng.choice([2, 2, 3]), loops=1.5, scopes=check.rng.random() < 0.5)
        src = g.program()
        if not pygen.valid(src):
            continue
        if max((len(l) - len(l.lstrip())) // 4 for l in src.splitlines()) <= 3 and len(src.splitlines()) <= 45:
            progs.append(('val%d' % i, src))
    files = sorted(glob.glob(os.path.join(common.REPO, 'supp', '*.py')))
    if not quick:
        import sysconfig
        std = sysconfig.get_paths()['stdlib']
        files += sorted(glob.glob(os.path.join(std, '*.py')))[:120]
    for fn in files:
        try:
            src = open(fn, encoding='utf-8').read()
            ast.parse(src)
        except Exception:
            continue
        progs.append(('file:' + os.path.relpath(fn, common.REPO) if fn.startswith(common.REPO) else 'file:' + os.path.basename(fn), src))
    return progs


PROJECT_FILES = {
    'zq_pkg/__init__.py': '',
    'zq_pkg/sub.py': 'class X:\n    attr = 1\n    def run(self):\n        self.state = 2\n        return self\n',
    'zq_pkg/other.py': 'from .sub import X\nclass Y(X):\n    def extra(self):\n        pass\n',
    'zq_helper.py': 'import zq_pkg.sub\nimport zq_pkg.other\nclass H(zq_pkg.sub.X):\n    def more(self):\n        self.v = 1\n'
                    'def make():\n    return zq_pkg.sub.X()\ndef make2():\n    return zq_pkg.other.Y()\n',
    'zq_factory.py': 'from zq_helper import make, H\nimport zq_pkg.sub\nobj = make()\nh = H()\nk = zq_pkg.sub.X\n',
    'zq_star.py': 'from zq_helper import *\nfrom zq_factory import obj\n',
    'zq_lib.py': 'class Conf(object):\n    def __init__(self):\n        self.depth = 1\n    def load(self):\n        pass\n'
                 'class Keeper(object):\n    def __init__(self):\n        self.conf = Conf()\n        self.name = "k"\n    def keep(self):\n        return self.conf\n',
    # star-import cycles: the analysis of either module is cut where it meets itself (SourceModule._attrs / _analysing); lint creates
    # no EvalCtx and location / usages create theirs after extract_scope (supp 2e0a5c1)
    'zq_cyca.py': 'from zq_cycb import *\nCA = 1\ndef fa():\n    return CB\n',
    'zq_cycb.py': 'from zq_cyca import *\nCB = 2\nclass KB(object):\n    def mb(self):\n        return CA\n',
    'zq_cycc.py': 'from zq_cyca import *\nfrom zq_cycc import *\nCC = 3\n',
    # two packages with the same RELATIVE star import: what `.util` means depends on the file that asks
    'zq_alpha/__init__.py': '', 'zq_alpha/util.py': 'ALPHA_ONLY = 1\nSHARED = 1\n', 'zq_alpha/m.py': 'from .util import *\nfrom . import util\n',
    'zq_beta/__init__.py': '', 'zq_beta/util.py': 'BETA_ONLY = 2\nSHARED = "s"\n', 'zq_beta/m.py': 'from .util import *\nfrom . import util\n',
    # classes whose attribute tables need each other (a property over an attribute assigned through its setter, instances made
    # inside methods of another class, class attributes assigned at module level): evaluation is cut where it meets itself, and what
    # was computed above a cut must not outlive the request (supp 265f3e6)
    'zq_props.py': 'def check(level):\n    return level\n'
                   'class Holder(object):\n    def __init__(self, a):\n        self.items = {a: None}\n    def append(self, a):\n        self.items[a] = None\n'
                   'class Manager(object):\n    def __init__(self, rootnode):\n        self.root = rootnode\n        self.disable = 0\n        self.table = {}\n'
                   '    @property\n    def disable(self):\n        return self._disable\n'
                   '    @disable.setter\n    def disable(self, value):\n        self._disable = check(value)\n'
                   '    def get(self, name):\n        rv = Node(name)\n        rv.manager = self\n        return rv\n'
                   'class Node(object):\n    def __init__(self, name):\n        self.name = name\n        self.parent = None\n'
                   '    def child(self, suffix):\n        return self.manager.get(suffix)\n'
                   'root = Node("root")\nNode.root = root\nNode.manager = Manager(Node.root)\n',
}

# values with one and with two alternatives (CompositeValue over instance attributes, call results, imported objects)
POOL = ['zq_lib.Keeper().conf', 'zq_lib.Keeper()', 'zq_lib.Keeper().keep()', 'zq_helper.make()', 'zq_factory.h', 'zq_factory.obj', 'Other()', 'zq_lib.Conf()',
        'zq_props.Manager(1)', 'zq_props.Holder(1)', 'zq_props.Node(1)', 'zq_props.root', 'zq_props.Node(1).child(2)', 'zq_props.Manager(1).get(1)']
PRELUDE = 'import zq_lib, zq_helper, zq_factory, zq_props\nclass Other(object):\n    def extra_method(self):\n        pass\n'


def pool_requests():
    out = []
    for a in POOL:
        src = PRELUDE + 'v = %s\nv.' % a
        out.append(('assist', src, (src.count('\n') + 1, 2)))
    for i, a in enumerate(POOL):
        for b in POOL[i + 1:]:
            for x, y in ((a, b), (b, a)):
                src = PRELUDE + 'if c:\n    v = %s\nelse:\n    v = %s\nv.' % (x, y)
                out.append(('assist', src, (src.count('\n') + 1, 2)))
    return out


REQUESTS = [
    ('assist', 'import zq_helper\nzq_helper.make().', (2, 17)),
    ('location', 'import zq_helper\nzq_helper.make().run', (2, 20)),
    ('assist', 'import zq_helper\nzq_helper.make2().', (2, 18)),
    ('assist', 'import zq_factory\nzq_factory.obj.', (2, 15)),
    ('assist', 'import zq_factory\nzq_factory.h.', (2, 13)),
    ('location', 'import zq_factory\nzq_factory.k.attr', (2, 17)),
    ('assist', 'from zq_star import *\nH().', (2, 4)),
    ('location', 'from zq_star import *\nmake', (2, 4)),
    ('assist', 'import zq_pkg.sub\nzq_pkg.sub.X.', (2, 13)),
    ('assist', 'import zq_pkg.other\nzq_pkg.other.Y().', (2, 17)),
    ('lint', 'from zq_star import *\nprint(H, make, obj, nothing)\n', None),
    ('location', 'from zq_star import obj\nobj.state', (2, 9)),
    ('lint', 'from zq_cyca import *\nprint(CA, CB, fa, KB)\n', None),
    ('lint', 'from zq_cycb import *\nprint(CA, CB, fa, KB)\n', None),
    ('lint', 'from zq_cycc import *\nprint(CA, CB, CC, nothing)\n', None),
    ('location', 'from zq_cyca import *\nCB', (2, 2)),
    ('location', 'from zq_cycb import *\nCA', (2, 2)),
    ('assist', 'from zq_cycb import *\nC', (2, 1)),
    ('assist', 'import zq_cyca\nzq_cyca.', (2, 8)),
    ('assist', 'import zq_cycc\nzq_cycc.', (2, 8)),
    ('assist', 'from zq_cycb import *\nKB().', (2, 5)),
    ('lint', 'from .util import *\nprint(ALPHA_ONLY, BETA_ONLY, SHARED)\n', None, 'zq_alpha/buf.py'),
    ('lint', 'from .util import *\nprint(ALPHA_ONLY, BETA_ONLY, SHARED)\n', None, 'zq_beta/buf.py'),
    ('assist', 'from .util import *\n', (2, 0), 'zq_alpha/buf.py'),
    ('assist', 'from .util import *\n', (2, 0), 'zq_beta/buf.py'),
    ('assist', 'from . import m\nm.', (2, 2), 'zq_alpha/buf.py'),
    ('assist', 'from . import m\nm.', (2, 2), 'zq_beta/buf.py'),
    ('location', 'from .util import *\nSHARED', (2, 6), 'zq_alpha/buf.py'),
    ('location', 'from .util import *\nSHARED', (2, 6), 'zq_beta/buf.py'),
    ('assist', 'from .m import *\nutil.', (2, 5), 'zq_beta/buf.py'),
]


BUFFER_NAMES = ['buffer.py', 'conftest.py', '__main__.py', 'setup.py', 'test_buffer.py']


def do_request(S, project, root, req, ctx):
    kind, src, pos = req[:3]
    # the buffer's file name varies with the request (nothing may depend on how the edited file is called)
    fn = os.path.join(root, req[3] if len(req) > 3 else BUFFER_NAMES[len(src) % len(BUFFER_NAMES)])

    def go():
        if kind == 'assist':
            p, props = S['assistant'].assist(project, src, pos, fn)
            return [p, [x for x in props if not x.startswith('__')]]
        if kind == 'location':
            out = S['assistant'].location(project, src, pos, fn)
            return json.loads(json.dumps(out).replace(root, 'ROOT'))
        return [list(d[:4]) for d in S['linter'].lint(project, src, fn)]
    try:
        if ctx:
            with project.check_changes():
                return go()
        return go()
    except RecursionError:
        return 'RecursionError'
    except Exception as e:  # noqa
        return 'raised ' + type(e).__name__


def project_histories(check, S):
    """request histories on ONE long-lived Project versus a fresh Project per request (no file is edited):
    the evaluation memos (ImportedName._ref, _ctx_values, MultiValue._rvalues, cached module analyses)"""
    quick = check.tier == 'quick'
    root = '/tmp/verif-c04p-%d' % os.getpid()
    for rel, content in PROJECT_FILES.items():
        fn = os.path.join(root, rel)
        os.makedirs(os.path.dirname(fn), exist_ok=True)
        open(fn, 'w').write(content)
    REQUESTS = globals()['REQUESTS'] + pool_requests()
    ref = [do_request(S, S['project'].Project([root]), root, r, False) for r in REQUESTS]
    n = histories = 0
    idx = list(range(len(REQUESTS)))
    orders = [idx, idx[::-1]]
    for _ in range(40 if quick else 600):
        o = [check.rng.choice(idx) for _ in range(check.rng.randint(2, 14))]
        orders.append(o)
    for o in orders:
        for ctx in (False, True):
            project = S['project'].Project([root])
            histories += 1
            for i in o:
                a = do_request(S, project, root, REQUESTS[i], ctx)
                n += 1
                if a != ref[i]:
                    check.fail('a request on a long-lived project answers differently depending on the requests made before',
                               {'files': PROJECT_FILES, 'history': [list(REQUESTS[j]) for j in o], 'request': list(REQUESTS[i]),
                                'inside_check_changes': ctx, 'answer_in_this_history': a, 'answer_of_a_fresh_project': ref[i]})
                    break
    import shutil
    shutil.rmtree(root, ignore_errors=True)
    check.extra['project_request_histories'] = {'histories': histories, 'requests': n, 'distinct_requests': len(REQUESTS),
                                                'nonempty_reference_answers': sum(1 for r in ref if r and r != ['', []])}
    return n


def run(check):
    quick = check.tier == 'quick'
    check.prove(extra_targets=('drv_flow', 'drv_evalmemo'), extra_audit_modules=('SuppModel.Witness.C04',))
    # the attribute evaluator's cache discipline (cycle_guard): history independence for EVERY graph and history
    check.prove_also('C04Eval')
    S = flowgraph.load_supp()
    tmp = os.path.join('/tmp', 'verif-c04-%d' % os.getpid())
    os.makedirs(tmp, exist_ok=True)
    project = S['project'].Project([tmp])
    progs = corpus(check, S)
    requests, meta, gvs = [], [], {}
    n_queries = n_orders = 0
    nontrivial = set()
    dis = 0
    for label, src in progs:
        fname = os.path.join(tmp, 'm.py')
        try:
            gv = flowgraph.analyse(S, src, fname, project)
        except RecursionError:
            continue
        except Exception as e:  # a crash of the extractor is C08's business, not C04's
            check.extra.setdefault('extractor_crashes_skipped', []).append('%s: %s' % (label, type(e).__name__))
            continue
        reads = gv.reads()
        if not reads:
            continue
        big = label.startswith('file:')
        if big and len(reads) > 400:
            # a window of reads of a large file
            start = check.rng.randrange(0, len(reads) - 300)
            reads = reads[start:start + 300]
        queries = [q for q, _n in reads]
        offset = start if (big and len(gv.reads()) > 400) else 0
        orders = orders_for(len(reads), check.rng, quick or big)
        # reference: a fresh scope for every single query (cold start); sampled for programs with many reads
        ref = {}
        if not big:
            idxs = list(range(len(reads))) if len(reads) <= 40 else sorted(check.rng.sample(range(len(reads)), 25))
            for i in idxs:
                ref[i] = flowgraph.light_answers(S, src, fname, project, order=[i])[0]
        real_per_order = []
        for o in orders:
            answers = flowgraph.light_answers(S, src, fname, project, order=[offset + i for i in o])
            real_per_order.append(answers)
            for i, a in zip(o, answers):
                if i in ref and a != ref[i]:
                    check.fail('names_at answer depends on earlier queries',
                               {'source': src, 'order': o, 'query_index': i, 'query': queries[i],
                                'answer_in_this_history': a, 'cold_start_answer': ref[i]})
        # lint sweep vs per-read answers
        if ref:
            try:
                diags = S['linter'].lint(project, src, fname)
                e02 = set((d[2], d[3]) for d in diags if d[0] == 'E02')
                for k, (q, n) in enumerate(reads):
                    if k not in ref:
                        continue
                    a = ref[k]
                    if ((q['pos'][0], q['pos'][1]) in e02) != (a is None):
                        check.fail('lint and a direct query disagree on a read',
                                   {'source': src, 'read': q, 'lint_E02': (q['pos'][0], q['pos'][1]) in e02, 'cold_start_answer': a})
                if S['linter'].lint(project, src, fname) != diags and \
                        [d[:4] for d in S['linter'].lint(project, src, fname)] != [d[:4] for d in diags]:
                    check.fail('repeated identical lint requests differ', {'source': src})
            except RecursionError:
                pass
        gvs[label] = gv
        req = {'op': 'evalmany', 'graph': gv.json, 'queries': queries, 'orders': orders}
        if label.startswith('val') or label.startswith('corpus'):
            req['validate'] = 1   # also run the checked and the exact evaluator (hypotheses of the partial theorems)
        requests.append(req)
        meta.append((label, src, queries, orders, real_per_order))
        n_queries += sum(len(o) for o in orders)
        n_orders += len(orders)
        if 'while' in src or 'for ' in src:
            if len(reads) >= 2:
                nontrivial.add(src)
    replies = common.ask_driver(requests, exe='drv_flow')
    hyp = {'answers': 0, 'covered_by_C04_history_partial(checked=memo)': 0, 'covered_by_C04_history_validated(exact=memo)': 0, 'memo_differs_from_pure': 0}
    for (label, src, queries, orders, real_per_order), rep in zip(meta, replies):
        if 'answers' not in rep:
            check.oblige('correspondence query histories', False, '%s: driver said %r' % (label, rep))
            dis += 1
            continue
        for k, (o, model) in enumerate(zip(orders, rep['answers'])):
            if 'exact' in rep:
                for m, c, e in zip(model, rep['checked'][k], rep['exact'][k]):
                    hyp['answers'] += 1
                    hyp['covered_by_C04_history_partial(checked=memo)'] += (c == m)
                    hyp['covered_by_C04_history_validated(exact=memo)'] += (e == m)
                    if e != m and e != 'out-of-fuel' and m != 'out-of-fuel':
                        hyp['memo_differs_from_pure'] += 1
                        if hyp['memo_differs_from_pure'] <= 3:
                            check.oblige('memoised evaluator = pure evaluator on this history (per-run validation)', False,
                                         '%s order %s: memo %r, exact %r\n%s' % (label, o[:12], m, e, src[:1500]))
        for o, real, model in zip(orders, real_per_order, rep['answers']):
            for i, a, m in zip(o, real, model):
                if a != gvs[label].content_answer(flowgraph.canon_model(m)):
                    dis += 1
                    if dis <= 5:
                        check.oblige('correspondence query histories', False,
                                     '%s order %s query %s: impl %r, model %r\n%s' % (label, o[:12], queries[i], a, m, src[:1500]))
    if dis == 0:
        check.oblige('correspondence query histories (same history on a real SourceScope and on the memoised model)', True)
    n_queries += project_histories(check, S)
    check.cov['evaluations'] = n_queries
    check.cov['distinct_nontrivial'] = len(nontrivial)
    check.cov['rule'] = ('programs: corpus of past failures, generated loop-heavy programs (harness/pygen.py, PRNG from VERIF_SEED), '
                         'files of the repository (thorough: + 120 stdlib files); per program every permutation of its reads when there are '
                         'at most 4 (thorough 5), else forward / reverse / inside-out / random orders, a subset queried twice, every query '
                         'repeated. evaluations = names_at queries replayed; non-trivial = distinct program with a loop and at least two reads')
    if hyp['memo_differs_from_pure'] == 0:
        check.oblige('memoised evaluator = pure evaluator on every validated history (hypothesis of C04_history_validated, evaluated per run)', True)
    check.extra.update({'programs': len(meta), 'histories': n_orders, 'disagreements': dis, 'per_run_hypotheses': hyp,
                        'theorem_coverage_note': 'C04_history_partial covers the answers counted under checked=memo (loop-free, single and '
                        'sequential loops); C04_history_validated covers those under exact=memo (all, nested loops included, per run); '
                        'the full-strength C04_history_stmt is false of the model for non-extractor graphs (Witness/C04.lean)'})
    for label, src, queries, orders, _ in meta[:2] + meta[-1:]:
        check.sample({'program': label, 'source_head': src[:300], 'orders': [o[:8] for o in orders[:3]]})
    check.assumptions += [
        'the flow graph is taken from the real extractor (harness/flowgraph.py copies object structure); the theorems hold for every graph',
        'evaluation memos of the attribute evaluator: the discipline of cached_property/context_property/cycle_guard is modelled '
        '(family EvalMemo, Props/C04Eval.lean) over abstract one-slot nodes (MultiValue._rvalues is such a slot); ImportedName._ref is outside it; '
        'repeated-request determinism of lint is checked on the implementation only',
    ]
    # last, so that the streams above draw the same random numbers as before this stream existed
    evalmemo.run(check, S)
    check.cov['evaluations'] += c04_stdlib.run(check, S)
    import shutil
    shutil.rmtree(tmp, ignore_errors=True)


def replay(path):
    data = json.load(open(path))
    S = flowgraph.load_supp()
    tmp = '/tmp/verif-c04-replay'
    os.makedirs(tmp, exist_ok=True)
    project = S['project'].Project([tmp])
    bad = 0
    for item in data.get('failing_inputs', []):
        r = item['replay']
        if 'stdlib_history' in r:
            bad += bool(c04_stdlib.replay_item(S, r))
            continue
        if r.get('kind') == 'evalmemo':
            bad += bool(evalmemo.replay_one(S, r))
            continue
        if 'history' in r:
            root = tmp + '-p'
            for rel, content in r['files'].items():
                fn = os.path.join(root, rel)
                os.makedirs(os.path.dirname(fn), exist_ok=True)
                open(fn, 'w').write(content)
            pr = S['project'].Project([root])
            ans = None
            for q in r['history']:
                q = (q[0], q[1], tuple(q[2]) if q[2] else None) + tuple(q[3:])
                ans = do_request(S, pr, root, q, r['inside_check_changes'])
                if [q[0], q[1]] + list(q[3:]) == r['request'][:2] + r['request'][3:]:
                    break
            q = r['request']
            cold = do_request(S, S['project'].Project([root]), root, (q[0], q[1], tuple(q[2]) if q[2] else None) + tuple(q[3:]), False)
            print('history answer %r\nfresh-project answer %r' % (ans, cold))
            bad += ans != cold
            import shutil
            shutil.rmtree(root, ignore_errors=True)
            continue
        if 'order' not in r:
            continue
        g = flowgraph.analyse(S, r['source'], os.path.join(tmp, 'm.py'), project)
        reads = g.reads()
        ans = None
        for i in r['order']:
            a = g.real_answer(reads[i][1])
            if i == r['query_index']:
                ans = a
        g1 = flowgraph.analyse(S, r['source'], os.path.join(tmp, 'm.py'), project)
        cold = g1.real_answer(g1.reads()[r['query_index']][1])
        print('history answer %r, cold-start answer %r' % (ans, cold))
        bad += ans != cold
    print('REPLAY: %d of the recorded inputs still fail' % bad)
    return 1 if bad else 0
