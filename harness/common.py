"""Shared machinery of every check: build + axiom audit of the Lean development,
the line-protocol driver, evidence, known findings, violation reporting.

Exit codes of a check: 0 = property held on everything explored, 1 = VIOLATION printed,
2 = infrastructure failure / time-out (never a verdict).
"""
import fcntl
import json
import os
import random
import re
import subprocess
import sys
import time

VERIF = os.path.dirname(os.path.dirname(os.path.abspath(__file__)))
REPO = os.environ.get('SUPP_REPO', '/repo')
LEAN = os.path.join(VERIF, 'lean')
DRIVER = os.path.join(LEAN, '.lake', 'build', 'bin', 'driver')
ALLOWED_AXIOMS = {'propext', 'Classical.choice', 'Quot.sound'}
FORBIDDEN = re.compile(r'\bsorry\b|\badmit\b|^\s*axiom\s|native_decide|bv_decide|implemented_by|\bunsafe\s|maxHeartbeats\s+0\b',
                       re.M)

TRUSTED_BASE = [
    'Lean 4.33.0 kernel (thorough tier: re-checked with leanchecker)',
    'axioms: subset of {propext, Classical.choice, Quot.sound}, audited per theorem with #print axioms on every run; '
    'no native_decide / bv_decide / sorry / own axioms (sources are grepped on every run)',
    'the formal statement of the property in lean/SuppModel/Props/<id>.lean',
    'the correspondence check (harness, serialisation, canonicalisation, driver, generator coverage): differential '
    'testing of the executable model against the code in /repo, not proof',
]


def log(*a):
    print(*a, file=sys.stderr, flush=True)


# --------------------------------------------------------------------------- lake

class LakeLock:
    def __enter__(self):
        self.f = open(os.path.join(LEAN, '.lake.lock'), 'w')
        fcntl.flock(self.f, fcntl.LOCK_EX)
        return self

    def __exit__(self, *a):
        fcntl.flock(self.f, fcntl.LOCK_UN)
        self.f.close()


def lake_env():
    env = dict(os.environ)
    env.pop('LEAN_PATH', None)
    return env


def lake_build(targets, timeout=1800):
    """-> (ok, output)"""
    with LakeLock():
        p = subprocess.run(['lake', 'build'] + list(targets), cwd=LEAN, env=lake_env(),
                           stdout=subprocess.PIPE, stderr=subprocess.STDOUT, text=True, timeout=timeout)
    return p.returncode == 0, p.stdout


def regen_all():
    """every translator's output for the checkout under test, so that whatever this property's theorems import is generated from
    THIS source (a Generated file left behind by a run on another checkout must not leak into this one).  A translator that
    refuses the source leaves its file as it is: the property it serves reports that."""
    import importlib
    tdir = os.path.join(VERIF, 'translators')
    sys.path.insert(0, tdir)
    try:
        for mod in sorted(f[:-3] for f in os.listdir(tdir) if f.startswith('tr_') and f.endswith('.py')):
            try:
                m = importlib.import_module(mod)
                if not hasattr(m, 'outputs'):
                    continue
                for rel, content in m.outputs(REPO).items():
                    regen(rel, content)
            except Exception as e:  # noqa
                log('regen_all: translator %s: %r' % (mod, e))
    finally:
        sys.path.remove(tdir)


def regen(relpath, content):
    """write a generated Lean file only when its content changed"""
    path = os.path.join(LEAN, relpath)
    os.makedirs(os.path.dirname(path), exist_ok=True)
    try:
        if open(path).read() == content:
            return False
    except OSError:
        pass
    with open(path + '.tmp', 'w') as f:
        f.write(content)
    os.replace(path + '.tmp', path)
    return True


def strip_comments(src):
    out = []
    i, depth, n = 0, 0, len(src)
    while i < n:
        if src.startswith('/-', i):
            depth += 1
            i += 2
        elif depth and src.startswith('-/', i):
            depth -= 1
            i += 2
        elif depth:
            if src[i] == '\n':
                out.append('\n')
            i += 1
        elif src.startswith('--', i):
            while i < n and src[i] != '\n':
                i += 1
        else:
            out.append(src[i])
            i += 1
    return ''.join(out)


def import_closure(module):
    """files of this project transitively imported by `module` (dotted name)"""
    seen, todo = {}, [module]
    while todo:
        m = todo.pop()
        if m in seen:
            continue
        path = os.path.join(LEAN, *m.split('.')) + '.lean'
        if not os.path.exists(path):
            continue
        seen[m] = path
        for line in open(path):
            mm = re.match(r'\s*(?:public\s+)?import\s+(\S+)', line)
            if mm and (mm.group(1).startswith('SuppModel') or mm.group(1).startswith('Audit')):
                todo.append(mm.group(1))
    return sorted(seen.values())


def grep_forbidden(module):
    """-> list of 'file:line: text' for forbidden constructs (outside comments) in the import closure of `module`"""
    hits = []
    for path in import_closure(module):
        code = strip_comments(open(path).read())
        for m in FORBIDDEN.finditer(code):
            ln = code.count('\n', 0, m.start()) + 1
            hits.append('%s:%d: %s' % (os.path.relpath(path, LEAN), ln, m.group(0).strip()))
    return hits


def property_theorems(prop):
    path = os.path.join(LEAN, 'SuppModel', 'Props', prop + '.lean')
    code = strip_comments(open(path).read())
    ns = re.search(r'^namespace\s+(\S+)', code, re.M)
    names = re.findall(r'^(?:private\s+)?theorem\s+([^\s:({\[]+)', code, re.M)
    return (ns.group(1) if ns else ''), names


def audit(prop, extra_modules=()):
    """#print axioms for every theorem of Props/<prop>.lean.
    -> (ok, {theorem: [axioms]}, problems[list of str], checker_cmd)"""
    ns, names = property_theorems(prop)
    lines = ['import SuppModel.Props.%s' % prop]
    lines += ['import %s' % m for m in extra_modules]
    for n in names:
        lines.append('#print axioms %s' % ((ns + '.' + n) if ns else n))
    regen(os.path.join('Audit', prop + '.lean'), '\n'.join(lines) + '\n')
    cmd = 'cd lean && lake build SuppModel.Props.%s && lake env lean Audit/%s.lean' % (prop, prop)
    with LakeLock():
        p = subprocess.run(['lake', 'env', 'lean', os.path.join('Audit', prop + '.lean')], cwd=LEAN, env=lake_env(),
                           stdout=subprocess.PIPE, stderr=subprocess.STDOUT, text=True, timeout=900)
    out = p.stdout
    axioms = {}
    for m in re.finditer(r"'([^']+)' depends on axioms: \[([^\]]*)\]", out):
        axioms[m.group(1).split('.')[-1]] = [a.strip() for a in m.group(2).replace('\n', ' ').split(',') if a.strip()]
    for m in re.finditer(r"'([^']+)' does not depend on any axioms", out):
        axioms[m.group(1).split('.')[-1]] = []
    problems = []
    if p.returncode != 0:
        problems.append('audit file failed to elaborate: ' + out[-400:])
    for n in names:
        if n not in axioms:
            problems.append('no axiom report for theorem ' + n)
        else:
            bad = [a for a in axioms[n] if a not in ALLOWED_AXIOMS]
            if bad:
                problems.append('theorem %s depends on %s' % (n, bad))
    problems += ['forbidden construct: ' + h for h in grep_forbidden('SuppModel.Props.' + prop)]
    return not problems, axioms, problems, cmd


def leanchecker(modules, timeout=1500):
    with LakeLock():
        p = subprocess.run(['lake', 'env', 'leanchecker'] + list(modules), cwd=LEAN, env=lake_env(),
                           stdout=subprocess.PIPE, stderr=subprocess.STDOUT, text=True, timeout=timeout)
    return p.returncode == 0, p.stdout[-2000:]


# --------------------------------------------------------------------------- driver

def ask_driver(requests, exe='driver', timeout=900):
    """run a compiled model driver on a batch of request objects -> list of replies"""
    if not requests:
        return []
    DRIVER = os.path.join(LEAN, '.lake', 'build', 'bin', exe)
    data = '\n'.join(json.dumps(r, separators=(',', ':')) for r in requests) + '\n'
    p = subprocess.run([DRIVER], input=data, stdout=subprocess.PIPE, stderr=subprocess.PIPE, text=True, timeout=timeout)
    lines = p.stdout.splitlines()
    if p.returncode != 0 or len(lines) != len(requests):
        raise RuntimeError('driver failed: rc=%s, %d replies for %d requests; stderr=%s'
                           % (p.returncode, len(lines), len(requests), p.stderr[-500:]))
    return [json.loads(l) for l in lines]


# --------------------------------------------------------------------------- findings

def load_known(prop):
    path = os.path.join(VERIF, 'KNOWN_FINDINGS.txt')
    res = []
    try:
        for line in open(path):
            line = line.strip()
            if line and not line.startswith('#') and not line.startswith('fixed:'):
                d = json.loads(line)
                if d.get('property') == prop:
                    res.append(d)
    except OSError:
        pass
    return res


# --------------------------------------------------------------------------- a check run

class Infra(Exception):
    pass


class Check:
    """bookkeeping of one run of one property's check"""

    def __init__(self, prop, tier, seed):
        self.prop, self.tier, self.seed = prop, tier, seed
        self.t0 = time.time()
        self.rng = random.Random(seed)
        self.obligations = []      # (name, discharged?, detail)
        self.broken = []           # names of theorems / correspondence streams that no longer check
        self.failures = []         # concrete failing inputs (dicts) not covered by a known finding
        self.known_hits = {}       # finding id -> what fails
        self.cov = {'evaluations': 0, 'distinct_nontrivial': 0, 'samples': [], 'rule': ''}
        self.assumptions = []
        self._called = None
        if os.environ.get('VERIF_TRACE_FOOTPRINT'):
            # development aid (translators/tr_pins.py): which functions of supp does this check's workload actually execute in
            # this process?  Written to $VERIF_TRACE_FOOTPRINT/<prop>.json by finish(); not used to decide anything.
            self._called = called = set()
            marker = os.sep + 'supp' + os.sep

            def prof(frame, event, arg):
                if event == 'call':
                    co = frame.f_code
                    if marker in co.co_filename:
                        called.add((os.path.basename(co.co_filename), getattr(co, 'co_qualname', co.co_name)))
            sys.setprofile(prof)
        self.trusted = list(TRUSTED_BASE)
        self.checker_cmd = ''
        self.extra = {}
        self.known = load_known(prop)

    # -- obligations
    def oblige(self, name, ok, detail=''):
        self.obligations.append((name, bool(ok), detail))
        if not ok:
            self.broken.append(name + ((': ' + detail) if detail else ''))
            log('[%s] BROKEN %s %s' % (self.prop, name, detail[:2000]))

    def prove(self, extra_targets=('driver',), extra_audit_modules=(), thorough_recheck=True):
        """build Props/<prop> (+ driver) and audit axioms; each theorem is one obligation"""
        regen_all()
        ok, out = lake_build(['SuppModel.Props.' + self.prop])
        ns, names = property_theorems(self.prop)
        if not ok:
            self.oblige('lake build SuppModel.Props.' + self.prop, False, out[-3000:])
            for n in names:
                self.obligations.append((n, False, 'module did not build'))
        else:
            aok, axioms, problems, cmd = audit(self.prop, extra_audit_modules)
            self.checker_cmd = cmd
            for n in names:
                bad = [p for p in problems if (' ' + n + ' ') in (' ' + p + ' ')]
                self.oblige('theorem ' + n, not bad, '; '.join(bad))
            rest = [p for p in problems if not any((' ' + n + ' ') in (' ' + p + ' ') for n in names)]
            self.oblige('axiom/forbidden-construct audit', not rest, '; '.join(rest))
            self.extra['axioms'] = axioms
        if ok and self.tier == 'thorough' and thorough_recheck:
            mods = ['SuppModel.Props.' + self.prop]
            cok, cout = leanchecker(mods)
            self.oblige('leanchecker re-check of ' + ' '.join(mods), cok, '' if cok else cout)
        self.pin_obligation()
        if extra_targets:
            ok2, out2 = lake_build(list(extra_targets))
            if not ok2:
                raise Infra('driver build failed:\n' + out2[-3000:])
        return ok

    def pin_obligation(self):
        """the functions of supp this property's models transliterate are, as abstract syntax, the audited ones (translators/tr_pins.py)"""
        sys.path.insert(0, os.path.join(VERIF, 'translators'))
        try:
            import tr_pins
            ok, problems, n = tr_pins.audit(REPO, self.prop)
        except Exception as e:  # noqa
            ok, problems, n = False, [repr(e)], 0
        finally:
            sys.path.pop(0)
        self.oblige('source pins: the %d functions of supp the models of %s transliterate are the audited ones (translators/tr_pins.py; '
                    'a change here is a broken tie, not by itself a violation)' % (n, self.prop), ok, '; '.join(problems[:8]))
        self.extra['source_pins'] = {'functions_in_footprint': n, 'problems': problems[:20]}

    def prove_also(self, props_module):
        """a second property file (lean/SuppModel/Props/<props_module>.lean) whose theorems count for this property too:
        built and audited the same way, each theorem one obligation"""
        ok, out = lake_build(['SuppModel.Props.' + props_module])
        ns, names = property_theorems(props_module)
        if not ok:
            self.oblige('lake build SuppModel.Props.' + props_module, False, out[-3000:])
            return False
        aok, axioms, problems, cmd = audit(props_module)
        self.checker_cmd = (self.checker_cmd + ' ; ' if self.checker_cmd else '') + cmd
        for n in names:
            bad = [p for p in problems if (' ' + n + ' ') in (' ' + p + ' ')]
            self.oblige('theorem %s (%s)' % (n, props_module), not bad, '; '.join(bad))
        rest = [p for p in problems if not any((' ' + n + ' ') in (' ' + p + ' ') for n in names)]
        self.oblige('axiom/forbidden-construct audit (%s)' % props_module, not rest, '; '.join(rest))
        self.extra.setdefault('axioms', {}).update(axioms)
        if self.tier == 'thorough':
            cok, cout = leanchecker(['SuppModel.Props.' + props_module])
            self.oblige('leanchecker re-check of SuppModel.Props.' + props_module, cok, '' if cok else cout)
        return True

    # -- coverage
    def sample(self, s, limit=6):
        if len(self.cov['samples']) < limit:
            self.cov['samples'].append(s)

    # -- results
    def fail(self, what, replay):
        """a concrete input on which the property fails on the real code"""
        for k in self.known:
            if k.get('status') == 'open' and k.get('_matcher') and k['_matcher'](what, replay):
                self.known_hits.setdefault(k['id'], k.get('what', what))
                return
        self.failures.append({'what': what, 'replay': replay})
        log('[%s] FAILING INPUT: %s' % (self.prop, what))

    def finish(self):
        if self._called is not None:
            sys.setprofile(None)
            d = os.environ['VERIF_TRACE_FOOTPRINT']
            os.makedirs(d, exist_ok=True)
            json.dump(sorted(self._called), open(os.path.join(d, self.prop + '.json'), 'w'))
        wall = time.time() - self.t0
        os.makedirs(os.path.join(VERIF, 'evidence'), exist_ok=True)
        os.makedirs(os.path.join(VERIF, 'replays'), exist_ok=True)
        n_obl = len(self.obligations)
        n_dis = sum(1 for _, ok, _ in self.obligations if ok)
        violation = bool(self.failures or self.broken)
        cov = dict(self.cov)
        cov.update({
            'obligations': n_obl, 'discharged': n_dis,
            'checker_cmd': self.checker_cmd or ('cd lean && lake build SuppModel.Props.%s' % self.prop),
            'trusted_base': self.trusted,
            'obligation_list': [{'name': n, 'discharged': ok} for n, ok, _ in self.obligations],
            'known_findings_seen': sorted(self.known_hits),
        })
        cov.update(self.extra)
        ev = {
            'property_id': self.prop, 'tier': self.tier, 'seed': self.seed, 'level': 'proof',
            'coverage': cov, 'assumptions': self.assumptions, 'wall_s': round(wall, 2),
            'violations': len(self.failures) + (1 if self.broken and not self.failures else 0),
        }
        with open(os.path.join(VERIF, 'evidence', self.prop + '.json'), 'w') as f:
            json.dump(ev, f, indent=1, sort_keys=True, default=str)
            f.write('\n')
        for fid, what in sorted(self.known_hits.items()):
            print('KNOWN-FINDING: property=%s %s (%s)' % (self.prop, what, fid))
        if violation:
            rel = os.path.join('replays', '%s-%s-%d.json' % (self.prop, self.tier, self.seed))
            with open(os.path.join(VERIF, rel), 'w') as f:
                json.dump({'property': self.prop, 'seed': self.seed, 'tier': self.tier,
                           'failing_inputs': self.failures[:20],
                           'no_longer_checks': self.broken}, f, indent=1, default=str)
            tail = '' if self.failures else ' no-failing-input-found'
            print('VIOLATION property=%s replay=%s%s' % (self.prop, rel, tail))
            sys.stdout.flush()
            return 1
        print('OK property=%s tier=%s seed=%d obligations=%d/%d evaluations=%d wall=%.1fs'
              % (self.prop, self.tier, self.seed, n_dis, n_obl, cov.get('evaluations', 0), wall))
        return 0
