"""C11 — every reported position points at the identifier it names.

tie    : translator (delimiter sets, window, call-site arguments, the shape of find_id_loc -> Generated/Text.lean,
         proofs re-checked) + correspondence of the model `findIdLoc` / `declaredAt` with
         SourceScope.find_id_loc and the declared_at of every import/def/class binding
search : slice the file text at every position reported by SourceScope.all_names / _global_names, lint (W01/W02) and
         location(); lint and location must report the position the binding carries
"""
import ast
import json
import os
import sys

from . import common
from . import textgen
from .textgen import cps, is_ascii, parser_lines

sys.path.insert(0, os.path.join(common.VERIF, 'translators'))
import tr_text  # noqa: E402


# ----------------------------------------------------------------------------- running supp

class Supp(object):
    def __init__(self):
        self.pkg = textgen.load_supp()
        m = sys.modules
        self.scope = m['supp.scope']
        self.nast = m['supp.nast']
        self.util = m['supp.util']
        self.assistant = m['supp.assistant']
        self.linter = m['supp.linter']
        self.name = m['supp.name']
        self.evaluator = m['supp.evaluator']
        projdir = '/tmp/text/proj-c11'
        os.makedirs(projdir, exist_ok=True)
        self.projdir = projdir
        self.project = m['supp.project'].Project([projdir])

    def scope_of(self, src, filename):
        """analysis without star-import resolution (no module is imported)"""
        source = self.util.Source(src, filename)
        sc = self.scope.SourceScope(source)
        self.nast.extract(source.tree, sc.flow)
        return sc

    def bindings(self, sc):
        """(kind, name, declared_at) of every enumerated binding"""
        out = []
        for flow, n in sc.all_names:
            out.append((type(n).__name__, n.name, tuple(n.declared_at), bool(getattr(n, 'is_star', False))))
        for k, n in sorted(sc._global_names.items()):
            out.append((type(n).__name__, n.name, tuple(n.declared_at), False))
        return out


KIND_OF_TYPE = {'FuncScope': 'func', 'ClassScope': 'class'}


def handler_positions(tree):
    """np(handler) -> name for `except ... as name`"""
    out = {}
    for n in ast.walk(tree):
        if isinstance(n, ast.ExceptHandler) and n.name:
            out.setdefault((n.lineno, n.col_offset), set()).add(n.name)
    return out


# ----------------------------------------------------------------------------- the oracle (independent of the model)

def slice_at(lines, pos, n):
    l, c = pos
    if not (isinstance(l, int) and isinstance(c, int)) or l < 1 or l > len(lines) or c < 0:
        return None
    return lines[l - 1][c:c + n]


def raw_declarations(S, src, cur, filename):
    """what location() computes before its projection: (declared_at, filename) of the declarations of the marked node,
    in the analysis of the marked text (name / attribute cursors only)"""
    try:
        source = S.util.Source(src, filename, cur)
        S.nast.extract_scope(source, S.project)
        if S.util.get_marked_import(source.tree):
            return None
        node = S.util.get_marked_name(source.tree) or S.util.get_marked_atribute(source.tree)
        if not node:
            return []
        result = S.evaluator.EvalCtx(S.project).declarations(node, [])
    except Exception:  # noqa
        return None
    out = []
    for r in result:
        if isinstance(r, list):
            alts = [[list(n.declared_at), n.filename] for n in r if hasattr(n, 'declared_at')]
            if alts:
                out.append(alts)
        elif hasattr(r, 'declared_at'):
            out.append([list(r.declared_at), r.filename])
    return out


def oracle_source(S, src, filename, tree=None, with_lint=True, location_cursors=0, rng=None, proj=None):
    """-> (list of (what, detail) failures, stats dict)"""
    fails = []
    st = {'bindings': 0, 'judged': 0, 'nonascii_skipped': 0, 'lint_entries': 0, 'location_results': 0, 'handlers': 0,
          'fallbacks': 0}
    tree = tree or ast.parse(src)
    lines = parser_lines(src)
    handlers = handler_positions(tree)
    try:
        sc = S.scope_of(src, filename)
        binds = S.bindings(sc)
    except RecursionError:
        return fails, st
    except Exception as e:  # noqa
        fails.append(('analysis raised %s' % type(e).__name__, {'error': repr(e)[:300]}))
        return fails, st
    by_name = {}
    star_pos = set(tuple(x[1]) for x in sc._star_imports)       # position of the `*` of unresolved star imports
    for kind, name, pos, star in binds:
        st['bindings'] += 1
        if star:
            continue
        by_name.setdefault(name, set()).add(pos)
        l, c = pos
        if not (isinstance(l, int) and 1 <= l <= len(lines)) or not isinstance(c, int) or c < 0:
            fails.append(('position outside the file', {'name': name, 'kind': kind, 'pos': list(pos)}))
            continue
        if not is_ascii(lines[l - 1]):
            st['nonascii_skipped'] += 1
            continue
        st['judged'] += 1
        if kind == 'AssignedName' and pos in handlers and name in handlers[pos]:
            st['handlers'] += 1
            want = 'except'
        else:
            want = name
        got = slice_at(lines, pos, len(want))
        if got != want:
            fails.append(('text at the reported position is not the identifier',
                          {'name': name, 'kind': kind, 'pos': list(pos), 'text': got, 'want': want, 'line': lines[l - 1][:300]}))
    if with_lint:
        try:
            res = S.linter.lint(S.project, src, filename)
        except RecursionError:
            res = []
        except Exception as e:  # noqa  -- totality is property C08: counted, not judged here
            st['lint_raised_' + type(e).__name__] = st.get('lint_raised_' + type(e).__name__, 0) + 1
            res = []
        for entry in res:
            code, msg, l, c = entry[0], entry[1], entry[2], entry[3]
            if code not in ('W01', 'W02'):
                continue
            st['lint_entries'] += 1
            name = msg.split(': ', 1)[1]
            if (l, c) not in by_name.get(name, ()):
                fails.append(('lint reports a position no enumerated binding of that name carries',
                              {'name': name, 'lint': [code, l, c], 'bindings': sorted(by_name.get(name, ()))}))
            if isinstance(l, int) and 1 <= l <= len(lines) and is_ascii(lines[l - 1]):
                want = 'except' if ((l, c) in handlers and name in handlers[(l, c)]) else name
                if slice_at(lines, (l, c), len(want)) != want:
                    fails.append(('text at the position lint reports is not the identifier',
                                  {'name': name, 'lint': [code, l, c], 'text': slice_at(lines, (l, c), len(want)),
                                   'line': lines[l - 1][:300]}))
    if location_cursors:
        reads = [n for n in ast.walk(tree) if isinstance(n, ast.Name) and isinstance(n.ctx, ast.Load)
                 and n.lineno == n.end_lineno and is_ascii(lines[n.lineno - 1])]
        # reads with a candidate definition on their own line come first (the mark shifts what stands right of the cursor)
        same = [n for n in reads if any(p[0] == n.lineno for p in by_name.get(n.id, ()))]
        other = [n for n in reads if not any(p[0] == n.lineno for p in by_name.get(n.id, ()))]
        if rng is not None:
            if len(same) > 3 * location_cursors:
                same = rng.sample(same, 3 * location_cursors)
            if len(other) > location_cursors:
                other = rng.sample(other, location_cursors)
        cursors = []
        for n in same:
            cursors.append((n, (n.lineno, n.end_col_offset)))
            if n.end_col_offset - n.col_offset > 1:
                cursors.append((n, (n.lineno, n.col_offset + 1 + (rng.randrange(n.end_col_offset - n.col_offset - 1) if rng else 0))))
        for n in other:
            cursors.append((n, (n.lineno, n.end_col_offset)))
        for n, cur in cursors:
            rights = [p for p in by_name.get(n.id, ()) if p[0] == cur[0] and p[1] > cur[1]]
            lefts = [p for p in by_name.get(n.id, ()) if p[0] == cur[0] and p[1] <= cur[1]]
            st['location_cursors'] = st.get('location_cursors', 0) + 1
            if rights:
                st['location_cursors_with_definition_right_on_line'] = st.get('location_cursors_with_definition_right_on_line', 0) + 1
            if lefts:
                st['location_cursors_with_definition_left_on_line'] = st.get('location_cursors_with_definition_left_on_line', 0) + 1
            try:
                locs = S.assistant.location(S.project, src, cur, filename)
            except (SyntaxError, RecursionError):
                continue
            except Exception as e:  # noqa  -- totality of the API is property C08, not C11: counted, not judged
                st['location_raised_' + type(e).__name__] = st.get('location_raised_' + type(e).__name__, 0) + 1
                if os.environ.get('C11_SHOW_CRASHES'):
                    import traceback
                    common.log('C11_SHOW_CRASHES', repr(src), cur, type(e).__name__, e, traceback.extract_tb(e.__traceback__)[-1])
                continue
            if proj is not None and (rights or lefts or (rng is not None and rng.random() < 0.3)):
                raw = raw_declarations(S, src, cur, filename)
                if raw is not None:
                    proj.append((raw, cur, filename, locs))
            flat = []
            for r in locs:
                flat += r if isinstance(r, list) else [r]
            if rights:
                # the same request on an UNNAMED buffer (filename=None, as an editor sends for a new file): its own-buffer results are
                # judged by the same sentence (found missing by seeded change C11-5: the un-shift of the mark keyed on the file name)
                try:
                    unnamed = S.util.Source(src, None).filename
                    for r in S.assistant.location(S.project, src, cur, None):
                        for r1 in (r if isinstance(r, list) else [r]):
                            if r1['file'] == unnamed:
                                flat.append({'loc': r1['loc'], 'file': filename, 'unnamed_buffer': True})
                                st['location_results_unnamed_buffer'] = st.get('location_results_unnamed_buffer', 0) + 1
                except Exception:  # noqa  -- totality is C08
                    pass
            for r in flat:
                if r['file'] != filename:
                    continue
                st['location_results'] += 1
                pos = tuple(r['loc'])
                if pos[0] == cur[0] and pos[1] > cur[1]:
                    st['location_results_right_of_cursor_on_its_line'] = st.get('location_results_right_of_cursor_on_its_line', 0) + 1
                if pos in star_pos:
                    continue
                if pos == (1, 0) and not any(pos in v for v in by_name.values()):
                    continue        # the module itself (a package importing itself): ImportedModule.declared_at, not a binding
                if pos not in by_name.get(n.id, ()):
                    # go-to-definition follows assignments (x = y -> y's binding): accept any enumerated binding position
                    if not any(pos in v for v in by_name.values()):
                        fails.append(('location reports a position no enumerated binding carries',
                                      {'name': n.id, 'cursor': list(cur), 'loc': list(pos), 'unnamed_buffer': bool(r.get('unnamed_buffer'))}))
                        continue
                l, c = pos
                if 1 <= l <= len(lines) and is_ascii(lines[l - 1]):
                    cands = [nm for nm, v in by_name.items() if pos in v]
                    ok = any(slice_at(lines, pos, len(w)) == w for nm in cands
                             for w in ([nm] + (['except'] if pos in handlers and nm in handlers[pos] else [])))
                    if not ok:
                        fails.append(('text at the position location reports is not the identifier',
                                      {'name': n.id, 'cursor': list(cur), 'loc': list(pos), 'candidates': cands[:5]}))
    return fails, st


# ----------------------------------------------------------------------------- correspondence

def correspondence_requests(S, src, filename, tree, rng, raw_queries):
    """-> (request, impl answers, labels) for one source"""
    source = S.util.Source(src, filename)
    lines = source.lines
    sc = S.scope.SourceScope(source)
    stmts = textgen.binding_statements(tree, lines)
    q, impl, labels = [], [], []
    for kind, name, start in stmts:
        q.append([kind, cps(name), start[0], start[1], 0, True])
        labels.append((kind, name, start))
        impl.append(None)       # filled from the analysis below
    # raw calls with arbitrary arguments
    ids = sorted(set(n for _, n, _ in stmts)) or ['a']
    frag = ['d', 'e', 'f', 'de', 'ef', 'im', 'port', 'as', 's', ' ', 'a', 'o', 'r', '(', ',', 'def', 'import', '', ' a', 'os', '\n', 'x\n', '*']
    for _ in range(raw_queries):
        ident = rng.choice(ids) if rng.random() < 0.6 else rng.choice(frag)
        if rng.random() < 0.2:
            ident = ' ' + ident
        if stmts and rng.random() < 0.7:
            start = rng.choice(stmts)[2]
        else:
            ln = rng.randrange(1, len(lines) + 3)
            start = (ln, rng.randrange(0, 12))
        shift = rng.choice([0, 0, 1, 2])
        delims = rng.random() < 0.6
        try:
            r = sc.find_id_loc(ident, start, shift, delims)
        except Exception as e:  # noqa
            r = type(e).__name__
        q.append(['raw', cps(ident), start[0], start[1], shift, delims])
        labels.append(('raw', ident, start, shift, delims))
        impl.append(list(r) if isinstance(r, tuple) else r)
    return {'op': 'file', 'src': cps(src), 'q': q}, impl, labels, stmts


def impl_binding_positions(S, src, filename):
    sc = S.scope_of(src, filename)
    out = []
    for flow, n in sc.all_names:
        t = type(n).__name__
        if t in ('FuncScope', 'ClassScope'):
            out.append((KIND_OF_TYPE[t], n.name, tuple(n.declared_at)))
        elif t == 'ImportedName' and not getattr(n, 'is_star', False):
            out.append(('imp', n.name, tuple(n.declared_at)))
    glob = []
    for k, n in sc._global_names.items():
        t = type(n).__name__
        if t in ('FuncScope', 'ClassScope'):
            glob.append((KIND_OF_TYPE[t], n.name, tuple(n.declared_at)))
        elif t == 'ImportedName':
            glob.append(('imp', n.name, tuple(n.declared_at)))
    return sorted(out), sorted(glob)


def install_matchers(check):
    for k in check.known:
        if False:
            pass
        elif k.get('class') == 'window-51-lines':
            k['_matcher'] = lambda what, replay: what.startswith('text at') and replay.get('fallback_beyond_window') is True


def report(check, kind, src, fn, fails):
    """hand the oracle's failures to check.fail with the classifier fields the known-finding matchers read"""
    for what, detail in fails:
        replay = {'kind': kind, 'detail': detail}
        if kind == 'file':
            replay['file'] = fn
            replay['src'] = src if len(src) < 100000 else None
        else:
            replay['src'] = src
        replay['fallback_beyond_window'] = beyond_window(src, detail)
        check.fail(what + ' (%s)' % (detail.get('name'),), replay)


def run(check):
    quick = check.tier == 'quick'
    rng = check.rng
    # 1. translate
    try:
        changed = common.regen(tr_text.REL, tr_text.translate(common.REPO))
        check.oblige('translator tr_text (scope/nast/util/assistant -> Generated/Text.lean)', True)
        check.extra['generated_changed'] = changed
    except tr_text.Untranslatable as e:
        check.oblige('translator tr_text (scope/nast/util/assistant -> Generated/Text.lean)', False,
                     'source shape not recognised: %s' % e)
    except Exception as e:  # noqa
        check.oblige('translator tr_text (scope/nast/util/assistant -> Generated/Text.lean)', False, repr(e))
    # 2. prove
    check.prove(extra_targets=('drv_text',))
    wok, wout = common.lake_build(['SuppModel.Witness.C11'])
    check.oblige('witnesses SuppModel.Witness.C11 (evaluations of the model on the recorded legacy / open-finding inputs)', wok,
                 '' if wok else wout[-1500:])

    S = Supp()
    install_matchers(check)

    # 3. inputs: generated layouts + real files
    gen = textgen.Gen(rng)
    programs = []
    for s in textgen.FIXED_LAYOUTS:
        programs.append(('fixed', s))
    n_fixed = len(programs)
    n_gen = 700 if quick else 8000
    unparsable = 0
    while len(programs) < n_fixed + n_gen:
        s = gen.program()
        try:
            ast.parse(s)
        except (SyntaxError, ValueError):
            unparsable += 1
            continue
        programs.append(('gen', s))
    files = textgen.real_files(check, 40 if quick else 400)

    # 3a. correspondence
    reqs, meta = [], []
    for kind, src in programs:
        fn = os.path.join(S.projdir, 'gen.py')
        tree = ast.parse(src)
        req, impl, labels, stmts = correspondence_requests(S, src, fn, tree, rng, 6)
        reqs.append(req)
        meta.append((kind, src, fn, impl, labels, stmts))
    for f, src in files:
        tree = ast.parse(src)
        req, impl, labels, stmts = correspondence_requests(S, src, f, tree, rng, 10)
        reqs.append(req)
        meta.append(('file', src, f, impl, labels, stmts))
    replies = common.ask_driver(reqs, exe='drv_text')
    dis_raw = dis_decl = n_raw = n_decl = 0
    hyp_nonl = sum(1 for r in replies if r.get('nonl'))
    hyp_ascii = [sum(1 for x in r.get('ascii', []) if x) for r in replies]
    hyp_lines = [len(r.get('ascii', [])) for r in replies]
    fallbacks = 0
    noncanonical = set()
    for (kind, src, fn, impl, labels, stmts), rep in zip(meta, replies):
        if 'ok' not in rep:
            raise common.Infra('driver: %r' % rep)
        model = rep['ok']
        model_decl = []
        for lab, im, mo in zip(labels, impl, model):
            if lab[0] == 'raw':
                n_raw += 1
                if im != mo:
                    dis_raw += 1
                    if dis_raw <= 5:
                        check.oblige('correspondence find_id_loc', False,
                                     'source %r: find_id_loc%r: impl %r, model %r' % (short(src if kind != 'file' else fn), lab[1:], im, mo))
            else:
                n_decl += 1
                model_decl.append(('imp' if lab[0].startswith('import') else lab[0], lab[1], tuple(mo)))
                if tuple(mo) == tuple(lab[2]):
                    fallbacks += 1
        try:
            impl_decl, impl_glob = impl_binding_positions(S, src, fn)
        except RecursionError:
            continue
        # names bound under a `global` declaration live in a dict (_global_names: last binding wins), not in all_names
        gnames = set(nm for n in ast.walk(ast.parse(src)) if isinstance(n, ast.Global) for nm in n.names)
        if gnames:
            glob_ok = set(impl_glob) <= set(model_decl) and all(x[1] in gnames for x in impl_glob)
            model_decl = [x for x in model_decl if x[1] not in gnames]
            impl_decl = [x for x in impl_decl if x[1] not in gnames]
        else:
            glob_ok = not impl_glob
        if sorted(model_decl) != impl_decl or not glob_ok:
            dis_decl += 1
            if dis_decl <= 5:
                a, b = set(impl_decl), set(model_decl)
                check.oblige('correspondence declared_at', False,
                             'source %r: impl-only %r, model-only %r' % (short(src if kind != 'file' else fn),
                                                                        sorted(a - b)[:4], sorted(b - a)[:4]))
        # layouts that differ from the canonical rendering of the statement
        if kind != 'file':
            noncanonical.add(src)
    if dis_raw == 0:
        check.oblige('correspondence find_id_loc (model = SourceScope.find_id_loc on arbitrary arguments)', True)
    if dis_decl == 0:
        check.oblige('correspondence declared_at (model = positions of all import/def/class bindings)', True)

    # 3b. correspondence: util.splitlines (the model splits the file text itself) on separators of every kind
    seps = ['\n', '\r\n', '\r', '\n\r', '\x0b', '\x0c', '\x1c', '\x1d', '\x1e', '\x85', '\u2028', '\u2029', '\r\r\n', '\n\n', ' ', '']
    texts = ['', '\n', '\r', '\r\n', '\n\n', 'a', 'a\n', 'a\r\n', 'a\n\n', '\na', 'a\rb\r\nc\nd', 'a\x0cb\nc', '\r\n\r\n', 'a\r\n\n']
    for _ in range(1500 if quick else 15000):
        texts.append(''.join(rng.choice(['a', 'b c', '', 'import os', 'é', 'x = 1']) + rng.choice(seps) for _ in range(rng.choice([0, 1, 2, 3, 5]))))
    texts += [src for _, src in programs[:200]]
    dis_sl = 0
    for t, r in zip(texts, common.ask_driver([{'op': 'splitlines', 's': cps(t)} for t in texts], exe='drv_text')):
        impl_lines = S.util.Source(t, 'f.py').lines          # splitlines(source) or ['']
        if ([textgen.uncps(x) for x in r['ok']] or ['']) != impl_lines:
            dis_sl += 1
            if dis_sl <= 5:
                check.oblige('correspondence splitlines', False, 'text %r: impl %r, model %r' % (t[:80], impl_lines[:8], [textgen.uncps(x) for x in r['ok']][:8]))
    if dis_sl == 0:
        check.oblige('correspondence splitlines (model splitlines = Source(text).lines on texts with separators of every kind)', True)

    # 4. oracle search on the real code
    totals = {}
    n_fail = 0
    loc_budget = 4 if quick else 12

    proj = []

    def run_oracle(kind, src, fn, lint, cursors):
        nonlocal n_fail
        try:
            tree = ast.parse(src)
        except SyntaxError:
            return
        fails, st = oracle_source(S, src, fn, tree, with_lint=lint, location_cursors=cursors, rng=rng, proj=proj)
        for k, v in st.items():
            totals[k] = totals.get(k, 0) + v
        n_fail += len(fails)
        report(check, kind, src, fn, fails)

    for kind, src in programs:
        run_oracle(kind, src, os.path.join(S.projdir, 'gen.py'), True, loc_budget if rng.random() < (0.3 if quick else 1.0) else 0)
    for f, src in files:
        small = len(src) < (40000 if quick else 150000)
        run_oracle('file', src, f, small, (loc_budget if small else 0))

    # 4a. correspondence: the projection of location() (un-shift of the mark) on the raw declarations of the marked analysis
    reqs, want = [], []
    for raw, cur, fn, locs in proj:
        flat_raw, flat_out = [], []
        for r in raw:
            flat_raw += r if r and isinstance(r[0], list) and isinstance(r[0][0], list) else [r]
        for r in locs:
            flat_out += r if isinstance(r, list) else [r]
        if len(flat_raw) != len(flat_out):
            reqs.append(None)
            want.append((cur, fn, flat_raw, flat_out))
            continue
        for (pos, f), o in zip(flat_raw, flat_out):
            reqs.append({'op': 'location_entry', 'file': cps(f), 'srcfile': cps(fn), 'ln': pos[0], 'col': pos[1], 'cln': cur[0], 'ccol': cur[1]})
            want.append((cur, fn, [pos, f], o))
    prep = iter(common.ask_driver([r for r in reqs if r is not None], exe='drv_text'))
    dis_proj = n_proj = moved = 0
    for r, (cur, fn, raw, o) in zip(reqs, want):
        if r is None:
            dis_proj += 1
            check.oblige('correspondence location projection', False, 'cursor %r of %s: %d raw declarations, %d results' % (cur, fn, len(raw), len(o)))
            continue
        rep = next(prep)
        n_proj += 1
        moved += 1 if rep['loc'] != rep['legacy'] else 0
        if rep['loc'] != list(o['loc']) or textgen.uncps(rep['file']) != o['file']:
            dis_proj += 1
            if dis_proj <= 5:
                check.oblige('correspondence location projection', False,
                             'cursor %r, raw declaration %r: impl %r, model %r' % (cur, raw, [list(o['loc']), o['file']], [rep['loc'], textgen.uncps(rep['file'])]))
    if dis_proj == 0:
        check.oblige('correspondence location projection (model locationEntry = location() on the declarations of the marked analysis)', True)

    check.cov['evaluations'] = n_proj + n_raw + n_decl + totals.get('bindings', 0) + totals.get('lint_entries', 0) + totals.get('location_results', 0)
    check.cov['distinct_nontrivial'] = len(set((s, tuple(l[1:])) for (k, s, f, i, labs, st) in meta for l in labs if l[0] != 'raw'))
    check.cov['rule'] = ('correspondence: every import/def/class binding of %d generated layouts (fixed list + random programs: multi-name, '
                         'parenthesised multi-line imports, aliases equal to module/member names, dotted and relative imports, decorated/async '
                         'definitions, tabs, extra spaces, backslash continuations, comments directly after names, several statements per '
                         'line, compound one-liners, names that are fragments of keywords) and of %d real files, plus find_id_loc on random '
                         '(id, start, shift, delimiters) arguments; non-trivial = distinct (source, binding statement, name) triple. '
                         'oracle: slice of the file text at every position from all_names/_global_names, lint W01/W02 and location()'
                         % (len(programs), len(files)))
    check.extra.update({'programs': len(programs), 'unparsable_generated': unparsable, 'real_files': len(files),
                        'hypothesis_no_newline_inside_a_line(true of sources)': '%d of %d' % (hyp_nonl, len(replies)),
                        'hypothesis_ascii_line(true of lines)': '%d of %d' % (sum(hyp_ascii), sum(hyp_lines)),
                        'find_id_loc_calls': n_raw, 'declared_at_bindings': n_decl, 'model_fallbacks': fallbacks,
                        'location_projections': n_proj, 'location_projections_unshifted': moved, 'disagreements_location_projection': dis_proj,
                        'splitlines_texts': len(texts), 'disagreements_splitlines': dis_sl,
                        'disagreements_find_id_loc': dis_raw, 'disagreements_declared_at': dis_decl,
                        'layout_features': gen.features, 'oracle': totals, 'oracle_failures_before_known_findings': n_fail})
    for kind, src in programs[n_fixed:n_fixed + 3]:
        check.sample({'source': src[:400]})
    for f, _ in files[-3:]:
        check.sample({'file': f})
    check.assumptions += [
        'columns are compared on ASCII-only lines (ast reports UTF-8 byte offsets, supp searches code points)',
        "util.splitlines is modelled (the driver receives the file text); that its lines are the parser's lines is checked by the "
        'slicing oracle (texts with \\r\\n, \\r, form feeds and the other str.splitlines-only separators are among the layouts)',
        'positions that come straight from ast (targets, parameters, handlers) are checked by slicing, not proved',
        'star-import names carry the position of the `*` and are not judged; modules (declared_at (1, 0)) are not bindings',
    ]
    check.trusted += ['translators/tr_text.py (ast pattern recogniser; compares find_id_loc with a template)',
                      "the slicing oracle in harness/c11.py (parser lines = text split on '\\n' after universal-newline reading)"]


def beyond_window(src, detail):
    """the binding statement is longer than the 51-line window and the name lies beyond it"""
    try:
        tree = ast.parse(src)
    except SyntaxError:
        return False
    pos = tuple(detail.get('pos') or detail.get('lint', [None, 0, 0])[1:] or ())
    name = detail.get('name')
    for kind, nm, start in textgen.binding_statements(tree):
        if nm == name and tuple(start) == pos:
            # where is the name really? beyond line start+50?
            for node in ast.walk(tree):
                if isinstance(node, (ast.Import, ast.ImportFrom)) and (node.lineno, node.col_offset) == tuple(start):
                    for a in node.names:
                        if (a.asname or a.name.partition('.')[0] if isinstance(node, ast.Import) else (a.asname or a.name)) == nm:
                            if a.end_lineno is not None and a.end_lineno > start[0] + 50:
                                return True
    return False


def short(x, n=300):
    s = repr(x)
    return s if len(s) <= n else s[:n] + '...(%d chars)' % len(s)


def replay(path):
    """re-run the recorded failing inputs against the current code and the oracle (known findings still apply)"""
    S = Supp()
    data = json.load(open(path))
    still = 0
    for item in data.get('failing_inputs', []):
        r = item['replay']
        src = r.get('src')
        fn = r.get('file') or os.path.join(S.projdir, 'gen.py')
        if src is None and r.get('file'):
            try:
                src = open(r['file'], encoding='utf-8').read()
            except OSError as e:
                print('cannot re-read %s: %s' % (r['file'], e))
        if src is None:
            continue
        chk = common.Check(data.get('property', 'C11'), 'quick', 0)
        install_matchers(chk)
        fails, _ = oracle_source(S, src, fn, with_lint=True, location_cursors=50)
        report(chk, r.get('kind', 'gen'), src, fn, fails)
        name = (r.get('detail') or {}).get('name')
        same = [f for f in chk.failures if (f['replay'].get('detail') or {}).get('name') == name] or chk.failures
        print('%s: %s' % ('STILL FAILS' if same else 'passes now', item['what']))
        for f in same[:3]:
            print('   ', f['what'], json.dumps(f['replay'].get('detail'))[:300])
        still += 1 if same else 0
    return 1 if still else 0
