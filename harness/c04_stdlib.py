"""C04 at the level of whole requests on real files: assist / location requests at attribute cursors of standard-library files,
asked in random orders on ONE long-lived Project, against the answer of a fresh Project per request.

This is the shape in which supp 265f3e6's defect showed (logging.Manager(1). after logging.PlaceHolder(1).): it needs classes
whose attribute tables need each other, which generated programs rarely have and real code has."""
import ast
import glob
import os

# modules with property/setter pairs over attributes assigned through the setter, class attributes assigned at module level and
# instances created inside methods of other classes; asked for on every run
CLASS_REQUESTS = {
    'logging': ['Manager(1)', 'PlaceHolder(1)', 'Logger(1)', 'root', 'LoggerAdapter(1, 2)', 'Handler()', 'StreamHandler().formatter', 'Logger.manager'],
    'argparse': ['ArgumentParser()', 'ArgumentParser().add_argument(1)', 'Namespace()', 'HelpFormatter(1)', '_ActionsContainer(1, 2, 3, 4)'],
    'threading': ['Thread()', 'Condition()', 'Event()', 'Timer(1, 2)', 'current_thread()'],
    'collections': ['OrderedDict()', 'Counter()', 'ChainMap()', 'UserDict()', 'deque'],
}


def requests(rng, n_files):
    stdlib = os.path.dirname(os.__file__)
    out = []
    for mod, exprs in sorted(CLASS_REQUESTS.items()):
        for e in exprs:
            src = 'import %s\n%s.%s.' % (mod, mod, e)
            out.append(('assist', os.path.join(stdlib, 'zq_buffer.py'), src, (2, len(src.split('\n')[1]))))
    files = sorted(glob.glob(stdlib + '/*.py')) + sorted(glob.glob(stdlib + '/*/*.py'))
    files = [f for f in files if os.path.getsize(f) < 60000 and '/test' not in f and 'idlelib' not in f and 'lib2to3' not in f]
    rng.shuffle(files)
    for fn in [os.path.join(stdlib, 'logging', '__init__.py')] + files[:n_files]:
        try:
            src = open(fn, encoding='utf8').read()
            tree = ast.parse(src)
        except Exception:  # noqa
            continue
        attrs = [n for n in ast.walk(tree) if isinstance(n, ast.Attribute) and isinstance(n.ctx, ast.Load)
                 and n.value.end_lineno == n.end_lineno and src.splitlines()[n.end_lineno - 1].isascii()]
        rng.shuffle(attrs)
        for n in attrs[:4]:
            out.append(('assist', fn, src, (n.value.end_lineno, n.value.end_col_offset + 1)))
        for n in attrs[4:6]:
            out.append(('location', fn, src, (n.end_lineno, n.end_col_offset)))
    return stdlib, out


def ask(S, project, r):
    kind, fn, src, pos = r
    try:
        if kind == 'assist':
            p, props = S['assistant'].assist(project, src, pos, fn)
            return [p, list(props)]
        return S['assistant'].location(project, src, pos, fn)
    except RecursionError:
        return 'RecursionError'
    except Exception as e:  # noqa
        return 'raised ' + type(e).__name__


def run(check, S):
    quick = check.tier == 'quick'
    import logging
    logging.disable(logging.CRITICAL)
    try:
        stdlib, reqs = requests(check.rng, 0 if quick else 40)
        fresh = [ask(S, S['project'].Project([stdlib]), r) for r in reqs]
        n = 0
        idx = list(range(len(reqs)))
        for h in range(6 if quick else 12):
            project = S['project'].Project([stdlib])
            order = idx[:]
            check.rng.shuffle(order)
            if quick:
                order = order[:60]
            for k, i in enumerate(order):
                a = ask(S, project, reqs[i])
                n += 1
                if a != fresh[i]:
                    kind, fn, src, pos = reqs[i]
                    check.fail('a request on a long-lived project answers differently depending on the requests made before (standard-library files)',
                               {'stdlib_history': [[reqs[j][0], os.path.relpath(reqs[j][1], stdlib), reqs[j][2] if 'zq_buffer' in reqs[j][1] else None,
                                                    list(reqs[j][3])] for j in order[:k + 1]],
                                'answer_in_this_history': a, 'answer_of_a_fresh_project': fresh[i]})
                    break
    finally:
        logging.disable(logging.NOTSET)
    check.extra['stdlib_request_histories'] = {'distinct_requests': len(reqs), 'requests': n,
                                               'nonempty_reference_answers': sum(1 for f in fresh if isinstance(f, list) and f and f != ['', []] and (len(f) != 2 or f[1])),
                                               'note': 'python %s standard library at %s' % ('.'.join(map(str, __import__('sys').version_info[:3])), stdlib)}
    return n


def replay_item(S, r):
    stdlib = os.path.dirname(os.__file__)
    hist = []
    for kind, rel, src, pos in r['stdlib_history']:
        fn = os.path.join(stdlib, rel)
        hist.append((kind, fn, src if src is not None else open(fn, encoding='utf8').read(), tuple(pos)))
    project = S['project'].Project([stdlib])
    a = None
    for q in hist:
        a = ask(S, project, q)
    cold = ask(S, S['project'].Project([stdlib]), hist[-1])
    print('history answer %r\nfresh-project answer %r' % (a, cold))
    return a != cold
