"""Shared by harness/c11.py and harness/c12.py (Text family): source generators that vary layout,
real-file samples, driver (de)serialisation, supp loading."""
import ast
import glob
import os
import re
import sys

from . import common

SPLITLINES_ONLY = '\x0b\x0c\x1c\x1d\x1e\x85\u2028\u2029'    # line boundaries for str.splitlines, not for the parser


def cps(s):
    return [ord(c) for c in s]


def uncps(a):
    return ''.join(chr(x) for x in a)


def load_supp():
    """import supp from common.REPO (fresh)"""
    for k in [k for k in sys.modules if k == 'supp' or k.startswith('supp.')]:
        del sys.modules[k]
    if common.REPO in sys.path:
        sys.path.remove(common.REPO)
    sys.path.insert(0, common.REPO)
    import logging
    logging.disable(logging.CRITICAL)
    import supp.scope, supp.nast, supp.util, supp.assistant, supp.linter, supp.project, supp.name  # noqa
    return sys.modules['supp']


def is_ascii(s):
    try:
        s.encode('ascii')
        return True
    except UnicodeEncodeError:
        return False


def parser_lines(src):
    """the lines the tokenizer numbers: \\n, \\r\\n and \\r end a line, nothing else does"""
    return re.split('\r\n|\r|\n', src)


# ----------------------------------------------------------------------------- real files

def real_files(check, n_stdlib):
    """the repository's own files + a deterministic (per seed) sample of the standard library"""
    repo = sorted(glob.glob(os.path.join(common.REPO, 'supp', '*.py')) + glob.glob(os.path.join(common.REPO, 'tests', '*.py')))
    stdlib_dir = os.path.dirname(os.__file__)
    std = sorted(f for f in glob.glob(os.path.join(stdlib_dir, '*.py')) + glob.glob(os.path.join(stdlib_dir, '*', '*.py'))
                 if '/test/' not in f and '/tests/' not in f and '/idlelib/' not in f and '/lib2to3/' not in f
                 and '/site-packages/' not in f and '/turtledemo/' not in f)
    rng = check.rng
    pick = rng.sample(std, min(n_stdlib, len(std)))
    out = []
    for f in repo + sorted(pick):
        try:
            with open(f, encoding='utf-8') as fh:     # universal newlines
                src = fh.read()
            ast.parse(src)
        except (SyntaxError, UnicodeDecodeError, ValueError, OSError):
            continue
        out.append((f, src))
    return out


# ----------------------------------------------------------------------------- layout generator

NAMES = ['os', 'osx', 'os2', 'a', 'ab', 'b', 'd', 'de', 'f', 'e', 'im', 'imp', 'port', 'or_', 'asy', 'nc', 'sync', 'cl', 'ass',
         'c', 'l', 's', 'fr', 'om', 'o', 'm', 'p', 'r', 't', 'i', 'path', 'sys', 'A', 'B', 'cls', 'x', 'y', '_p', 'n',
         'a1', 'a_b', 'fro', 'impor', 'clas', 'asyn', 'pas', 'pass_', 'in_', 'is_', 'sa', 'as_']
SP = [' ', ' ', ' ', '  ', '\t', ' \t', ' \\\n  ', '   ']
OSP = ['', '', '', ' ', '  ', '\t']


class Gen(object):
    def __init__(self, rng, formfeed=True, nonascii=True):
        self.rng = rng
        self.features = {}
        self.formfeed = formfeed
        self.nonascii = nonascii

    def feat(self, k):
        self.features[k] = self.features.get(k, 0) + 1

    def name(self):
        return self.rng.choice(NAMES)

    def sp(self):
        s = self.rng.choice(SP)
        if '\\' in s:
            self.feat('continuation')
        elif s != ' ':
            self.feat('extra-space/tab')
        return s

    def osp(self):
        return self.rng.choice(OSP)

    def dotted(self, rel=False):
        n = self.rng.choice([1, 1, 1, 2, 3])
        s = '.'.join(self.name() for _ in range(n))
        if n > 1:
            self.feat('dotted')
        if rel and self.rng.random() < 0.3:
            self.feat('relative')
            s = '.' * self.rng.choice([1, 1, 2, 3]) + (s if self.rng.random() < 0.7 else '')
        return s

    def tail(self):
        r = self.rng.random()
        if r < 0.55:
            return ''
        if r < 0.65:
            self.feat('comment-after-name')
            return '#c'
        if r < 0.72:
            return ' # c os sys a b'
        if r < 0.80:
            self.feat('semicolon')
            return ';'
        if r < 0.85:
            return ' ;'
        if r < 0.92:
            return ' '
        return '\t'

    def alias_item(self, names, dotted_ok):
        base = self.dotted() if dotted_ok else self.name()
        if self.rng.random() < 0.4:
            r = self.rng.random()
            if r < 0.3:
                alias = base.split('.')[-1]
                self.feat('alias=member')
            elif r < 0.5 and names:
                alias = self.rng.choice(names).split('.')[0]
                self.feat('alias=other-name')
            else:
                alias = self.name()
            names.append(alias)
            return base + self.sp() + 'as' + self.sp() + alias
        names.append(base)
        return base

    def import_stmt(self):
        names = []
        n = self.rng.choice([1, 1, 2, 3, 4])
        if n > 1:
            self.feat('multi-name')
        items = [self.alias_item(names, True) for _ in range(n)]
        sep = [self.osp() + ',' + self.osp() for _ in range(n)]
        body = ''.join(i + s for i, s in zip(items, sep[:-1] + ['']))
        return 'import' + self.sp() + body + self.tail()

    def from_stmt(self):
        names = []
        mod = self.dotted(rel=True)
        head = 'from' + self.sp() + mod + self.sp() + 'import'
        if self.rng.random() < 0.06:
            self.feat('star')
            return head + self.osp() + '*' + self.tail()
        n = self.rng.choice([1, 1, 2, 3, 5])
        if n > 1:
            self.feat('multi-name')
        if self.rng.random() < 0.25:
            names.append(mod.strip('.').split('.')[0] or 'a')     # member equal to the module name
            items = [names[-1]] + [self.alias_item(names, False) for _ in range(n - 1)]
            self.feat('member=module')
        else:
            items = [self.alias_item(names, False) for _ in range(n)]
        if self.rng.random() < 0.5:
            # parenthesised, possibly multi-line, comments directly after names
            self.feat('parenthesised')
            out = head + self.osp() + '('
            for k, it in enumerate(items):
                brk = self.rng.random()
                if brk < 0.4:
                    self.feat('multi-line')
                    out += ('#c' if self.rng.random() < 0.2 else '') + '\n' + ' ' * self.rng.choice([0, 1, 4, 8])
                else:
                    out += self.osp()
                out += it
                if k < len(items) - 1 or self.rng.random() < 0.3:
                    out += self.osp() + ','
                if self.rng.random() < 0.15:
                    self.feat('comment-after-name')
                    out += '#' + self.name() + '\n' + ' ' * self.rng.choice([0, 2])
            out += self.rng.choice(['', ' ', '\n', '\n  ']) + ')'
            return out + self.tail()
        sep = [self.osp() + ',' + self.osp() for _ in range(n)]
        return head + self.sp() + ''.join(i + s for i, s in zip(items, sep[:-1] + ['']) ) + self.tail()

    def params(self):
        n = self.rng.choice([0, 1, 2, 3])
        ps = []
        used = set()
        for _ in range(n):
            p = self.name()
            if p in used:
                continue
            used.add(p)
            ps.append(p)
        r = self.rng.random()
        if r < 0.15 and len(ps) >= 2:
            ps.insert(1, '/')
        extra = []
        if self.rng.random() < 0.2:
            v = self.name()
            if v not in used:
                used.add(v)
                extra.append('*' + v)
                k = self.name()
                if k not in used and self.rng.random() < 0.5:
                    used.add(k)
                    extra.append(k + '=1')
        if self.rng.random() < 0.15:
            k = self.name()
            if k not in used:
                extra.append('**' + k)
        return (',' + self.osp()).join(ps + extra)

    def type_params(self):
        if self.rng.random() < 0.04:
            self.feat('pep695-type-params')
            return self.rng.choice(['[T]', ' [T]', '[T, U]'])
        return ''

    def def_stmt(self, indent):
        out = ''
        if self.rng.random() < 0.25:
            self.feat('decorated')
            for _ in range(self.rng.choice([1, 1, 2])):
                out += '@' + self.name() + self.rng.choice(['', '(' + self.name() + ')', '.' + self.name()]) + '\n' + indent
        if self.rng.random() < 0.3:
            self.feat('async')
            out += 'async' + self.sp()
        name = self.name()
        out += 'def' + self.sp() + name + self.type_params() + self.osp() + '(' + self.params() + ')' + self.osp()
        if self.rng.random() < 0.2:
            out += '->' + self.osp() + self.name() + self.osp()
        out += ':'
        return out + self.body(indent)

    def class_stmt(self, indent):
        out = ''
        if self.rng.random() < 0.15:
            self.feat('decorated')
            out += '@' + self.name() + '\n' + indent
        name = self.name()
        out += 'class' + self.sp() + name + self.type_params()
        r = self.rng.random()
        if r < 0.4:
            out += self.osp() + '(' + self.rng.choice(['', self.name(), self.name() + ', ' + self.name(), 'metaclass=' + self.name()]) + ')'
        out += self.osp() + ':'
        return out + self.body(indent)

    def body(self, indent):
        r = self.rng.random()
        if r < 0.35:
            return self.osp() + self.rng.choice(['pass', '...', 'import ' + self.name(), 'return' if False else 'pass'])
        if r < 0.45:
            self.feat('comment-after-name')
            return '#c\n' + indent + '    pass'
        inner = indent + '    '
        k = self.rng.choice([1, 1, 2])
        return '\n' + '\n'.join(inner + self.stmt(inner, depth=1) for _ in range(k))

    def target(self, depth=0):
        r = self.rng.random()
        if depth < 2 and r < 0.35:
            self.feat('nested-target')
            n = self.rng.choice([1, 2, 3])
            elts = [self.target(depth + 1) for _ in range(n)]
            if self.rng.random() < 0.3:
                self.feat('starred-target')
                elts[self.rng.randrange(len(elts))] = '*' + self.name()
            o, c = self.rng.choice([('(', ')'), ('[', ']'), ('', '')] if depth else [('(', ')'), ('[', ']'), ('', ''), ('', '')])
            return o + (',' + self.osp()).join(elts) + (',' if n == 1 or self.rng.random() < 0.2 else '') + c
        return self.name()

    def simple_stmt(self):
        r = self.rng.random()
        if r < 0.2:
            return self.import_stmt()
        if r < 0.4:
            return self.from_stmt()
        if r < 0.6:
            return self.target() + self.osp() + '=' + self.osp() + self.rng.choice(['1', self.name(), '(1, (2, 3)), 4', '[]'])
        if r < 0.68:
            return self.name() + self.osp() + '=' + self.osp() + self.name() + ' = 1'
        if r < 0.75:
            return self.name() + ': int = 1'
        if r < 0.82:
            return 'print((%s := %s))' % (self.name(), self.name())
        if r < 0.9:
            return '%s = [%s for %s in %s]' % (self.name(), self.name(), self.target(1), self.name())
        if r < 0.95:
            return '%s = lambda %s: %s' % (self.name(), self.params().replace('/,', '').replace('/', ''), self.name())
        if r < 0.975:
            self.feat('same-line-definition')
            v = self.name()
            return self.rng.choice(['[%s for %s in %s]' % (v, v, self.name()), '%s = lambda %s: %s' % (self.name(), v, v),
                                    'print(%s, (%s := 1))' % (v, v), '{%s: 1 for %s in %s}' % (v, v, self.name())])
        return self.name() + '(' + self.name() + ')'

    def stmt(self, indent, depth=0):
        """one logical statement (may span lines); first line without indent"""
        r = self.rng.random()
        if r < 0.4:
            n = self.rng.choice([1, 1, 1, 2, 3])
            if n > 1:
                self.feat('several-per-line')
            return (self.osp() + ';' + self.osp()).join(self.simple_stmt().rstrip(';').split('#')[0] if k < n - 1 else self.simple_stmt()
                                                        for k in range(n))
        if r < 0.55 and depth < 2:
            return self.def_stmt(indent)
        if r < 0.65 and depth < 2:
            return self.class_stmt(indent)
        if r < 0.67 and depth < 2:
            self.feat('same-line-definition')
            v, w = self.name(), self.name()
            return self.rng.choice(['while %s:' % w, 'for %s in %s:' % (w, self.name())]) + self.osp() + \
                self.rng.choice(['%s = 1; %s = %s; %s = 2' % (v, self.name(), v, v), 'print(%s); %s = 1' % (v, v),
                                 'import %s as %s; %s; %s = 1' % (self.name(), v, v, v)])
        if r < 0.72:
            self.feat('compound-one-liner')
            head = self.rng.choice(['if %s:' % self.name(), 'while 0:', 'for %s in %s:' % (self.target(1), self.name()),
                                    'with %s as %s:' % (self.name(), self.target(1))])
            return head + self.osp() + self.rng.choice([self.import_stmt(), self.from_stmt()])
        if r < 0.80:
            self.feat('except-handler')
            inner = indent + '    '
            return ('try:' + self.osp() + 'import ' + self.name() + '\n' + indent + 'except' + self.sp() + self.name() + self.sp() + 'as' + self.sp()
                    + self.name() + self.osp() + ':\n' + inner + self.simple_stmt() + '\n' + indent + 'else:' + self.osp() + self.import_stmt())
        if r < 0.88:
            inner = indent + '    '
            return ('for' + self.sp() + self.target() + self.sp() + 'in' + self.sp() + self.name() + self.osp() + ':\n' + inner + self.simple_stmt())
        if r < 0.93:
            inner = indent + '    '
            return ('with' + self.sp() + self.name() + self.sp() + 'as' + self.sp() + self.target(1) + self.osp() + ':\n' + inner + self.simple_stmt())
        return self.simple_stmt()

    def program(self):
        self.features_before = dict(self.features)
        out = []
        for _ in range(self.rng.choice([2, 3, 4, 6, 9])):
            r = self.rng.random()
            if self.formfeed and r < 0.02:
                self.feat('form-feed')
                out.append(self.rng.choice(['\x0c', '\x0c' + self.import_stmt(), '# page\x0c']))
            elif self.nonascii and r < 0.08:
                self.feat('non-ascii-line')
                out.append(self.rng.choice(['é = 1', '# ünïcode', "s = 'ééé'; import os", 'from a import (é,\n  b)', 'def ñ(): pass']))
            elif r < 0.12:
                out.append('')
            out.append(self.stmt('', 0))
        return '\n'.join(out) + self.rng.choice(['\n', '\n', ''])


FIXED_LAYOUTS = [
    'import os#c\n', 'import os, sys\n', 'from a import (b,\n  c as d,\n  e)\n', 'from foo import foo\n', 'import a.b as b\n',
    'import a.b\n', 'from a import b\\\n, c\n', 'from a import b as \\\n   c\n', 'def\tf(): pass\n', 'def  f(): pass\n',
    'async  def  g(): pass\n', 'class\tA: pass\n', '@dec\ndef h(): pass\n', 'def f(a, *b, c=1, **d): pass\n',
    'def \\\nfoo(): pass\n', 'x = 1; import os; from os import path as p\n', 'import osx, os\n', 'from . import a, ab\n',
    'from .a import a\n', 'import aa.a as a\n', 'from a import ba, a\n', 'try:\n  pass\nexcept E as e:\n  pass\n',
    'from a import *\n', 'lam = lambda q: q\n', 'def  defx(): pass\n', 'class A:\n  class  A: pass\n',
    'def f(): pass;\ndef ff(): pass\n', 'def g(x, f): pass\ndef f(): pass\n', 'import a.b.c, a.d\n',
    'if 1:\n    import a as b, c as a\n', 'import os, osx, os2 as os\n', 'async def d(): pass\n', 'async def a(): pass\n',
    'async def sync(): pass\n', 'def e(): pass\n', 'def d(d): pass\n', 'class cl: pass\n', 'class c(l): pass\n', 'class s:pass\n',
    'import im, port\n', 'import t\n', 'from fr import om, r\n', 'from m import m\n', 'from o import o as o\n',
    'import os;import sys\n', 'if 1:import sys\n', 'class A:import sys\n', 'try:import a\nexcept:import b\nelse:import c\nfinally:import d\n',
    'from a import(b)\n', 'from a import b;\n', 'import a.b.c as d;\n', 'def f():pass\n', 'def f():import x\n',
    'with a:import y\n', 'from a import b as c, c as b\n', 'class A(B):pass\n', 'class A :pass\n', 'def f\\\n(): pass\n',
    'x=1;  import\tz\n', 'import a ,b\n', 'from a import*\n', 'from a import (\n\n\n  b\n)\n', '(a, (b, *c)), d = v\n',
    'for a, (b, *c) in v: pass\n', 'with o as (a, b): pass\n', '[a, b] = v\n', 'a = b = c\n', 'def f(a, /, b, *c, d=1, **e): pass\n',
    'try: pass\nexcept  E  as  e : pass\n', 'try: pass\nexcept (E, F) as e: pass\nexcept G as g: pass\n',
    'try: pass\nexcept* E as e: pass\n', 'def f():\n    global g\n    g = 1\n', 'x = [i for i, (j, *k) in v]\n',
    'from a import (b as c,  # c\n   d as e)  # e\n', 'import a as b, b as a\n', 'import a\\\n.b\n', 'import os as\\\nos\n',
    '@d\n@e\nasync def f(): pass\n', '@d(f)\ndef f(): pass\n', 'class A:\n    def A(self): pass\n', 'def f(f=f): pass\n',
    'class A(A): pass\n', "def f(x='def f('): pass\n", 'def g(): pass # def g\n', "import a # import b\n",
    'from a import (b, # c\n c)\n', 'import a;import b;import c\n', 'x = 1\n\x0c\nimport os\ndef f(): pass\n',
    'from a import (\n' + ''.join('  n%d,\n' % i for i in range(52)) + ')\n',            # longer than the 51-line window
    'x = 1\n' * 60 + 'from a import (b,\n  c)\ndef f(): pass\n',
    # definitions on the line of the read, right and left of it (location() analyses the marked text)
    'x = 1\n[nn for nn in x]\n', 'x = 1\nfor i in x: print(zz); zz = 1\n', 'x = 1\nwhile x: a = 1; b = a; a = 2\n',
    'x = 1\nfor i in x: a = 1; b = a; a = 2; print(a, b)\n', 'f = lambda pp, qq: pp + qq\n', 'x = 1\ng = [lambda: later for later in x]\n',
    'x = 1\nr = [yy for _ in x if (yy := 1)]\n', 'x = 1\nwhile x: print(ww); ww = 1\n', 'x = {}\nd = {kk: vv for kk, vv in x}\n',
    'x = 1\ns = {ee for ee in x}; t = (gg for gg in x)\n', 'c = 1\nif c: rr = 1; print(rr)\n', 'o = 1\nwith o as hh: hh\n',
    'try: tt = 1\nexcept E as ex: print(ex, tt); tt = 2\n', 'import os; os; import sys as os\n', 'class C: cc = 1; dd = cc; cc = 2\n',
    'x = 1\nwhile x: import mm as nm; nm; from q import nm\n', 'x = 1\nfor k in x: (k, jj); jj = k\n', 'x = [1]\nm = [[uu for uu in vv] for vv in x]\n',
    'x = 1\nwhile x: ff(); ff = lambda: 1\n', 'x = 1\nwhile x: gg(); \\\n  hh = gg; gg = 1\n',
    'x = 1\r\nimport os\r\ndef f(): pass\r\n', 'x = 1\rimport os\rdef f(): pass\r', 'import a\n# \x0b\nimport b # \x1c\nimport c\nz = "\x1d\x1e"\nimport d\n',
    'x = "\x85\u2028\u2029"\nimport os\n', '# \x0c\x0c\nclass A: pass\n\x0c\n\x0cdef f(): pass\n',
    'class A[T]: pass\n', 'def f[T](x): pass\n', 'class A [T]: pass\n', 'async def f[T, *U](x): pass\n',
]


# ----------------------------------------------------------------------------- statements of a tree

def alias_start(lines, a):
    """where supp (8033e90) starts the search for the identifier an alias binds: one column left of the alias, or of its asname
    (re-implemented here from the sentence, columns converted from UTF-8 bytes to characters)"""
    if a.asname:
        ln, col = a.end_lineno, a.end_col_offset - len(a.asname.encode('utf-8'))
    else:
        ln, col = a.lineno, a.col_offset
    col = len(lines[ln - 1].encode('utf-8')[:col].decode('utf-8', 'ignore'))
    if col == 0:            # first thing on a continuation line: from the end of the line before
        return (ln - 1, len(lines[ln - 2]))
    return (ln, col - 1)


def binding_statements(tree, lines=None):
    """(kind, name, start of the search) for every import / def / class binding, as supp/nast.py + scope.py name them: np(node)
    for def / class, the alias for imports (`lines`: the text as supp splits it; without it the statement start, as before 8033e90)"""
    out = []
    for node in ast.walk(tree):
        if isinstance(node, ast.Import):
            for a in node.names:
                name = a.asname or a.name.partition('.')[0]
                out.append(('import', name, alias_start(lines, a) if lines is not None else (node.lineno, node.col_offset)))
        elif isinstance(node, ast.ImportFrom):
            for a in node.names:
                name = a.asname or a.name
                if name != '*':
                    out.append(('importfrom', name, alias_start(lines, a) if lines is not None else (node.lineno, node.col_offset)))
        elif isinstance(node, (ast.FunctionDef, ast.AsyncFunctionDef)):
            out.append(('func', node.name, (node.lineno, node.col_offset)))
        elif isinstance(node, ast.ClassDef):
            out.append(('class', node.name, (node.lineno, node.col_offset)))
    return out
