"""C01 — reaching-definitions core (family Den), see harness/flowsem.py.

tie    : correspondence supp names_at per read == Den at_ (lean/SuppModel/Den/Model.lean via drv_den), module and
         function level; executable Sem (run) == instrumented CPython trace
search : real supp vs real CPython on every decision sequence of generated programs
"""
from . import flowsem, flowgraph, extractcorr


def run(check):
    flowsem.run_property(check, 'C01')
    # "no UNKNOWN NAME": the extractor gives every identifier read a region - theorem extract_every_load_has_flow over the
    # Lean transliteration of nast.extract (family Extract), tied to the real extractor by an exact graph comparison
    check.prove_also('Extract')
    from . import common
    ok, out = common.lake_build(['drv_extract'])
    if not ok:
        raise common.Infra('drv_extract build failed:\n' + out[-2000:])
    S = flowgraph.load_supp()
    progs = [('special%d' % i, s) for i, s in enumerate(extractcorr.SPECIALS)] + \
        extractcorr.generated(check.rng, 100 if check.tier == 'quick' else 1000) + extractcorr.repo_files()
    extractcorr.stream(check, S, progs, name='extractor (Lean transliteration = real extractor; reads without a region)')
    # constructs the statement-language generator cannot nest: hand-written programs executed under CPython (model-free)
    from . import c01_exec
    check.cov['evaluations'] = check.cov.get('evaluations', 0) + c01_exec.run(check, S)


def replay(path):
    import json
    from . import c01_exec
    data = json.load(open(path))
    ex = [i for i in data.get('failing_inputs', []) if isinstance(i.get('replay'), dict) and i['replay'].get('kind') == 'c01_exec']
    bad = 0
    if ex:
        S = flowgraph.load_supp()
        for i in ex:
            bad += 1 if c01_exec.replay_item(S, i['replay']) else 0
    rest = flowsem.replay_file('C01', path) if len(ex) < len(data.get('failing_inputs', [])) or not ex else 0
    return 1 if bad or rest else 0
