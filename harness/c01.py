"""C01 — reaching-definitions core (family Den), see harness/flowsem.py.

tie    : correspondence supp names_at per read == Den at_ (lean/SuppModel/Den/Model.lean via drv_den), module and
         function level; executable Sem (run) == instrumented CPython trace
search : real supp vs real CPython on every decision sequence of generated programs
"""
from . import flowsem, flowgraph, extractcorr


def run(check):
    flowsem.run_property(check, 'C01')
    # "no UNKNOWN NAME": the extractor gives every identifier read a region - theorem extract_every_load_has_flow over the
    # Lean transliteration of nast.extract (family Extract), tied to the real extractor by an exact graph comparison
    check.prove_also('Extract')
    from . import common
    ok, out = common.lake_build(['drv_extract'])
    if not ok:
        raise common.Infra('drv_extract build failed:\n' + out[-2000:])
    S = flowgraph.load_supp()
    progs = [('special%d' % i, s) for i, s in enumerate(extractcorr.SPECIALS)] + \
        extractcorr.generated(check.rng, 100 if check.tier == 'quick' else 1000) + extractcorr.repo_files()
    extractcorr.stream(check, S, progs, name='extractor (Lean transliteration = real extractor; reads without a region)')


def replay(path):
    return flowsem.replay_file('C01', path)
