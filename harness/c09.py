"""C09 — a long-lived supp `Project` answers exactly like a fresh one.

tie    : correspondence of the executable model `SuppModel.Proj` (driver drv_proj, variant "current") with
         supp.project.Project + assistant.assist/location + linter.lint on whole histories
         (write / touch / request), request by request; and of the model's `fresh` with a brand-new Project.
         Streams: exhaustive short histories and random long ones with absolute imports, and the same with
         relative imports (norm_package/_norm_cache/_renormed are modelled too; theorem C09 covers both)
search : the real code against an independent oracle of the property: after every request of a history the
         long-lived project's answer is compared with a brand-new `Project([root])` on the same disk
"""
import itertools
import json
import logging
import os
import shutil
import sys
import tempfile

from . import common

# ----------------------------------------------------------------------------- identifier table (fixed)
#   1..7   module-name components   zq_m<i>
#   8, 9   package-name components  zq_p8, zq_p9  (as LAST component of a dotted name: <dir>/__init__.py)
#   10..19 binding names            K10 .. K19
#   900+i  underscore names         _h<i>   (not star-exported)
PACKAGE_IDENTS = (8, 9)
MODULE_IDENTS = tuple(range(1, 10))
BIND_IDENTS = tuple(range(10, 20))
HIDDEN_BASE = 900

T0 = 1_000_000_000      # real mtime of model time c is T0 + 10 * c
FUEL = 60
XNAME = 'zq_x'          # the request's own file <root>/zq_x.py, never on disk


def ident_name(i):
    if i in PACKAGE_IDENTS:
        return 'zq_p%d' % i
    if 1 <= i <= 9:
        return 'zq_m%d' % i
    if 10 <= i <= 19:
        return 'K%d' % i
    if i >= HIDDEN_BASE:
        return '_h%d' % (i - HIDDEN_BASE)
    raise ValueError('identifier outside the table: %r' % (i,))


def dotted(mod):
    return '.'.join(ident_name(i) for i in mod)


def mod_relpath(mod):
    parts = [ident_name(i) for i in mod]
    if mod[-1] in PACKAGE_IDENTS:
        return os.path.join(*(parts + ['__init__.py']))
    return os.path.join(*parts) + '.py'


def render_item(it):
    tag = it[0]
    if tag == 'bind':
        return 'class %s: v%d = 1' % (ident_name(it[1]), it[2])
    if tag == 'imp':
        return 'import %s' % ident_name(it[1])
    if tag == 'frm':
        if it[2] == it[3]:
            return 'from %s import %s' % (dotted(it[1]), ident_name(it[2]))
        return 'from %s import %s as %s' % (dotted(it[1]), ident_name(it[2]), ident_name(it[3]))
    if tag == 'star':
        return 'from %s import *' % dotted(it[1])
    if tag == 'rfrm':       # ['rfrm', up, mod, x, y]: `up + 1` leading dots
        head = '.' * (it[1] + 1) + dotted(it[2])
        if it[3] == it[4]:
            return 'from %s import %s' % (head, ident_name(it[3]))
        return 'from %s import %s as %s' % (head, ident_name(it[3]), ident_name(it[4]))
    if tag == 'rstar':      # ['rstar', up, mod]
        return 'from %s import *' % ('.' * (it[1] + 1) + dotted(it[2]))
    raise ValueError('bad item %r' % (it,))


def render_src(src):
    return ''.join(render_item(it) + '\n' for it in src)


def through_module(q):
    """the module a request goes through (for the coverage rule)"""
    if q[0] == 'lint':
        return tuple(q[1])
    mod, mname = q[1], q[2]
    if mname is not None and 1 <= mname <= 9:
        return tuple(mod) + (mname,)
    return tuple(mod)


# ----------------------------------------------------------------------------- the real code

class Real(object):
    """one scratch root; histories are run in it one after the other"""

    def __init__(self, root):
        from supp.project import Project
        from supp.assistant import assist, location
        from supp.linter import lint
        self.Project, self.assist, self.location, self.lint = Project, assist, location, lint
        self.root = root
        self.xfile = os.path.join(root, XNAME + '.py')
        self.on_disk = {}       # relpath -> (text, modeltime) as last written by us

    # -- disk
    def put(self, mod, text, mtime):
        rel = mod_relpath(mod)
        fn = os.path.join(self.root, rel)
        d = os.path.dirname(fn)
        if not os.path.isdir(d):
            os.makedirs(d)
        with open(fn, 'w') as f:
            f.write(text)
        t = T0 + 10 * mtime
        os.utime(fn, (t, t))
        self.on_disk[rel] = (text, mtime)

    def reset(self, disk):
        """make the root contain exactly `disk` (files of the previous history that differ are rewritten / removed)"""
        want = {}
        for mod, mtime, src in disk:
            want[mod_relpath(mod)] = (mod, render_src(src), mtime)
        for rel in sorted(self.on_disk):
            if rel not in want:
                os.unlink(os.path.join(self.root, rel))
                del self.on_disk[rel]
        for rel in sorted(want):
            mod, text, mtime = want[rel]
            if self.on_disk.get(rel) != (text, mtime):
                self.put(mod, text, mtime)

    def wipe(self):
        for name in sorted(os.listdir(self.root)):
            p = os.path.join(self.root, name)
            if os.path.isdir(p):
                shutil.rmtree(p)
            else:
                os.unlink(p)
        self.on_disk = {}

    # -- answers
    def file_module(self, fn):
        if fn == self.xfile:
            return 'X'
        rel = os.path.relpath(fn, self.root)
        if rel.endswith('.py'):
            rel = rel[:-3]
        parts = rel.split(os.sep)
        if parts and parts[-1] == '__init__':
            parts = parts[:-1]
        return '.'.join(parts)

    def answer(self, project, q):
        try:
            with project.check_changes():
                return self._answer(project, q)
        except Exception as e:  # noqa
            return 'EXC:' + type(e).__name__

    def _answer(self, project, q):
        kind = q[0]
        if kind == 'lint':
            reads = ', '.join(ident_name(x) for x in q[2])
            source = 'from %s import *\nprint(%s)\n' % (dotted(q[1]), reads)
            out = []
            for r in self.lint(project, source, self.xfile):
                if r[0] == 'E02' and r[1].startswith('Undefined name: '):
                    out.append(r[1][len('Undefined name: '):])
            return sorted(set(out))
        mod, mname = q[1], q[2]
        if mname is None:
            if len(mod) != 1:
                raise ValueError('import-form request needs a one-component module: %r' % (q,))
            imp = 'import %s' % dotted(mod)
            head = dotted(mod)
        else:
            imp = 'from %s import %s' % (dotted(mod), ident_name(mname))
            head = ident_name(mname)
        if kind == 'names':
            r = self.assist(project, imp + '\n' + head + '.', (2, len(head) + 1), self.xfile)[1]
            return sorted(set(r))
        y = ident_name(q[3])
        if kind == 'attr':
            r = self.assist(project, imp + '\n' + head + '.' + y + '.', (2, len(head) + len(y) + 2), self.xfile)[1]
            return sorted(set(r))
        if kind == 'loc':
            r = self.location(project, imp + '\n' + head + '.' + y, (2, len(head) + 2), self.xfile)
            out = []
            for d in r:
                if isinstance(d, list):
                    out.append('multi')
                else:
                    out.append([self.file_module(d['file']), d['loc'][0]])
            return out
        raise ValueError('bad query %r' % (q,))

    # -- a history
    def run_history(self, disk, clock, ops):
        """-> list of (op index, query, long-lived answer, fresh answer) per request"""
        self.reset(disk)
        exists = dict((tuple(m), render_src(s)) for m, _, s in disk)
        project = self.Project([self.root])
        out = []
        for i, op in enumerate(ops):
            if op[0] == 'write':        # ['write', mod, mtime, src]
                text = render_src(op[3])
                self.put(op[1], text, op[2])
                exists[tuple(op[1])] = text
            elif op[0] == 'touch':      # ['touch', mod, mtime]
                if tuple(op[1]) in exists:
                    self.put(op[1], exists[tuple(op[1])], op[2])
            else:
                q = op[1]
                a = self.answer(project, q)
                f = self.answer(self.Project([self.root]), q)
                out.append((i, q, a, f))
        return out


def canon_model(a):
    if a == 'nothing':
        return []
    if a == 'recursion':
        return 'recursion'
    if isinstance(a, dict):
        if 'names' in a:
            return sorted(set(ident_name(x) for x in a['names']))
        if 'payload' in a:
            return ['v%d' % a['payload']]
        if 'locs' in a:
            return [['X' if m is None else dotted(m), ln] for m, ln in a['locs']]
        if 'undefined' in a:
            return sorted(set(ident_name(x) for x in a['undefined']))
    return 'MODEL?:' + json.dumps(a)


def jshort(x, n=1500):
    s = json.dumps(x, separators=(',', ':'))
    return s if len(s) <= n else s[:n] + '...(%d chars)' % len(s)


# ----------------------------------------------------------------------------- exhaustive stream

# a = [1] top importer, b = [2] middle, c = [3] far end of the chain, [4] a plain module, [5] missing at first
# (imported by b and by the second importer [6]); ranks 3 < 5 < 2 < 4 < 1, 6: acyclic for every source ever written
EXH_DISK = [
    [[1], 1, [['star', [2]], ['imp', 4], ['frm', [2], 11, 12], ['bind', 15, 8]]],
    [[2], 2, [['frm', [3], 10, 10], ['bind', 11, 3], ['star', [5]], ['bind', 900, 2]]],
    [[3], 3, [['bind', 10, 7]]],
    [[4], 4, [['bind', 10, 4]]],
    [[6], 5, [['frm', [2], 10, 10], ['frm', [5], 13, 13], ['star', [3]]]],
]
EXH_CLOCK = 5
EXH_OPS = [
    ['req', ['names', [1], None]],
    ['req', ['attr', [1], None, 10]],
    ['req', ['lint', [1], [10, 13, 15, 16, 900]]],
    ['req', ['loc', [6], None, 13]],
    ['write', [3], [['bind', 10, 9], ['bind', 15, 2]]],
    ['write', [2], [['bind', 16, 1], ['star', [5]], ['frm', [3], 15, 10], ['bind', 11, 5]]],
    ['write', [5], [['bind', 13, 6], ['bind', 15, 1]]],
    ['touch', [3]],
]
EXH_OPS7 = EXH_OPS[:7]


def exhaustive_histories(maxlen, alphabet):
    for n in range(1, maxlen + 1):
        for combo in itertools.product(range(len(alphabet)), repeat=n):
            yield (EXH_DISK, EXH_CLOCK, [alphabet[k] for k in combo])


# ----------------------------------------------------------------------------- random stream

TOP_MODS = [[1], [2], [3], [4], [5], [6], [7]]
PKG_SETS = [
    [[8], [8, 1], [8, 2]],
    [[8], [8, 2], [8, 3]],
    [[9], [9, 1]],
    [[8, 2], [8, 3]],                 # package directory without __init__.py
    [[8], [8, 9], [8, 9, 1]],
]


def gen_universe(rng):
    """-> list of modules in rank order (index = rank); only lower ranks may be imported"""
    n_top = rng.choice([2, 3, 3, 4, 4, 5])
    tops = rng.sample(TOP_MODS, n_top)
    pk = [list(m) for m in rng.choice(PKG_SETS)]
    if rng.random() < 0.3:
        extra = [m for m in ([9], [9, 1]) if m not in pk]
        if pk[0][0] != 9:
            pk += [list(m) for m in extra]
    room = max(1, 6 - len(tops))
    if len(pk) > room:
        pk = pk[:room] if rng.random() < 0.5 else pk[-room:]
    uni = [list(m) for m in tops] + pk
    rng.shuffle(uni)
    return uni


def gen_source(rng, uni, rank, current, names_pool, ghost):
    """a source for uni[rank] that imports only lower-rank modules (or modules that never exist)"""
    lower = uni[:rank]
    items = []
    n = rng.choice([1, 2, 2, 3, 3, 4, 5])
    for _ in range(n):
        k = rng.random()
        if not lower and k >= 0.35 and rng.random() < 0.8:
            k = 0.0
        if k < 0.35:
            x = rng.choice(names_pool) if rng.random() < 0.85 else HIDDEN_BASE + rng.randrange(3)
            items.append(['bind', x, rng.randrange(1, 10)])
            continue
        # importable: lower-ranked modules, and parent directories of those that never become a module
        targets = lower + [m[:-1] for m in lower if len(m) > 1 and m[:-1] not in uni and m[:-1] not in lower]
        target = rng.choice(targets) if targets and rng.random() < 0.9 else ghost
        if k < 0.5:
            tops = [m for m in lower if len(m) == 1]
            m = rng.choice(tops) if tops and rng.random() < 0.9 else ghost
            items.append(['imp', m[0]])
        elif k < 0.8:
            cands = []
            src = current.get(tuple(target))
            if src:
                for it in src:      # names the target has now: own, imported (re-export), module names
                    if it[0] == 'bind':
                        cands.append(it[1])
                    elif it[0] == 'imp':
                        cands.append(it[1])
                    elif it[0] == 'frm':
                        cands.append(it[3])
            # submodules of the target that are lower-ranked too (from pkg import mod)
            subs = [m[-1] for m in lower if len(m) == len(target) + 1 and m[:-1] == target]
            r = rng.random()
            if subs and r < 0.35:
                x = rng.choice(subs)
            elif cands and r < 0.75:
                x = rng.choice(cands)
            else:
                x = rng.choice(names_pool) if rng.random() < 0.9 else HIDDEN_BASE + rng.randrange(3)
            if 1 <= x <= 9:
                sub = target + [x]
                if sub in uni and uni.index(sub) >= rank:
                    x = rng.choice(names_pool)      # would be an edge to a module that is not lower-ranked
            y = x if rng.random() < 0.6 else rng.choice(names_pool)
            items.append(['frm', list(target), x, y])
        else:
            items.append(['star', list(target)])
    return items


def gen_query(rng, uni, names_pool, ghost):
    mod = list(rng.choice(uni)) if rng.random() < 0.93 else list(ghost)
    kind = rng.choice(['names', 'attr', 'attr', 'loc', 'loc', 'lint'])
    ypool = names_pool + [HIDDEN_BASE, HIDDEN_BASE + 1] + sorted(set(m[-1] for m in uni))
    if kind == 'lint':
        k = rng.randrange(1, 5)
        reads = rng.sample(ypool, min(k, len(ypool)))
        return ['lint', mod, reads]
    if len(mod) > 1:
        mod, mname = mod[:-1], mod[-1]          # from-form: from <parent> import <last>
    elif rng.random() < 0.2:
        mname = rng.choice(ypool)               # head is a name of the module (binding or re-exported module)
    else:
        mname = None
    if kind == 'names':
        return ['names', mod, mname]
    return [kind, mod, mname, rng.choice(ypool)]


def gen_scenario(rng, maxlen):
    uni = gen_universe(rng)
    ghost = [m for m in reversed(TOP_MODS) if m not in uni][0]      # a module that never exists
    names_pool = list(range(10, 10 + rng.choice([3, 4, 5, 6])))
    current = {}
    disk = []
    # some modules do not exist at first (may be created by a write later)
    absent = set()
    for m in uni:
        if rng.random() < 0.25:
            absent.add(tuple(m))
    if len(absent) == len(uni):
        absent.discard(tuple(uni[0]))
    t = 0
    for r, m in enumerate(uni):
        if tuple(m) in absent:
            continue
        src = gen_source(rng, uni, r, current, names_pool, ghost)
        current[tuple(m)] = src
        t += 1
        disk.append([list(m), t, src])
    clock = t
    n = rng.randrange(3, maxlen + 1)
    ops = []
    for _ in range(n):
        k = rng.random()
        if k < 0.5:
            ops.append(['req', gen_query(rng, uni, names_pool, ghost)])
        elif k < 0.85:
            r = rng.randrange(len(uni))
            if absent and rng.random() < 0.3:
                r = uni.index(list(sorted(absent)[rng.randrange(len(absent))]))
            m = uni[r]
            src = gen_source(rng, uni, r, current, names_pool, ghost)
            current[tuple(m)] = src
            absent.discard(tuple(m))
            ops.append(['write', list(m), src])
        else:
            ops.append(['touch', list(rng.choice(uni))])
    return disk, clock, ops


# ----------------------------------------------------------------------------- history statistics

def history_stats(disk, ops):
    """-> (has an indirect edit between two requests through the same module, has a create after a request)"""
    exists = set(tuple(m) for m, _, _ in disk)
    indirect = False
    created_after = False
    seen_req = False
    pending = {}     # through-module -> set of modules edited since the last request through it
    for op in ops:
        if op[0] == 'req':
            a = through_module(op[1])
            if a in pending and any(b != a for b in pending[a]):
                indirect = True
            pending[a] = set()
            seen_req = True
        else:
            b = tuple(op[1])
            if op[0] == 'touch' and b not in exists:
                continue
            if op[0] == 'write' and b not in exists and seen_req:
                created_after = True
            exists.add(b)
            for a in pending:
                pending[a].add(b)
    return indirect, created_after


# ----------------------------------------------------------------------------- relative-import stream

# packages zq_p8 = [8] and zq_p8.zq_p9 = [8, 9] (their __init__ files may be created during the history),
# leaves [3], [8, 2], [8, 9, 2]; importers [8, 1] (may import [8, 2], [3]) and [8, 9, 1] (may import the leaves and [8, 1])
REL_LEAVES = [[3], [8, 2], [8, 9, 2]]
REL_ALL = [[8], [8, 9], [3], [8, 2], [8, 9, 2], [8, 1], [8, 9, 1]]


def rel_source(rng, mod):
    names = [10, 11, 12, 13]
    if mod in ([8], [8, 9]):
        return [['bind', rng.choice(names), rng.randrange(1, 9)]] if rng.random() < 0.3 else []
    if mod in REL_LEAVES:
        return [['bind', x, rng.randrange(1, 9)] for x in rng.sample(names, rng.randrange(2, 5))]
    items = []
    if mod == [8, 1]:
        cands = [['rfrm', 0, [2], 'K', 'K'], ['rstar', 0, [2]], ['rfrm', 0, [], 2, 2], ['frm', [8, 2], 'K', 'K'],
                 ['frm', [3], 'K', 'K'], ['star', [3]], ['rfrm', 1, [3], 'K', 'K']]
    else:
        cands = [['rfrm', 0, [2], 'K', 'K'], ['rstar', 0, [2]], ['rfrm', 0, [], 2, 2], ['rfrm', 1, [2], 'K', 'K'],
                 ['rstar', 1, [2]], ['rfrm', 1, [], 1, 1], ['rfrm', 1, [1], 'K', 'K'], ['frm', [8, 9, 2], 'K', 'K'],
                 ['rfrm', 2, [3], 'K', 'K'], ['star', [3]], ['frm', [9, 2], 'K', 'K']]
    for _ in range(rng.randrange(1, 5)):
        it = list(rng.choice(cands))
        if it[0] in ('rfrm', 'frm') and it[-1] == 'K':
            x = rng.choice(names)
            it[-2], it[-1] = x, (x if rng.random() < 0.7 else rng.choice(names))
        items.append(it)
    if rng.random() < 0.4:
        items.insert(rng.randrange(len(items) + 1), ['bind', rng.choice(names), rng.randrange(1, 9)])
    return items


def rel_query(rng):
    names = [10, 11, 12, 13, 2, 1]
    target = rng.choice([([8, 9], 1), ([8, 9], 1), ([8], 1), ([8, 9], 2), ([8], 9)])
    kind = rng.choice(['names', 'attr', 'attr', 'loc', 'lint'])
    if kind == 'lint':
        return ['lint', target[0] + [target[1]], sorted(rng.sample([10, 11, 12, 13], 3))]
    if kind == 'names':
        return ['names', target[0], target[1]]
    return [kind, target[0], target[1], rng.choice(names)]


def gen_rel_scenario(rng, maxlen):
    present = [m for m in REL_ALL if m not in ([8], [8, 9])]
    if rng.random() < 0.6:
        present.append([8, 9])
    if rng.random() < 0.25:
        present.append([8])
    present = [m for m in present if rng.random() < 0.9 or m in ([8, 9, 1], [8, 9, 2])]
    disk = [[m, i + 1, rel_source(rng, m)] for i, m in enumerate(present)]
    clock = len(disk)
    ops = []
    for _ in range(rng.randrange(3, maxlen + 1)):
        r = rng.random()
        if r < 0.55:
            ops.append(['req', rel_query(rng)])
        elif r < 0.9:
            m = rng.choice(REL_ALL + [[8], [8, 9]])
            ops.append(['write', m, rel_source(rng, m)])
        else:
            ops.append(['touch', rng.choice(REL_ALL)])
    return disk, clock, ops


# a fixed relative-import project for short exhaustive histories: zq_p8/zq_p9 is a package, zq_p8/ not yet
REL_EXH_DISK = [
    [[8, 9], 1, []],
    [[8, 9, 2], 2, [['bind', 10, 1], ['bind', 11, 2]]],
    [[8, 9, 1], 3, [['rfrm', 0, [2], 10, 10], ['rfrm', 0, [], 2, 2], ['rstar', 0, [2]], ['frm', [8, 9, 2], 11, 12]]],
]
REL_EXH_CLOCK = 3
REL_EXH_OPS = [
    ['req', ['attr', [8, 9], 1, 10]],
    ['req', ['names', [8, 9], 1]],
    ['req', ['loc', [8, 9], 1, 11]],
    ['write', [8], []],                                   # zq_p8/__init__.py appears
    ['write', [8, 9, 2], [['bind', 10, 5], ['bind', 13, 6]]],
    ['touch', [8, 9, 1]],
]


# the same files with NO __init__.py anywhere at first ('Not a package' is a cached answer too since a1df565);
# the two package files appear in either order
REL_EXH2_DISK = [d for d in REL_EXH_DISK if d[0] != [8, 9]]
REL_EXH2_OPS = [
    ['req', ['attr', [8, 9], 1, 10]],
    ['req', ['loc', [8, 9], 1, 10]],
    ['req', ['lint', [8, 9, 1], [10, 11, 12]]],
    ['write', [8], []],
    ['write', [8, 9], []],
    ['write', [8, 9, 2], [['bind', 10, 5], ['bind', 13, 6]]],
]


def rel_exhaustive_histories(maxlen):
    for disk, alphabet in ((REL_EXH_DISK, REL_EXH_OPS), (REL_EXH2_DISK, REL_EXH2_OPS)):
        for n in range(1, maxlen + 1):
            for ops in itertools.product(alphabet, repeat=n):
                yield disk, REL_EXH_CLOCK, [list(o) for o in ops]


def is_abs_history(disk, ops):
    def rel(src):
        return any(it[0] in ('rfrm', 'rstar') for it in src)
    return not (any(rel(s) for _, _, s in disk) or any(op[0] == 'write' and rel(op[-1]) for op in ops))


# ----------------------------------------------------------------------------- mtimes

# "each edit changes the file's modification time": the new mtime differs from every mtime that file has had,
# it is NOT always newer (restore from a backup, git checkout, clock skew).  The generators above produce
# ['write', mod, src] / ['touch', mod]; `stamp` turns them into ['write', mod, mtime, src] / ['touch', mod, mtime].
MTIME0 = 50
MTIME_SEQ = [30, 70, 10, 90, 20, 80, 40, 60, 5, 95, 15, 85, 25, 75, 35, 65, 45, 55]


def stamp(disk, ops, rng=None):
    """rng None: every initial file has mtime 50 and the k-th edit of a file gets MTIME_SEQ[k] (older, newer, older, ...);
    otherwise distinct random values per file"""
    used, count = {}, {}
    ndisk = []
    for mod, _, src in disk:
        t = MTIME0 if rng is None else rng.randrange(1, 1000)
        used[tuple(mod)] = set([t])
        ndisk.append([mod, t, src])
    out = []
    for op in ops:
        if op[0] == 'req':
            out.append(op)
            continue
        key = tuple(op[1])
        u = used.setdefault(key, set())
        if rng is None:
            k = count.get(key, 0)
            count[key] = k + 1
            t = MTIME_SEQ[k] if k < len(MTIME_SEQ) else 100 + k
        else:
            t = rng.randrange(1, 1000)
            while t in u:
                t = rng.randrange(1, 1000)
        u.add(t)
        out.append(['write', op[1], t, op[2]] if op[0] == 'write' else ['touch', op[1], t])
    return ndisk, 0, out


def has_older_step(disk, ops):
    """some edit gives an existing file an mtime OLDER than the one it had"""
    cur = dict((tuple(m), t) for m, t, _ in disk)
    for op in ops:
        if op[0] == 'write' or (op[0] == 'touch' and tuple(op[1]) in cur):
            key = tuple(op[1])
            if key in cur and op[2] < cur[key]:
                return True
            cur[key] = op[2]
    return False


# ----------------------------------------------------------------------------- targeted probe (the same hole, by hand)

def norm_cache_probe(real):
    """relative import below a directory that only later becomes a package: Project._norm_cache"""
    real.wipe()
    root = real.root
    pdir = os.path.join(root, 'zq_p8', 'zq_p9')
    os.makedirs(pdir)
    files = [(os.path.join(pdir, '__init__.py'), ''),
             (os.path.join(pdir, 'zq_m2.py'), 'class K10: v1 = 1\n'),
             (os.path.join(pdir, 'zq_m1.py'), 'from .zq_m2 import K10\n')]
    for i, (fn, text) in enumerate(files):
        with open(fn, 'w') as f:
            f.write(text)
        os.utime(fn, (T0 + 10 * (i + 1), T0 + 10 * (i + 1)))
    src = 'from zq_p8.zq_p9 import zq_m1\nzq_m1.K10.'

    def ask(p):
        try:
            with p.check_changes():
                return sorted(set(real.assist(p, src, (2, 10), real.xfile)[1]))
        except Exception as e:  # noqa
            return 'EXC:' + type(e).__name__
    project = real.Project([root])
    first = ask(project)
    fn = os.path.join(root, 'zq_p8', '__init__.py')
    with open(fn, 'w') as f:
        f.write('')
    os.utime(fn, (T0 + 40, T0 + 40))
    long_lived = ask(project)
    fresh = ask(real.Project([root]))
    real.wipe()
    return {'first': first, 'long_lived': long_lived, 'fresh': fresh, 'stale': long_lived != fresh}


NORM_CACHE_HISTORY = {
    'class': 'norm_cache',
    'files': {'zq_p8/zq_p9/__init__.py': '', 'zq_p8/zq_p9/zq_m2.py': 'class K10: v1 = 1\n',
              'zq_p8/zq_p9/zq_m1.py': 'from .zq_m2 import K10\n'},
    'request': "assist(project, 'from zq_p8.zq_p9 import zq_m1\\nzq_m1.K10.', (2, 10), '<root>/zq_x.py')",
    'steps': ['request (long-lived project)', "create zq_p8/__init__.py ('' , new mtime)", 'same request'],
}


# ----------------------------------------------------------------------------- the check

def import_supp():
    for k in [k for k in sys.modules if k == 'supp' or k.startswith('supp.')]:
        del sys.modules[k]
    sys.path.insert(0, common.REPO)
    import supp.project  # noqa: F401
    import supp.assistant  # noqa: F401
    import supp.linter  # noqa: F401


def driver_request(disk, clock, ops):
    # C09_VARIANT (experiments only): compare an older tree with the model's `.coarseOnly` / `.pinned` behaviour
    return {'variant': os.environ.get('C09_VARIANT', 'current'), 'fuel': FUEL, 'disk': disk, 'ops': ops}


def run_stream(check, real, histories, state, stream):
    """real code (long-lived vs fresh) + model on every history of the stream"""
    reqs = [driver_request(d, c, o) for d, c, o in histories]
    replies = []
    CH = 4000
    for i in range(0, len(reqs), CH):
        replies += common.ask_driver(reqs[i:i + CH], exe='drv_proj')
    mism_run, mism_fresh = [], []
    n_mr = n_mf = 0
    cache = {}
    for (disk, clock, ops), rep in zip(histories, replies):
        # edits after the last request have no observable effect: the real code is run once per distinct
        # (disk, ops up to the last request); the model is run on (and compared for) every history
        eff = list(ops)
        while eff and eff[-1][0] != 'req':
            eff.pop()
        ck = jshort([disk, clock, eff], 10 ** 9)
        first = ck not in cache
        if first:
            cache[ck] = real.run_history(disk, clock, eff)
        res = cache[ck]
        key = jshort([disk, clock, ops], 10 ** 9)
        state['max_len'] = max(state['max_len'], len(ops))
        ind, cre = history_stats(disk, ops)
        if ind:
            state['indirect'].add(key)
        if cre:
            state['created'].add(key)
        if 'error' in rep or 'answers' not in rep:
            n_mr += 1
            if len(mism_run) < 3:
                mism_run.append('driver error %s on %s' % (jshort(rep, 300), jshort(driver_request(disk, clock, ops))))
            continue
        if not rep.get('fresh_mtimes', False):
            state['clock_not_ok'] += 1
        if has_older_step(disk, ops):
            state['older_step'] += 1
        if rep.get('abs_ok', False):
            state['abs_histories'] += 1
        if not rep.get('transparent', False):
            state['abs_not_transparent'] += 1     # would contradict theorem C09
        if rep.get('abs_ok', False) != is_abs_history(disk, ops):
            state['abs_flag_mismatch'] += 1
        m_ans = [canon_model(a) for a in rep['answers']]
        m_fresh = [canon_model(a) for a in rep['fresh']]
        state['model_recursion'] += sum(1 for a in m_ans + m_fresh if a == 'recursion')
        if len(m_ans) != len(res) or len(m_fresh) != len(res):
            n_mr += 1
            if len(mism_run) < 3:
                mism_run.append('%d model answers for %d requests on %s'
                                % (len(m_ans), len(res), jshort(driver_request(disk, clock, ops))))
            continue
        failed_here = False
        bad_run = bad_fresh = False
        for j, (i, q, a, f) in enumerate(res):
            kind = q[0]
            if first:
                state['evaluations'] += 1
                state['kinds'][kind] = state['kinds'].get(kind, 0) + 1
                shape = kind + (':exception' if isinstance(a, str) else ':nonempty' if a else ':empty')
                state['shapes'][shape] = state['shapes'].get(shape, 0) + 1
            # oracle: long-lived == fresh (real code only)
            if first and a != f:
                if not is_abs_history(disk, ops):
                    state['norm_cache_requests'] += 1      # counter only: a stale answer on a relative-import history
                state['oracle_failing_requests'] += 1
                if not failed_here:
                    failed_here = True
                    state['oracle_failures'] += 1
                    if not is_abs_history(disk, ops):
                        state['norm_cache_histories'] += 1
                    if state['oracle_failures'] <= 10:
                        check.fail('long-lived project answers differently from a fresh one: %s' % kind,
                                   {'class': 'stale', 'stream': stream, 'disk': disk, 'clock': clock,
                                    'ops': ops[:i + 1], 'long_lived': a, 'fresh': f})
            # correspondence
            if m_ans[j] != a and not bad_run:
                bad_run = True
                n_mr += 1
                if len(mism_run) < 3:
                    mism_run.append('request #%d %s: supp %s, model %s; history %s'
                                    % (j, jshort(q), jshort(a, 400), jshort(m_ans[j], 400),
                                       jshort(driver_request(disk, clock, ops[:i + 1]))))
            if m_fresh[j] != f and not bad_fresh:
                bad_fresh = True
                n_mf += 1
                if len(mism_fresh) < 3:
                    mism_fresh.append('request #%d %s: fresh supp %s, model fresh %s; history %s'
                                      % (j, jshort(q), jshort(f, 400), jshort(m_fresh[j], 400),
                                         jshort(driver_request(disk, clock, ops[:i + 1]))))
    return n_mr, mism_run, n_mf, mism_fresh


def run(check):
    logging.disable(logging.CRITICAL)
    quick = check.tier == 'quick'
    rng = check.rng
    for k in check.known:
        k['_matcher'] = (lambda what, replay, k=k: isinstance(replay, dict) and replay.get('class') == k.get('class'))

    # 1. prove (+ the negation witnesses of the two earlier behaviours)
    if os.environ.get('C09_SKIP_PROVE'):
        exe = os.path.join(common.LEAN, '.lake', 'build', 'bin', 'drv_proj')
        if not os.path.exists(exe):
            raise common.Infra('C09_SKIP_PROVE set but %s does not exist' % exe)
        check.extra['prove_skipped'] = True
    else:
        check.prove(extra_targets=('drv_proj',), extra_audit_modules=('SuppModel.Witness.C09',))
        ok, out = common.lake_build(['SuppModel.Witness.C09'])
        check.oblige('witnesses SuppModel.Witness.C09 (C09_star, C09_ref, C09_created, C09_pinned_false, '
                     'C09_coarseOnly_false, C09_lt, C09_lt_false, C09_norm_history, C09_norm_false (.noRenorm), C09_norm)', ok, '' if ok else out[-2000:])
        hits = common.grep_forbidden('SuppModel.Witness.C09')
        check.oblige('forbidden-construct audit of SuppModel.Witness.C09', not hits, '; '.join(hits))

    import_supp()

    # 2. histories
    if quick:
        exh_len, alphabet = 4, EXH_OPS
        n_random, rand_len = 200, 40
        n_rel, rel_len = 150, 14
    else:
        exh_len, alphabet = 5, EXH_OPS
        n_random, rand_len = 1500, 80
        n_rel, rel_len = 1500, 30
    exh = [stamp(d, o) for d, _, o in exhaustive_histories(exh_len, alphabet)]
    rnd = [gen_scenario(rng, rand_len) for _ in range(n_random)]
    rnd = [stamp(d, o, rng) for d, _, o in rnd]
    rel = [stamp(d, o) for d, _, o in rel_exhaustive_histories(3 if quick else 4)]
    rel += [stamp(d, o, rng) for d, _, o in [gen_rel_scenario(rng, rel_len) for _ in range(n_rel)]]

    state = {'evaluations': 0, 'kinds': {}, 'shapes': {}, 'indirect': set(), 'created': set(), 'max_len': 0,
             'model_recursion': 0, 'oracle_failures': 0, 'oracle_failing_requests': 0, 'clock_not_ok': 0, 'older_step': 0,
             'norm_cache_requests': 0, 'norm_cache_histories': 0,
             'abs_histories': 0, 'abs_not_transparent': 0, 'abs_flag_mismatch': 0}
    root = tempfile.mkdtemp(prefix='zq_c09_')
    try:
        real = Real(root)
        e_mr, e_dr, e_mf, e_df = run_stream(check, real, exh, state, 'exhaustive')
        real.wipe()
        r_mr, r_dr, r_mf, r_df = run_stream(check, real, rnd, state, 'random')
        real.wipe()
        l_mr, l_dr, l_mf, l_df = run_stream(check, real, rel, state, 'relative')
        probe = norm_cache_probe(real)
    finally:
        shutil.rmtree(root, ignore_errors=True)

    check.oblige('correspondence exhaustive histories (model run = supp Project, per request)', e_mr == 0,
                 '%d histories differ; %s' % (e_mr, ' || '.join(e_dr)) if e_mr else '')
    check.oblige('correspondence random histories (model run = supp Project, per request)', r_mr == 0,
                 '%d histories differ; %s' % (r_mr, ' || '.join(r_dr)) if r_mr else '')
    check.oblige('correspondence relative-import histories (model run with _norm_cache/_renormed = supp Project, per request)', l_mr == 0,
                 '%d histories differ; %s' % (l_mr, ' || '.join(l_dr)) if l_mr else '')
    n_mf_all = e_mf + r_mf + l_mf
    check.oblige('correspondence fresh project (model fresh = Project(sources) on the same disk)', n_mf_all == 0,
                 '%d histories differ; %s' % (n_mf_all, ' || '.join((e_df + r_df + l_df)[:3])) if n_mf_all else '')
    check.oblige('model hypotheses on the generated histories (freshMtimes, no recursion; absDisk/Op.isAbs as rendered; '
                 'the model itself is transparent on every history, as theorem C09 says)',
                 state['clock_not_ok'] == 0 and state['model_recursion'] == 0 and state['abs_flag_mismatch'] == 0
                 and state['abs_not_transparent'] == 0,
                 'freshMtimes false on %d histories, %d recursion answers, %d abs-flag mismatches, %d histories not transparent '
                 'in the model' % (state['clock_not_ok'], state['model_recursion'], state['abs_flag_mismatch'],
                                   state['abs_not_transparent']))

    # 3. the history on which the code before a1df565 was stale (_norm_cache), by hand
    check.extra['norm_cache_probe'] = {'long_lived': probe['long_lived'], 'fresh': probe['fresh'],
                                       'first': probe['first'], 'stale': probe['stale']}
    check.extra['norm_cache_stale_histories'] = state['norm_cache_histories']      # must be 0
    check.extra['norm_cache_stale_requests'] = state['norm_cache_requests']
    if probe['stale']:
        check.fail('package __init__.py created above an already-resolved relative import: the long-lived project keeps '
                   'the old package path', dict(NORM_CACHE_HISTORY, **{'class': 'stale', 'long_lived': probe['long_lived'],
                                                                       'fresh': probe['fresh']}))

    # 4. coverage
    from . import c09_shapes, flowgraph
    state['evaluations'] += c09_shapes.run(check, flowgraph.load_supp())
    check.cov['evaluations'] = state['evaluations']
    check.cov['distinct_nontrivial'] = len(state['indirect'])
    check.cov['rule'] = (
        'exhaustive stream: every history of length <= %d over a fixed alphabet of %d ops (names/attr/lint through the top '
        'importer, loc through a second importer, rewrite of the far end of the import chain, rewrite of the middle module, '
        'creation of a module two importers had failed to import, touch) on a fixed 5-module project; random stream: %d random '
        'projects (3-6 modules in 1-2 package directories, import/from/star/re-export edges, underscore names, clashes, '
        'missing modules) with random histories of up to %d ops (~50%% requests, ~35%% writes, ~15%% touches), one PRNG from '
        'VERIF_SEED. Every request is answered by the long-lived Project, by a brand-new Project and by the model '
        '(the real code is run once per distinct history-up-to-its-last-request; evaluations counts those requests). '
        'non-trivial = distinct history (as JSON) in which, between two requests through the same module A (the imported module '
        'of the request: `mod`, or `mod.mname` for `from mod import <module>`), some module B != A is written or effectively touched'
        % (exh_len, len(alphabet), n_random, rand_len))
    check.extra.update({
        'histories_with_an_edit_to_an_older_mtime': state['older_step'],
        'histories_exhaustive': len(exh), 'histories_random': len(rnd), 'histories_relative': len(rel),
        'histories_absolute_only(abs_ok)': state['abs_histories'], 'disagreements_relative': l_mr,
        'histories_with_indirect_edit': len(state['indirect']),
        'histories_with_created_after_failed_import': len(state['created']),
        'requests_by_kind': state['kinds'], 'answer_shapes': state['shapes'],
        'max_history_length': state['max_len'], 'model_recursion': state['model_recursion'],
        'oracle_failures': state['oracle_failures'], 'oracle_failing_requests': state['oracle_failing_requests'],
        'disagreements_exhaustive': e_mr, 'disagreements_random': r_mr, 'disagreements_fresh': n_mf_all,
        'identifier_table': {'1..7': 'zq_m<i>', '8,9': 'zq_p<i> (packages)', '10..19': 'K<i>', '900+i': '_h<i>'},
    })
    check.sample({'stream': 'exhaustive', 'disk': jshort(EXH_DISK), 'alphabet': jshort(alphabet)})
    for h in [h for h in exh if history_stats(h[0], h[2])[0]][:1] + [exh[-1 - len(alphabet)]]:
        check.sample({'stream': 'exhaustive', 'ops': jshort(h[2], 600)})
    for h in sorted([h for h in rnd if history_stats(h[0], h[2])[0]], key=lambda h: len(h[2]))[:2]:
        check.sample({'stream': 'random', 'history': jshort(driver_request(*h), 1500)})
    check.assumptions += [
        'relative imports (norm_package/_norm_cache/_renormed) are modelled, corresponded (stream `relative`) and covered by '
        'theorem C09; a package directory that STOPS being one (deleting __init__.py) is outside the domain (no deletion)',
        'every write/touch gives the file an mtime it has not had before in the history (older or newer: the exhaustive streams '
        'alternate older/newer per file, the random streams draw distinct random values); set with os.utime, never sleeping',
        'acyclic import graphs over every source a history ever writes (star-import cycles recurse forever in the real code: '
        "C08's concern)",
        'no deletion of files and no shadowing from an earlier root (one source root; a dotted name is one file)',
        'the sys.modules / sys.path fallback of get_module is never hit because all module names are zq_-prefixed',
        'module content is reduced to top-level `class X: v<p> = 1`, `import m`, `from m import x [as y]`, `from m import *` lines '
        '(stream `relative`: also `from .m import x`, `from . import m`, `from ..m import x`, `from .m import *`)',
    ]
    check.trusted += ['harness/c09.py rendering of abstract items to Python source lines and canonicalisation of '
                      'assist/location/lint answers']


# ----------------------------------------------------------------------------- replay

def replay(path):
    logging.disable(logging.CRITICAL)
    data = json.load(open(path))
    import_supp()
    root = tempfile.mkdtemp(prefix='zq_c09_')
    still = 0
    try:
        real = Real(root)
        for n, item in enumerate(data.get('failing_inputs', [])):
            rp = item.get('replay')
            if not isinstance(rp, dict):
                continue
            if rp.get('kind') == 'shapes':
                from . import c09_shapes, flowgraph
                still += 1 if c09_shapes.replay_item(flowgraph.load_supp(), rp) else 0
                continue
            if rp.get('class') == 'norm_cache' and 'disk' not in rp:
                pr = norm_cache_probe(real)
                print('input %d (norm_cache probe): long-lived %r, fresh %r -> %s'
                      % (n, pr['long_lived'], pr['fresh'], 'STILL FAILS' if pr['stale'] else 'passes now'))
                still += 1 if pr['stale'] else 0
                continue
            if 'disk' not in rp or 'ops' not in rp:
                continue
            real.wipe()
            res = real.run_history(rp['disk'], rp.get('clock', len(rp['disk'])), rp['ops'])
            bad = [(q, a, f) for _, q, a, f in res if a != f]
            if bad:
                q, a, f = bad[0]
                still += 1
                print('input %d: STILL FAILS: request %s: long-lived %s, fresh %s; ops %s'
                      % (n, jshort(q), jshort(a, 300), jshort(f, 300), jshort(rp['ops'], 800)))
            else:
                print('input %d: passes now (%d requests, long-lived = fresh)' % (n, len(res)))
    finally:
        shutil.rmtree(root, ignore_errors=True)
    return 1 if still else 0
