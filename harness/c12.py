"""C12 — completion contract: exact prefix, clean sorted proposals, transparent cursor.

tie    : translator (prefix regex, from-branch constants, SOURCE_MARK, shapes of unmark/marked/split_pkg/join_pkg/
         Source.__init__/the proposal expression -> Generated/Text.lean, proofs re-checked) + correspondence of the model
         with assist's prefix, unmark, marked, split_pkg, join_pkg, Source(..., position).source, sorted(...)
search : assist on cursors at the end of / inside name reads, attribute accesses and import names after every
         character class, against (a) re.search(r'\\w*$'), (b) sortedness / no duplicates / no mark / str,
         (c) the analysis of the UNMARKED source (names_at at the cursor, attr_list of the evaluated expression)
"""
import ast
import json
import os
import re
import sys

from . import common
from . import textgen
from .textgen import cps, uncps, is_ascii

sys.path.insert(0, os.path.join(common.VERIF, 'translators'))
import tr_text  # noqa: E402

MARK = '__supp_mark__'


class Supp(object):
    def __init__(self):
        textgen.load_supp()
        m = sys.modules
        self.scope = m['supp.scope']
        self.nast = m['supp.nast']
        self.util = m['supp.util']
        self.assistant = m['supp.assistant']
        self.evaluator = m['supp.evaluator']
        projdir = '/tmp/text/proj-c12'
        os.makedirs(os.path.join(projdir, 'pkg', 'sub'), exist_ok=True)
        for rel, body in (('pkg/__init__.py', 'from . import mod\nvalue = 1\n'), ('pkg/mod.py', 'def fn(): pass\nclass Cls:\n    x = 1\n'),
                          ('pkg/sub/__init__.py', ''), ('pkg/sub/leaf.py', 'leaf_value = 1\n')):
            path = os.path.join(projdir, rel)
            if not os.path.exists(path):
                with open(path, 'w') as f:
                    f.write(body)
        self.projdir = projdir
        self.project = m['supp.project'].Project([projdir])
        self.mark = self.util.SOURCE_MARK

    def assist(self, src, pos, filename):
        """-> ('ok', prefix, proposals) | ('syntax',) | ('err', class name, text)"""
        try:
            prefix, props = self.assistant.assist(self.project, src, pos, filename)
            return ('ok', prefix, props)
        except SyntaxError:
            return ('syntax',)
        except RecursionError:
            return ('recursion',)
        except Exception as e:  # noqa
            import traceback
            tb = traceback.extract_tb(e.__traceback__)
            where = '%s:%s' % (os.path.basename(tb[-1].filename), tb[-1].name) if tb else ''
            return ('err', type(e).__name__, repr(e)[:200], where)

    def unmarked(self, src, filename):
        source = self.util.Source(src, filename)
        sc = self.nast.extract_scope(source, self.project)
        return source, sc


# ----------------------------------------------------------------------------- cursors

PRELUDE = '''import os, sys
import os.path as osp
from os import path, sep as separator
import pkg.mod
from pkg import mod as pm
foo = 1
foobar = "s"
fob = [1]
a = 1; y = 0; d = {}
class Klass:
    attr = 1
    def meth(self): return self
    def other(self):
        self.ba = 1
        self.bar = 2
        return self.ba
inst = Klass()
def func(arg, argument=2): pass
f = func
'''

# (class of the character left of the expression, template)
CONTEXTS = [
    ('space', 'x = {}'), ('paren', 'print({})'), ('bracket', '[{}]'), ('brace', '{{{}}}'), ('comma', 'f(a,{})'),
    ('equals', 'x={}'), ('plus', '1+{}'), ('minus', '-{}'), ('star', '2*{}'), ('less', 'a<{}'), ('pipe', 'a|{}'),
    ('amp', 'a&{}'), ('tilde', '~{}'), ('at', 'a@{}'), ('percent', 'a%{}'), ('slash', 'a/{}'), ('caret', 'a^{}'),
    ('colon-suite', 'if a:{}'), ('colon-dict', '{{a:{}}}'), ('colon-lambda', 'z = lambda:{}'), ('colon-slice', 'd[a:{}]'),
    ('start-of-line', '{}'), ('indent', 'if a:\n    {}'), ('subscript', 'd[{}]'), ('keyword', 'z = not {}'),
    ('semicolon', 'a;{}'), ('walrus', '(w:={})'), ('tab', 'x =\t{}'), ('continuation', 'x = \\\n{}'),
    ('greater', 'a>{}'), ('double-star', 'f(**{})'), ('bang-eq', 'a!={}'), ('fstring', 'z = f"{{{}}}"'),
    ('string', 'z = "{}"'), ('string-words', "z = 'from {} x'"), ('comment', '# {}'), ('comment-tail', 'x = 1 #{}'),
    ('docstring', '"""\nfrom here {}\n"""'), ('return', 'def g(p1, p2):\n    loc = p1\n    return {}'),
    ('method', 'class K2(Klass):\n    def m2(self, q):\n        return ({})'),
    ('non-ascii-before', 'é = "ü";x = {}'),
    ('assign-target', 'class K3(Klass):\n    def m3(self):\n        {} = 1\n        return self'),
    ('augassign-target', 'def g3(self):\n    {} += 1'),
]
EXPRS = ['foo', 'fo', 'foobar', 'os', 'os.path', 'os.path.join', 'inst.attr', 'inst.meth', 'osp.join', 'sys.argv', 'pm.Cls', 'pm.Cls.x',
         'self.ba', 'Klass.attr', 'f', 'separator', 'foo.real', 'pkg.mod.fn', 'd.keys', 'unknown_name', 'unknown.attr', 'föö',
         # identifiers that are legal but not NFKC-normal (the parser normalises them, the buffer does not): ligature, micro sign, fullwidth
         '\ufb01le', '\u00b5', '\uff46\uff4f\uff4f.\uff52\uff45\uff41\uff4c']
IMPORT_LINES = ['import os', 'import os.path', 'import os.path as osp2', 'from os import path', 'from os import path, sep',
                'from os.path import join', 'from os import (path,\n    sep)', 'from . import mod', 'from .mod import fn',
                'from pkg.sub import leaf', 'import pkg.sub.leaf', 'from os import(path)', 'from os import\tpath', 'from\tos import path',
                'from  os  import  path', 'import os, sys', 'from os import path as p2', 'from .. import x', 'from pkg import mod,sub',
                'import\tos', 'import os;import sys', 'if a:import os', 'from os import path;x = path', 'from os import *', 'from', 'from ',
                'from os', 'from os.', 'from os import', 'from os import ', 'import ', 'from .', 'from pkg.', 'from pkg.s', 'from os\timport path']


def expr_cursors(expr):
    """offsets inside `expr`: end of and inside every identifier, right after every dot"""
    out = []
    for m in re.finditer(r'\w+', expr):
        for k in range(m.start() + 1, m.end() + 1):
            out.append(k)
    for m in re.finditer(r'\.', expr):
        out.append(m.end())
    return sorted(set(out))


def generated_cases(rng, n_extra):
    """-> list of (src, (line, col), label)"""
    cases = []
    base = PRELUDE.count('\n')
    for cname, tmpl in CONTEXTS:
        for expr in EXPRS:
            if 'self.' in expr and cname not in ('method', 'assign-target', 'augassign-target'):
                continue
            body = tmpl.format(expr)
            off0 = tmpl.index('{}') if '{{' not in tmpl else tmpl.replace('{{', '{').replace('}}', '}').index('{}')
            for k in expr_cursors(expr):
                pre = body[:off0 + k]
                ln = base + 1 + pre.count('\n')
                col = len(pre) - (pre.rfind('\n') + 1)
                cases.append((PRELUDE + body + '\n', (ln, col), 'ctx:%s expr:%s' % (cname, expr)))
    for line in IMPORT_LINES:
        for k in range(0, len(line) + 1):
            if k and (line[k - 1].isalnum() or line[k - 1] in '_. (,\t') or k == len(line):
                pre = line[:k]
                ln = base + 1 + pre.count('\n')
                col = len(pre) - (pre.rfind('\n') + 1)
                cases.append((PRELUDE + line + '\n', (ln, col), 'import:%s' % line.split('\n')[0]))
    # random layouts of the C11 generator: cursors at the end of / inside names of every kind
    gen = textgen.Gen(rng, formfeed=False)
    for _ in range(n_extra):
        src = gen.program()
        try:
            tree = ast.parse(src)
        except (SyntaxError, ValueError):
            continue
        lines = src.split('\n')
        names = [n for n in ast.walk(tree) if isinstance(n, ast.Name) and n.lineno == n.end_lineno and is_ascii(lines[n.lineno - 1])]
        for n in rng.sample(names, min(4, len(names))):
            k = rng.choice([n.end_col_offset, rng.randrange(n.col_offset + 1, n.end_col_offset + 1)])
            cases.append((src, (n.lineno, k), 'layout'))
        for ln, l in enumerate(lines, 1):
            if re.match(r'\s*(import|from)\b', l) and is_ascii(l) and rng.random() < 0.5:
                ks = [m.end() for m in re.finditer(r'\w+', l)]
                if ks:
                    k = rng.choice(ks)
                    cases.append((src, (ln, rng.choice([k, max(1, k - 1)])), 'layout-import'))
    return cases


def file_cases(rng, files, per_file):
    cases = []
    for f, src in files:
        try:
            tree = ast.parse(src)
        except SyntaxError:
            continue
        lines = src.split('\n')
        cand = []
        for n in ast.walk(tree):
            if isinstance(n, ast.Name) and n.lineno == n.end_lineno and is_ascii(lines[n.lineno - 1]):
                cand.append((n.lineno, n.end_col_offset, 'name-end'))
                if n.end_col_offset - n.col_offset > 1:
                    cand.append((n.lineno, rng.randrange(n.col_offset + 1, n.end_col_offset), 'name-inside'))
            elif isinstance(n, ast.Attribute) and n.lineno == n.end_lineno and n.value.end_lineno == n.end_lineno \
                    and is_ascii(lines[n.end_lineno - 1]):
                st = n.end_col_offset - len(n.attr)
                cand.append((n.end_lineno, st, 'attr-dot'))
                cand.append((n.end_lineno, n.end_col_offset, 'attr-end'))
                if len(n.attr) > 1:
                    cand.append((n.end_lineno, rng.randrange(st + 1, n.end_col_offset), 'attr-inside'))
            elif isinstance(n, (ast.Import, ast.ImportFrom)):
                for a in n.names:
                    if a.lineno == a.end_lineno and is_ascii(lines[a.lineno - 1]) and a.name != '*':
                        cand.append((a.lineno, a.col_offset + len(a.name), 'import-end'))
                        cand.append((a.lineno, a.col_offset + rng.randrange(1, len(a.name) + 1), 'import-inside'))
        kinds = sorted(set(c[2] for c in cand))
        picked = []
        for k in kinds:
            ck = [c for c in cand if c[2] == k]
            picked += rng.sample(ck, min(max(1, per_file // len(kinds)), len(ck)))
        for ln, col, kind in picked:
            cases.append((src, (ln, col), 'file:%s' % kind, f))
    return cases


# ----------------------------------------------------------------------------- the oracle

def find_name_node(tree, ln, col):
    for n in ast.walk(tree):
        if isinstance(n, ast.Name) and isinstance(n.ctx, ast.Load) and n.end_lineno == ln and n.end_col_offset == col and n.lineno == ln:
            return n
    return None


def find_attr_node(tree, ln, col, line):
    """the Attribute whose attr starts at (ln, col), directly after a dot"""
    if col < 1 or line[col - 1] != '.':
        return None
    for n in ast.walk(tree):
        if isinstance(n, ast.Attribute) and n.end_lineno == ln and n.end_col_offset - len(n.attr) == col \
                and n.value.end_lineno == ln and n.value.end_col_offset == col - 1:
            return n
    return None


class Oracle(object):
    def __init__(self, S, check):
        self.S = S
        self.check = check
        self.cache = {}
        self.st = {}

    def count(self, k, n=1):
        self.st[k] = self.st.get(k, 0) + n

    def unmarked(self, src, fn):
        key = (fn, hash(src))
        if key not in self.cache:
            if len(self.cache) > 4:
                self.cache.clear()
            try:
                self.cache[key] = self.S.unmarked(src, fn)
            except RecursionError:
                self.cache[key] = None
            except SyntaxError:
                self.cache[key] = None
        return self.cache[key]

    def judge(self, src, pos, fn, label, res):
        """one cursor; res = result of S.assist.  -> line left of the cursor"""
        S, check = self.S, self.check
        ln, col = pos
        lines = textgen.parser_lines(src)
        if lines and not lines[-1]:
            lines.pop()
        lines = lines or ['']
        if ln > len(lines):
            lines.extend([''] * (ln - len(lines)))
        line = lines[ln - 1][:col]
        replay = {'src': src if len(src) < 100000 else None, 'file': fn if len(src) >= 100000 else None, 'cursor': [ln, col], 'label': label,
                  'line_left_of_cursor': line[-200:]}
        self.count('cursors')
        self.count('outcome:' + res[0] + (':' + res[1] if res[0] == 'err' else ''))
        if res[0] == 'err':
            replay['error'] = list(res[1:])
            check.fail('assist raised %s in %s' % (res[1], res[3]), replay)
            return line
        if res[0] != 'ok':
            return line
        prefix, props = res[1], res[2]
        # (a) the prefix
        want = re.search(r'\w*$', line).group()
        if prefix != want:
            replay2 = dict(replay, prefix=prefix, want=want)
            check.fail('prefix %r is not the identifier characters left of the cursor %r' % (prefix, want), replay2)
        # (b) the proposals
        bad = None
        if not isinstance(props, list) or not all(isinstance(p, str) for p in props):
            bad = 'proposals are not a list of str'
        elif props != sorted(props):
            bad = 'proposals are not sorted'
        elif len(set(props)) != len(props):
            bad = 'proposals contain duplicates'
        elif any(S.mark in p for p in props):
            bad = 'a proposal contains the cursor marker: %r' % [p for p in props if S.mark in p][:2]
        if bad:
            check.fail(bad, dict(replay, proposals=props[:20]))
            return line
        self.count('proposals_checked')
        if props:
            self.count('proposals_nonempty')
        # (c) transparency against the analysis of the unmarked source
        if not is_ascii(lines[ln - 1]):
            return line
        um = self.unmarked(src, fn)
        if um is None:
            return line
        source, sc = um
        full_line = lines[ln - 1]
        node = find_name_node(source.tree, ln, col)
        nxt = full_line[col:col + 1]
        if node is not None and not (nxt.isalnum() or nxt == '_'):
            if not hasattr(node, 'flow'):
                self.count('name_without_flow')
                return line
            try:
                exp = sorted(node.flow.names_at((ln, col)))
            except RecursionError:
                return line
            self.count('transparency_name')
            if props != exp:
                check.fail('cursor at the end of a name read: proposals differ from the names the unmarked analysis gives there',
                           dict(replay, only_assist=sorted(set(props) - set(exp))[:8], only_unmarked=sorted(set(exp) - set(props))[:8]))
            return line
        anode = find_attr_node(source.tree, ln, col, full_line)
        if anode is not None:
            ctx = S.evaluator.EvalCtx(S.project)
            try:
                value = ctx.evaluate(anode.value)
                exp = sorted(value.attr_list(ctx)) if value else []
            except RecursionError:
                return line
            except Exception as e:  # noqa
                self.count('unmarked_evaluation_raised_' + type(e).__name__)
                return line
            store = not isinstance(anode.ctx, ast.Load)
            self.count('transparency_attr' + ('_store' if store else ''))
            if exp:
                self.count('transparency_attr_nonempty')
            ok = props == exp
            if not ok and store:
                # the attribute being assigned under the cursor is itself an instance attribute of the unmarked analysis;
                # in the marked analysis it carries the mark and is filtered (never offered)
                ok = sorted(set(props) | {anode.attr}) == exp
                if ok:
                    self.count('transparency_attr_store_minus_own')
            if not ok:
                check.fail('cursor after "expr.": proposals differ from the attributes the unmarked analysis gives expr',
                           dict(replay, only_assist=sorted(set(props) - set(exp))[:8], only_unmarked=sorted(set(exp) - set(props))[:8],
                                store=store))
        return line


# ----------------------------------------------------------------------------- the check

def word_chars(line):
    return ''.join(sorted(set(re.findall(r'\w', line))))


def gen_lines(rng, n):
    alphabet = list('abfo_19 .,()[]{}=+-*/:;#"\'\t\\@!<>%&|^~') + ['é', 'ß', 'Ω', 'ж', '中', '\u00b2', '\u0660', '\u00b7', '\u2028', '\xa0', '\x0b', '\x0c', '\x1c', '\x1f', '\x85', '\u1680', '\u2003', '\u3000', '\u200b', '\ufeff',
                                                                   '\u0301', '\U0001d7d8', '\U0001f600', '_', ' ', '.', 'x']
    heads = ['', 'from ', '  from ', '\tfrom ', 'from os import ', 'from os import(', 'from os.', 'import ', 'x = ', 'from\t', '\xa0from ',
             'from os import\t', 'fromage ', 'from a.b ', 'from . import ', 'from .', 'from\xa0', 'from\u2003a.', ' \x0cfrom  ', 'from\x1c..', 'from']
    out = []
    for _ in range(n):
        out.append(rng.choice(heads) + ''.join(rng.choice(alphabet) for _ in range(rng.choice([0, 1, 2, 3, 5, 8, 13]))))
    return out


def gen_marked_names(rng, n):
    parts = ['a', 'os', 'path', 'pa', 'th', '_', '__', '__supp', '__supp_mark', '__supp_mark_', 'mark__', 'x1', 'é', '', '.', '..', 'supp']
    out = ['', '.', '..', '...', 'os.path', '.a', 'a.', 'a..b', '..a.b', MARK, MARK + MARK, 'a' + MARK, MARK + 'a', 'os.pa' + MARK + 'th',
           'os.pa' + MARK + 'th.x.y', '__supp_mark' + MARK + 'x', '_' + MARK, '__supp_mark_', 'a.b' + MARK, MARK + '.a', 'a' + MARK + '.', '.' + MARK]
    for _ in range(n):
        k = rng.choice([1, 2, 3, 4])
        s = ''.join(rng.choice(parts) + rng.choice(['', '', '.', '']) for _ in range(k))
        r = rng.random()
        if r < 0.6:
            i = rng.randrange(0, len(s) + 1)
            s = s[:i] + MARK + s[i:]
        if r < 0.1:
            i = rng.randrange(0, len(s) + 1)
            s = s[:i] + MARK + s[i:]
        out.append(s)
    return out


def install_matchers(check):
    pass        # no open finding of C12 at present

def run(check):
    quick = check.tier == 'quick'
    rng = check.rng
    # 1. translate
    try:
        changed = common.regen(tr_text.REL, tr_text.translate(common.REPO))
        check.oblige('translator tr_text (scope/nast/util/assistant -> Generated/Text.lean)', True)
        check.extra['generated_changed'] = changed
    except tr_text.Untranslatable as e:
        check.oblige('translator tr_text (scope/nast/util/assistant -> Generated/Text.lean)', False,
                     'source shape not recognised: %s' % e)
    except Exception as e:  # noqa
        check.oblige('translator tr_text (scope/nast/util/assistant -> Generated/Text.lean)', False, repr(e))
    # 2. prove
    check.prove(extra_targets=('drv_text',))
    wok, wout = common.lake_build(['SuppModel.Witness.C12'])
    check.oblige('witnesses SuppModel.Witness.C12 (evaluations of the model on the recorded legacy / open-finding inputs)', wok,
                 '' if wok else wout[-1500:])

    S = Supp()
    install_matchers(check)

    # 3. cursors: generated programs and real files
    cases = [(s, p, lab, os.path.join(S.projdir, 'pkg', 'cur.py')) for s, p, lab in generated_cases(rng, 150 if quick else 1500)]
    if quick:
        # stratified: the last cursor of every (context, expression) pair and every import line, every cursor of the
        # assignment-target and method contexts, and a random sample of the rest
        fixed = [c for c in cases if not c[2].startswith('layout')]
        rest = [c for c in cases if c[2].startswith('layout')]
        last = {}
        for i, c in enumerate(fixed):
            last[c[2]] = i
        must = set(last.values()) | set(i for i, c in enumerate(fixed) if c[2].startswith(('ctx:assign-target', 'ctx:augassign-target', 'ctx:method')))
        others = [i for i in range(len(fixed)) if i not in must]
        pick = must | set(rng.sample(others, min(max(0, 2800 - len(must)), len(others))))
        cases = [fixed[i] for i in sorted(pick)] + rest
    files = textgen.real_files(check, 40 if quick else 400)
    files = [(f, s) for f, s in files if len(s) < (60000 if quick else 400000)]
    cases += file_cases(rng, files, 12 if quick else 40)

    # identifiers longer than any window a prefix extraction might look at (and lines far longer)
    for L in (255, 256, 257, 300, 1000, 5000) + (() if quick else (70000,)):
        ident = 'q' + 'z' * (L - 1)
        fn_ = os.path.join(S.projdir, 'pkg', 'cur.py')
        cases.append(('%s = 1\n%s' % (ident, ident), (2, L), 'long-ident:name', fn_))
        cases.append(('%s = 1\nf(0, %s' % (ident, ident), (2, L + 5), 'long-ident:call', fn_))
        cases.append(('import os\nos.%s' % ident, (2, L + 3), 'long-ident:attr', fn_))
        cases.append(('%s = 1\n%s%s' % (ident, ' ' * L, ident[:40]), (2, L + 40), 'long-line:name', fn_))

    # line ends other than \n: lone \r, \r\n, mixed; a cursor on a later line must land on that line
    fn_ = os.path.join(S.projdir, 'pkg', 'cur.py')
    for sep in ('\r', '\r\n', '\n\r', '\r\r'):
        for body, last in (('value = 1' + sep + 'other = 2' + sep, 'val'), ('import os' + sep + 'foo = os' + sep, 'fo'),
                           ('def f(arg_one):' + sep + '    pass' + sep, 'f')):
            src_ = body + last
            nl = len(src_.replace('\r\n', '\n').replace('\r', '\n').split('\n'))
            try:
                compile(src_, '<m>', 'exec')
            except SyntaxError:
                continue
            cases.append((src_, (nl, len(last)), 'line-ends:%r' % sep, fn_))

    orc = Oracle(S, check)
    prefix_reqs, prefix_impl = [], []
    proposal_lists = []
    failures_before = len(check.failures)
    pending = []
    for src, pos, label, fn in cases:
        res = S.assist(src, pos, fn)
        n0 = len(check.failures)
        line = orc.judge(src, pos, fn, label, res)
        if res[0] == 'ok':
            prefix_reqs.append({'op': 'prefix', 'line': cps(line), 'word': cps(word_chars(line))})
            prefix_impl.append((res[1], line, label))
            if len(proposal_lists) < (300 if quick else 3000) and res[2]:
                proposal_lists.append(res[2])
    # 3a. correspondence: assist's prefix
    replies = common.ask_driver(prefix_reqs, exe='drv_text')
    dis = 0
    branch = 0
    for (impl, line, label), r in zip(prefix_impl, replies):
        branch += 1 if r.get('branch') else 0
        if uncps(r['prefix']) != impl:
            dis += 1
            if dis <= 5:
                check.oblige('correspondence assist prefix', False, 'line %r (%s): impl %r, model %r' % (line[-80:], label, impl, uncps(r['prefix'])))
    if dis == 0:
        check.oblige('correspondence assist prefix (model assistPrefix = first component of assist on the same text)', True)

    # 3b. correspondence: the regular expression itself and the word-character class
    lines = gen_lines(rng, 4000 if quick else 40000) + [l for _, l, _ in prefix_impl[:2000]]
    reqs = [{'op': 'prefix', 'line': cps(l), 'word': cps(word_chars(l))} for l in lines]
    dis_re = 0
    spec_differs = 0
    for l, r in zip(lines, common.ask_driver(reqs, exe='drv_text')):
        impl_generic = re.split(r'\W', l)[-1]
        impl_spec = re.search(r'\w*$', l).group()
        fm = re.match(r'\s*from\s+([\w.]*)$', l)
        is_from = fm is not None
        impl_from = fm.group(1).rpartition('.')[2] if fm else None
        mod_full = uncps(r['prefix'])
        ok = uncps(r['generic']) == impl_generic and uncps(r['spec']) == impl_spec and bool(r['branch']) == is_from \
            and mod_full == (impl_from if is_from else impl_generic)
        spec_differs += 1 if mod_full != impl_spec else 0
        if not ok:
            dis_re += 1
            if dis_re <= 5:
                check.oblige('correspondence prefix expressions', False, 'line %r: python %r/%r/%r/%r, model %r' %
                             (l, impl_generic, impl_spec, is_from, impl_from, {k: (uncps(v) if isinstance(v, list) else v) for k, v in r.items()}))
    if dis_re == 0:
        check.oblige("correspondence prefix expressions (splitBy/identSuffix/fromBranch/fromPrefix = re.split(r'\\W')[-1], "
                     "re.search(r'\\w*$'), the from-branch regex and rpartition, on random lines incl. non-ASCII and every kind of whitespace)", True)

    # 3c. correspondence: unmark / marked / split_pkg / join_pkg
    names = gen_marked_names(rng, 1500 if quick else 15000)
    reqs, impl = [], []
    for n in names:
        reqs.append({'op': 'unmark', 's': cps(n)})
        impl.append({'ok': S.util.unmark(n), 'marked': S.util.marked(n)})
        reqs.append({'op': 'split_pkg', 's': cps(n)})
        impl.append({'ok': list(S.util.split_pkg(n))})
        m2 = rng.choice(names)
        reqs.append({'op': 'join_pkg', 'a': cps(n), 'b': cps(m2)})
        impl.append({'ok': S.util.join_pkg(n, m2)})
    dis_u = 0
    for q, i, r in zip(reqs, impl, common.ask_driver(reqs, exe='drv_text')):
        if q['op'] == 'split_pkg':
            mod = {'ok': [uncps(x) for x in r['ok']]}
        elif q['op'] == 'unmark':
            mod = {'ok': uncps(r['ok']), 'marked': r['marked']}
        else:
            mod = {'ok': uncps(r['ok'])}
        if mod != i:
            dis_u += 1
            if dis_u <= 5:
                check.oblige('correspondence unmark/split_pkg/join_pkg', False, '%s %r: impl %r, model %r' %
                             (q['op'], uncps(q.get('s', q.get('a'))), i, mod))
    if dis_u == 0:
        check.oblige('correspondence unmark / marked / split_pkg / join_pkg (model = supp.util on names with the mark at every kind of place)', True)

    # 3d. correspondence: Source(source, filename, position).source / .lines
    reqs, impl = [], []
    srcs = ['', 'a', 'ab\ncd', 'ab\ncd\n', '\n', 'a\r\nb', 'a\rb\r', 'x = 1\n\x0cy = 2\n', 'a\x85b\u2028c\n', 'é = 1\nfö', 'a\n\nb', 'a\n\n'] + [c[0] for c in cases[:40]]
    for src in srcs:
        nl = len(textgen.parser_lines(src))
        for ln in sorted(set([1, 2, nl, nl + 1, nl + 2, nl + 5, nl + 40, max(1, nl - 1)])):
            for col in (0, 1, 2, 5, 100):
                try:
                    s = S.util.Source(src, 'f.py', (ln, col))
                    impl.append({'ok': s.lines, 'source': s.source})
                except Exception as e:  # noqa
                    impl.append({'err': type(e).__name__})
                reqs.append({'op': 'mark', 'src': cps(src), 'ln': ln, 'col': col})
    dis_m = 0
    for q, i, r in zip(reqs, impl, common.ask_driver(reqs, exe='drv_text')):
        mod = {'ok': [uncps(x) for x in r['ok']], 'source': uncps(r['source'])} if 'ok' in r else r
        if mod != i:
            dis_m += 1
            if dis_m <= 5:
                check.oblige('correspondence Source(position)', False, 'text %r at %r: impl %r, model %r' %
                             (uncps(q['src'])[:80], (q['ln'], q['col']), short(i), short(mod)))
    if dis_m == 0:
        check.oblige('correspondence Source(source, filename, position): marked lines and text (model markLines/joinNl)', True)

    # 3e. correspondence: sorted(n for n in names if not marked(n))
    tables = list(proposal_lists)
    for _ in range(200 if quick else 2000):
        pool = rng.choice(proposal_lists) if proposal_lists and rng.random() < 0.5 else ['a', 'B', 'ab', 'a_', '_a', 'é', 'e', 'z', 'Z', '\U0001f600', '\uffff', 'aa', '']
        t = [rng.choice(pool) for _ in range(rng.choice([0, 1, 3, 10, 30]))]
        t = [x if rng.random() > 0.1 else x[:1] + MARK + x[1:] for x in t]
        rng.shuffle(t)
        tables.append(t)
    reqs = [{'op': 'proposals', 'names': [cps(x) for x in t]} for t in tables]
    dis_s = 0
    for t, r in zip(tables, common.ask_driver(reqs, exe='drv_text')):
        table = {k: None for k in t}      # a dict: the keys of a name table
        impl_sorted = sorted(n for n in table if not S.util.marked(n))
        if [uncps(x) for x in r['ok']] != impl_sorted:
            dis_s += 1
            if dis_s <= 5:
                check.oblige('correspondence proposals', False, 'table keys %r: impl %r, model %r' % (short(t), short(impl_sorted), short([uncps(x) for x in r['ok']])))
    if dis_s == 0:
        check.oblige('correspondence proposals (model sortStr/keys/filter = sorted(n for n in names if not marked(n)) on dict keys)', True)

    # analysis-level transparency as a theorem: C12_mark_transparent (family Extract) under the decidable hypothesis markOK,
    # evaluated by drv_extract on the REAL unmarked and marked trees of every sampled cursor at the end of / inside a name read
    mark_transparency(check, quick)

    # coverage
    labels = {}
    for c in cases:
        k = c[2].split(' ')[0] if c[2].startswith('ctx:') else c[2].split(':')[0] + (':' + c[2].split(':')[1] if c[2].startswith('file:') else '')
        labels[k] = labels.get(k, 0) + 1
    check.cov['evaluations'] = len(cases) + len(lines) + len(names) * 3 + len(tables) + len(impl)
    check.cov['distinct_nontrivial'] = len(set((l, p) for p, l, _ in prefix_impl if p)) + spec_differs
    check.cov['rule'] = ('cursors at the end of and inside every identifier of %d expressions x %d preceding-character contexts (space, brackets, '
                         'comma, operators, colon, start of line, tab, continuation, f-string, string, comment, docstring), of %d import lines, of '
                         'random layouts, and of name reads / attributes / import names of %d real files; non-trivial = distinct (text left of the '
                         'cursor, non-empty prefix) pairs; plus random lines (ASCII and non-ASCII) for the prefix expressions'
                         % (len(EXPRS), len(CONTEXTS), len(IMPORT_LINES), len(files)))
    check.extra.update({'cursors': len(cases), 'cursor_kinds': labels, 'oracle': orc.st, 'from_branch_taken': branch,
                        'disagreements_prefix': dis, 'disagreements_prefix_expressions': dis_re, 'disagreements_util': dis_u,
                        'disagreements_source_mark': dis_m, 'disagreements_proposals': dis_s,
                        'lines_where_assist_prefix_differs_from_spec(model)': spec_differs,
                        'oracle_failures_before_known_findings': len(check.failures) - failures_before + len(check.known_hits)})
    for c in cases[:2] + cases[-3:]:
        check.sample({'cursor': list(c[1]), 'label': c[2], 'line': (c[0].splitlines() + [''])[c[1][0] - 1][:120] if c[1][0] <= len(c[0].splitlines()) else ''})
    check.assumptions += [
        "the word-character class of Python's re (\\w on str) is a parameter of the theorems; the driver receives, per line, the set of "
        'word characters of that line as computed by re.findall',
        'str.splitlines, ast.parse and the analysis (extract_scope, names_at, evaluate, attr_list) are outside the Text model: '
        'transparency of the mark at the analysis level is tested here against the unmarked analysis, not proved',
        'transparency is judged on ASCII-only lines (ast columns are UTF-8 byte offsets)',
        'for a cursor right after the dot of an attribute being ASSIGNED, the attribute under the cursor itself is not expected among the proposals',
    ]
    check.trusted += ['translators/tr_text.py (ast pattern recogniser; compares unmark/marked/split_pkg/join_pkg/Source.__init__/the head of assist with templates)',
                      "the oracle in harness/c12.py: re.search(r'\\w*$'), sorted/set, and supp's own analysis of the unmarked source"]


def mark_transparency(check, quick):
    import ast as _ast
    from . import extractcorr, flowgraph, pygen
    check.prove_also('Extract')
    ok, out = common.lake_build(['drv_extract'])
    if not ok:
        raise common.Infra('drv_extract build failed:\n' + out[-2000:])
    S = flowgraph.load_supp()
    rng = check.rng
    sources = list(extractcorr.SPECIALS)
    for _ in range(60 if quick else 800):
        src = pygen.Gen(rng, depth=rng.choice([2, 3])).program()
        if pygen.valid(src):
            sources.append(src)
    import glob
    import os
    for fn in sorted(glob.glob(os.path.join(common.REPO, 'supp', '*.py')))[:(6 if quick else 30)]:
        sources.append(open(fn).read())
    cases = []
    for src in sources:
        try:
            tree = _ast.parse(src)
        except SyntaxError:
            continue
        names = [n for n in _ast.walk(tree) if isinstance(n, _ast.Name) and isinstance(n.ctx, _ast.Load) and n.lineno == n.end_lineno]
        rng.shuffle(names)
        for n in names[:(8 if quick else 25)]:
            for col in sorted(set([n.end_col_offset, n.col_offset + max(1, (n.end_col_offset - n.col_offset) // 2)])):
                pos = (n.lineno, col)
                try:
                    marked = S['util'].Source(src, '/tmp/none.py', pos).source
                    _ast.parse(marked)
                except SyntaxError:
                    continue
                cases.append((src, marked, pos))
    reps = extractcorr.mark_pairs(cases)
    # markOK asks that NO stored location of the whole tree changes sides of the cursor.  A location stored exactly at the cursor
    # (`any|(k in p for p in d)`: the generator's scope starts at the parenthesis) does, although it lives in a flow the query at the
    # name never visits: such a cursor is outside the theorem's hypotheses (it is judged by the oracle above only), not a failure.
    outside = [r for r in reps if not r.get('ok') and r.get('equal') and r.get('tgtQ') and r.get('layoutPair') and r.get('nameFixed')
               and r.get('cursorOK') is False]
    bad = [(c, r) for c, r in zip(cases, reps) if not r.get('ok') and not any(r is o for o in outside)]
    check.extra['mark_transparency'] = {'cursors': len(cases), 'markOK': len(cases) - len(bad) - len(outside),
                                        'outside_hypotheses_cursor_on_a_stored_location': len(outside),
                                        'note': 'markOK = the real marked tree is markTree of the real unmarked tree and the hypotheses of '
                                                'C12_mark_transparent hold; for those cursors the equality of the tables at the cursor is a theorem'}
    check.oblige('the real marked tree is markTree of the real unmarked tree and the hypotheses of C12_mark_transparent hold on every sampled real '
                 'cursor, except cursors lying exactly on a stored location (counted, judged by the oracle only)', not bad,
                 '; '.join('%r at %s: %r' % (c[0][:80], c[2], {k: v for k, v in r.items() if k != 'newId'}) for c, r in bad[:3]))
    # cross-check of the PROVED rename lemma (extract_rename_proved): wherever its side condition tgtQ holds, its conclusion at
    # the level of compile (renQ, evaluated by the driver) must hold too - a failure would be a statement-to-driver wiring bug
    wrong = [(c, r) for c, r in zip(cases, reps) if r.get('tgtQ') and r.get('renQ') is False]
    check.extra['mark_transparency']['rename_lemma_cross_check'] = {'cursors_with_side_condition': sum(1 for r in reps if r.get('tgtQ')),
                                                                    'conclusion_false': len(wrong)}
    check.oblige('cross-check: on every sampled cursor where the side condition tgtQ of the proved rename lemma holds, its conclusion renQ '
                 'evaluates true', not wrong, '; '.join('%r at %s' % (c[0][:80], c[2]) for c, r in wrong[:3]))
    # the ATTRIBUTE branch of assist: cursors right before (`x.|y`), inside and at the end of an existing attribute name
    acases = []
    for src in sources:
        try:
            tree = _ast.parse(src)
        except SyntaxError:
            continue
        lines = src.splitlines()
        attrs = [n for n in _ast.walk(tree) if isinstance(n, _ast.Attribute) and n.lineno == n.end_lineno
                 and n.lineno <= len(lines) and lines[n.end_lineno - 1].isascii()
                 and lines[n.end_lineno - 1][n.end_col_offset - len(n.attr):n.end_col_offset] == n.attr]
        rng.shuffle(attrs)
        for n in attrs[:(8 if quick else 25)]:
            start = n.end_col_offset - len(n.attr)
            for col in sorted(set([start, start + max(1, len(n.attr) // 2), n.end_col_offset])):
                pos = (n.end_lineno, col)
                try:
                    marked = S['util'].Source(src, '/tmp/none.py', pos).source
                    _ast.parse(marked)
                except SyntaxError:
                    continue
                acases.append((src, marked, pos))
    areps = extractcorr.mark_attr_pairs(acases)
    aoutside = [r for r in areps if not r.get('ok') and r.get('equal') and r.get('layoutPair')
                and r.get('queriesFixed') and r.get('queriesOK') is False]
    awrong = [(c, r) for c, r in zip(acases, areps) if r.get('equal') and r.get('renQ') is False]
    abad = [(c, r) for c, r in zip(acases, areps) if not r.get('ok') and not any(r is o for o in aoutside)]
    check.extra['mark_transparency_attr'] = {'cursors': len(acases), 'markAttrOK': len(acases) - len(abad) - len(aoutside),
                                             'outside_hypotheses': len(aoutside),
                                             'note': 'markAttrOK = the real marked tree is markAttrTree of the real unmarked tree and the '
                                                     'hypotheses of C12_mark_transparent_attr hold: for those cursors the equality of the tables '
                                                     'at every Name inside attr.value is a theorem'}
    check.oblige('cross-check: the conclusion renAQ of the proved attribute-rename lemma (no side condition) evaluates true on every sampled '
                 'attribute cursor', not awrong, '; '.join('%r at %s' % (c[0][:80], c[2]) for c, r in awrong[:3]))
    check.oblige('attribute branch: the real marked tree is markAttrTree of the real unmarked tree and the hypotheses of C12_mark_transparent_attr '
                 'hold on every sampled real attribute cursor', not abad,
                 '; '.join('%r at %s: %r' % (c[0][:80], c[2], {k: v for k, v in r.items() if k != 'newAttr'}) for c, r in abad[:3]))


def short(x, n=300):
    s = repr(x)
    return s if len(s) <= n else s[:n] + '...(%d chars)' % len(s)


def replay(path):
    """re-run the recorded cursors against the current code and the oracle (known findings still apply)"""
    S = Supp()
    data = json.load(open(path))
    still = 0
    for item in data.get('failing_inputs', []):
        r = item['replay']
        src = r.get('src')
        fn = r.get('file') or os.path.join(S.projdir, 'pkg', 'cur.py')
        if src is None and r.get('file'):
            try:
                src = open(r['file'], encoding='utf-8').read()
            except OSError as e:
                print('cannot re-read %s: %s' % (r['file'], e))
        if src is None or 'cursor' not in r:
            continue
        chk = common.Check(data.get('property', 'C12'), 'quick', 0)
        install_matchers(chk)
        pos = tuple(r['cursor'])
        Oracle(S, chk).judge(src, pos, fn, r.get('label', ''), S.assist(src, pos, fn))
        print('%s: %s' % ('STILL FAILS' if chk.failures else 'passes now', item['what'][:200]))
        for f in chk.failures[:3]:
            print('   ', f['what'][:300])
        still += 1 if chk.failures else 0
    return 1 if still else 0
