"""C01, model-free: hand-written programs that combine constructs the statement-language generator (flowsem.py) cannot nest
(a comprehension with a walrus inside a default or an annotation, decorators with arguments that bind, class keywords, lambda
defaults reading loop variables, nested functions closing over for / with / except targets, conditional imports, ...), EXECUTED
under CPython with every identifier read wrapped in an observer.  Every read that succeeds at run time must not be reported
'Undefined name' (E02) / 'UNKNOWN NAME' (E42) by lint, and name completion at the read must offer the identifier.

Only syntax inside C01's domain: no match, no PEP 695 type parameters, no except*, no del, no exec/eval/globals()/locals()/setattr."""
import ast
import sys

PROGRAMS = [
    # --- comprehensions / walrus inside defaults and annotations
    "c = [1, 2]\ndef f(p=[(w := k) for k in c]):\n    return p\nprint(w, f())\n",
    "c = [1]\ndef f(p: [(v := k) for k in c] = 0) -> [(u := 2) for _ in c]:\n    return p\nprint(v, u, f())\n",
    "c = [3]\ng = lambda p=[(z := k) for k in c]: p\nprint(z, g())\n",
    "c = [1]\ndef outer():\n    def f(p={k: (t := k) for k in c}):\n        return p\n    return t, f()\nprint(outer())\n",
    "c = [1]\nclass K:\n    def m(self, p=[q for q in c]):\n        return p\nprint(K().m())\n",
    "c = [1, 2]\ndef f(a=(s := len(c)), b=[s for _ in c]):\n    return a, b\nprint(s, f())\n",
    # --- decorators with arguments, class keywords, bases
    "def deco(x):\n    def w(fn):\n        return fn\n    return w\n@deco(y := 5)\ndef f():\n    return y\nprint(f(), y)\n",
    "def deco(x):\n    return lambda c: c\n@deco(n := 1)\nclass K(object, metaclass=type):\n    a = n\nprint(K.a, n)\n",
    "class M(type):\n    pass\nopts = {}\nclass K(metaclass=M, **opts):\n    b = 1\nprint(K.b, M, opts)\n",
    "def mk():\n    return object\nclass K(mk()):\n    v = mk\nprint(K.v)\n",
    # --- loop / with / except targets seen by nested functions and lambdas
    "fs = []\nfor i in range(2):\n    fs.append(lambda j=i: j + i)\nprint([f() for f in fs], i)\n",
    "def f(xs):\n    for a, (b, *r) in xs:\n        def g():\n            return a, b, r\n        yield g()\nprint(list(f([(1, (2, 3, 4))])))\n",
    "import io\ndef f():\n    with io.StringIO('x') as s, io.StringIO(s.read()) as t:\n        def g():\n            return s, t\n        return g()\nprint(f())\n",
    "def f():\n    try:\n        raise ValueError(1)\n    except ValueError as e:\n        h = lambda: e\n        return h()\nprint(f())\n",
    "def f():\n    try:\n        x = 1\n    except Exception:\n        x = 2\n    else:\n        y = x\n    finally:\n        z = 3\n    return x, y, z\nprint(f())\n",
    "def f(n):\n    while n:\n        n -= 1\n        if n == 1:\n            k = n\n            break\n    else:\n        k = -1\n    return k\nprint(f(3), f(0))\n",
    "def f(xs):\n    for x in xs:\n        if x:\n            found = x\n            break\n    else:\n        found = None\n    return found\nprint(f([0, 2]), f([]))\n",
    # --- global / nonlocal
    "def setg():\n    global G\n    G = 1\nsetg()\nprint(G)\n",
    "def outer():\n    v = 0\n    def inc():\n        nonlocal v\n        v = v + 1\n        return v\n    return inc(), v\nprint(outer())\n",
    "G2 = 0\ndef f():\n    global G2\n    G2 = G2 + 1\n    def g():\n        return G2\n    return g()\nprint(f(), G2)\n",
    "class K:\n    X = 1\n    def m(self):\n        global Y\n        Y = 2\n        return K.X\nprint(K().m(), Y)\n",
    # --- imports in branches / functions
    "try:\n    import json as js\nexcept ImportError:\n    js = None\nprint(js)\n",
    "def f(flag):\n    if flag:\n        import os.path as p\n    else:\n        from os import path as p\n    return p\nprint(f(1), f(0))\n",
    "import os.path, sys as s\nfrom os import (sep,\n    linesep as ls)\nprint(os, s, sep, ls)\n",
    "def f():\n    from os.path import join, split\n    def g():\n        return join, split\n    return g()\nprint(f())\n",
    # --- comprehension scoping
    "xs = [1, 2]\nr = [(a, b) for a in xs for b in xs if a if b]\nprint(r)\n",
    "xs = [[1], [2]]\nr = [y for x in xs for y in x]\nd = {k: v for k, v in enumerate(xs)}\ns = {e for e in d}\ng = list(q for q in s)\nprint(r, d, s, g)\n",
    "def f(xs):\n    t = [(m := x) for x in xs]\n    return m, t\nprint(f([1, 2]))\n",
    "class K:\n    xs = [1, 2]\n    ys = [x for x in xs]\nprint(K.ys)\n",
    "def f(n):\n    return [lambda: (n, i) for i in range(n)]\nprint([g() for g in f(2)])\n",
    # --- parameters of every kind, annotations, defaults reading earlier names
    "D = 1\ndef f(a, /, b=D, *c, d=D, e, **k) -> int:\n    return a, b, c, d, e, k\nprint(f(1, e=2))\n",
    "import typing\ndef f(a: typing.List[int] = [], *b: int, c: 'str' = '', **d: int) -> typing.Any:\n    return a, b, c, d\nprint(f())\n",
    "def f(x, y=lambda: 1):\n    def g(z=x):\n        return z, y()\n    return g()\nprint(f(2))\n",
    "async def co(a, *, b=1):\n    return a, b\nimport asyncio\nprint(asyncio.run(co(1)))\n",
    # --- layout: semicolons, continuations, tabs, non-ASCII identifiers
    "a = 1; b = a; print(a, b)\nif a: c = b; print(c)\n",
    "x = 1 + \\\n    2\ny = (x,\n     x)\nprint(x, y)\n",
    "\u00e9 = 1\ndef f(\u00fc=\u00e9):\n\treturn \u00fc\nprint(f(), \u00e9)\n",
    "class A:\n    x = 1\n    class B:\n        y = 2\n        def m(self):\n            return A.x, A.B.y\nprint(A.B().m())\n",
    # --- assignments: chained, starred, annotated, augmented use
    "a = b = [1, 2]\n*c, d = a\ne: int = d\nf: int\ng = (h := e) + 1\nprint(a, b, c, d, e, g, h)\n",
    "def f():\n    t = 0\n    for i in range(3):\n        t += i\n    return t\nprint(f())\n",
    "def f(xs):\n    first, *rest = xs\n    (p, q), r = (first, rest), 0\n    return p, q, r\nprint(f([1, 2]))\n",
    # --- conditional definitions
    "import sys\nif sys.version_info > (3,):\n    def pick():\n        return 3\nelse:\n    def pick():\n        return 2\nprint(pick())\n",
    "def f(c):\n    if c:\n        def h():\n            return 1\n    else:\n        h = None\n    return h\nprint(f(1), f(0))\n",
    "def gen():\n    x = yield 1\n    y = yield x\n    return y\ng = gen()\nprint(next(g), g.send(5))\n",
    "def f():\n    with open(__file__) as fh:\n        data = fh.read()\n    return len(data) and fh\nprint(f())\n",
    # --- call-time lookups: names defined after the function that reads them, rebinding of module names, recursion
    "def f():\n    return g() + K\ndef g():\n    return 1\nK = 2\nprint(f())\n",
    "def even(n):\n    return True if n == 0 else odd(n - 1)\ndef odd(n):\n    return False if n == 0 else even(n - 1)\nprint(even(4))\n",
    "class A:\n    def m(self):\n        return B().n()\nclass B:\n    def n(self):\n        return A\nprint(A().m())\n",
    "x = 1\ndef f():\n    return x\nx = 2\nprint(f(), x)\n",
    "def f():\n    def g():\n        return h()\n    def h():\n        return 1\n    return g()\nprint(f())\n",
    # --- class bodies
    "y = 1\nclass K:\n    a = y\n    b = a + 1\n    def m(self):\n        return y, K.b\n    c = [y for _ in (1,)]\nprint(K().m(), K.c)\n",
    "class K:\n    import os as _os\n    from os import sep\n    p = _os.sep == sep\nprint(K.p)\n",
    # (the implicit `__class__` cell of a method is a name no statement binds: outside the domain, not in the corpus)
    "class Base:\n    def hello(self):\n        return 1\nclass D(Base):\n    def hello(self):\n        return super().hello() + 1\n    def cls(self):\n        return type(self)\nprint(D().hello(), D().cls())\n",
    "def mk(n):\n    class L:\n        size = n\n        def get(self):\n            return n, L.size\n    return L\nprint(mk(3)().get())\n",
    "class K:\n    @staticmethod\n    def s(v=1):\n        return v\n    @classmethod\n    def c(cls, w=s):\n        return cls, w\n    @property\n    def p(self):\n        return self.s()\nprint(K.c(), K().p)\n",
    # --- expressions with binding side effects
    "def f(xs):\n    if (n := len(xs)) > 1 and (m := n * 2) > 2:\n        return n, m\n    return n\nprint(f([1, 2]), f([]))\n",
    "def f(a):\n    r = (b := a + 1) if a else (b := 0)\n    return r, b\nprint(f(1), f(0))\n",
    "def f(a):\n    return [y for x in a if (y := x + 1) > 1]\nprint(f([1, 2]))\n",
    "import re\ndef f(s):\n    while (mo := re.match('a', s)):\n        s = s[1:]\n    return s, mo\nprint(f('aab'))\n",
    "def f(n):\n    total = 0\n    while (n := n - 1) >= 0:\n        total += n\n    else:\n        last = n\n    return total, last\nprint(f(3))\n",
    # --- try / finally / return / loops with else
    "def f(c):\n    try:\n        if c:\n            return 'early'\n        v = 1\n    finally:\n        w = 2\n    return v, w\nprint(f(0), f(1))\n",
    "def f(xs):\n    for x in xs:\n        try:\n            y = 1 // x\n        except ZeroDivisionError as err:\n            msg = str(err)\n            continue\n        else:\n            ok = y\n    return xs and (x,)\nprint(f([0, 1]))\n",
    "def f():\n    try:\n        import nonexistent_zq_mod as m\n    except ImportError:\n        m = None\n    return m\nprint(f())\n",
    "def f(n):\n    out = []\n    for i in range(n):\n        for j in range(i):\n            if j:\n                break\n        else:\n            out.append(i)\n            continue\n        out.append((i, j))\n    return out\nprint(f(3))\n",
    "def f():\n    with open(__file__) as a, open(__file__) as b:\n        pair = a, b\n    return pair\nprint(f())\n",
    # --- async
    "import asyncio\nasync def agen():\n    for i in range(2):\n        yield i\nasync def main():\n    out = [x async for x in agen()]\n    async for y in agen():\n        last = y\n    return out, last\nprint(asyncio.run(main()))\n",
    "import asyncio\nclass CM:\n    async def __aenter__(self):\n        return self\n    async def __aexit__(self, *a):\n        return False\nasync def main():\n    async with CM() as c, CM() as d:\n        return c, d\nprint(asyncio.run(main()))\n",
    # --- star / keyword unpacking, lambdas, nested lambdas
    "def f(*a, **k):\n    return a, k\nargs = (1,)\nkw = {'z': 2}\nprint(f(*args, **kw), [*args, *args], {**kw})\n",
    "mul = lambda a: lambda b: a * b\nprint(mul(2)(3))\n",
    "def f(seq, key=lambda item, default=0: item or default):\n    return [key(s) for s in seq]\nprint(f([0, 1]))\n",
    # --- globals declared in nested functions / conditional globals
    "def outer():\n    def inner():\n        global G3\n        G3 = 3\n    inner()\n    return G3\nprint(outer(), G3)\n",
    "import sys\nif sys.argv is not None:\n    FLAG = True\nelse:\n    FLAG = False\ndef f():\n    return FLAG\nprint(f())\n",
    "def f():\n    global H\n    for H in range(2):\n        pass\n    with open(__file__) as H2:\n        pass\n    return H\nprint(f(), H)\n",
    # --- nonlocal in several shapes
    "def outer(xs):\n    count = 0\n    def bump():\n        nonlocal count\n        count += 1\n    limit = 3\n    for x in xs:\n        if x > limit:\n            bump()\n    return count, limit\nprint(outer([1, 5]))\n",
    "def outer(xs):\n    total = 0\n    def add(v):\n        nonlocal total\n        total = total + v\n    scale = 2\n    try:\n        for x in xs:\n            while x:\n                add(x * scale)\n                x -= 1\n    finally:\n        done = scale\n    return total, done\nprint(outer([1, 2]))\n",
    "def counter():\n    n = 0\n    def inc(by=1):\n        nonlocal n\n        if by:\n            n += by\n        return n\n    return inc\nc = counter()\nprint(c(), c(0), c(2))\n",
    "def outer():\n    a = b = 0\n    def mid():\n        nonlocal a\n        def inner():\n            nonlocal a, b\n            a, b = a + 1, b + 1\n            return a, b\n        return inner()\n    return mid(), a, b\nprint(outer())\n",
    "def outer():\n    items = []\n    def add(x):\n        nonlocal items\n        items = items + [x]\n        for items2 in items:\n            pass\n        return items\n    return add(1), items\nprint(outer())\n",
    # --- decorators, nested def in loops, names reused across scopes
    "import functools\ndef deco(fn):\n    @functools.wraps(fn)\n    def wrapper(*a, **k):\n        return fn(*a, **k)\n    return wrapper\n@deco\ndef f(x):\n    return x\nprint(f(1))\n",
    "handlers = {}\nfor name in ('a', 'b'):\n    def h(arg, name=name):\n        return name, arg\n    handlers[name] = h\nprint(handlers['a'](1), name, h)\n",
    "x = 'module'\ndef f(x):\n    def g():\n        return x\n    return g()\nclass K:\n    x = 'class'\n    def m(self):\n        return x\nprint(f('arg'), K().m(), K.x)\n",
    "def f():\n    l = []\n    for i in range(2):\n        l.append(i)\n    i2 = i\n    return l, i2\nprint(f())\n",
]


class Wrap(ast.NodeTransformer):
    def __init__(self):
        self.sites = []

    def visit_Name(self, node):
        if isinstance(node.ctx, ast.Load) and node.id != '__obs__':
            self.sites.append((node.id, node.lineno, node.col_offset))
            return ast.copy_location(ast.Call(func=ast.Name(id='__obs__', ctx=ast.Load()),
                                              args=[ast.Constant(value=len(self.sites) - 1), node], keywords=[]), node)
        return node

    def visit_JoinedStr(self, node):
        return node         # leave f-strings alone (nested quoting)


def observe(src, max_lines=20000):
    """-> (set of (name, line, col) reads that succeeded, how the run ended)"""
    tree = ast.parse(src)
    w = Wrap()
    tree = ast.fix_missing_locations(w.visit(tree))
    seen = set()

    def obs(k, value):
        seen.add(w.sites[k])
        return value
    code = compile(tree, '<c01-exec>', 'exec')
    budget = [max_lines]

    def tracer(frame, event, arg):
        if frame.f_code.co_filename != '<c01-exec>':
            return None
        if event == 'line':
            budget[0] -= 1
            if budget[0] < 0:
                raise TimeoutError('line budget')
        return tracer
    ns = {'__obs__': obs, '__name__': '__c01_exec__', '__file__': __file__}
    how = 'finished'
    old = sys.gettrace()
    import io
    import contextlib
    sys.settrace(tracer)
    try:
        with contextlib.redirect_stdout(io.StringIO()):
            exec(code, ns)
    except BaseException as e:  # noqa
        how = type(e).__name__
    finally:
        sys.settrace(old)
    return seen, how


def nonlocal_rebound_read(src, read):
    """known-finding class C01-nonlocal-rebound-read: the read is directly inside a function that declares the identifier nonlocal
    and also binds it (supp has no visit_Nonlocal: the binding makes the name a local of that function, unbound before it)"""
    name, ln, col = read
    tree = ast.parse(src)
    best = None
    for f in ast.walk(tree):
        if isinstance(f, (ast.FunctionDef, ast.AsyncFunctionDef)) and f.lineno <= ln <= f.end_lineno:
            if best is None or f.lineno >= best.lineno:
                best = f
    if best is None:
        return False

    def own(node):          # statements of `best` itself, not of functions / classes nested in it
        for ch in ast.iter_child_nodes(node):
            if isinstance(ch, (ast.FunctionDef, ast.AsyncFunctionDef, ast.Lambda, ast.ClassDef)):
                continue
            yield ch
            for x in own(ch):
                yield x
    nodes = list(own(best))
    declared = any(isinstance(n, ast.Nonlocal) and name in n.names for n in nodes)
    bound = any(isinstance(n, ast.Name) and n.id == name and isinstance(n.ctx, ast.Store) for n in nodes)
    return declared and bound


def walrus_in_comp_condition(src, read):
    """known-finding class C01-walrus-in-comprehension: the read is in the element of a comprehension one of whose conditions
    binds the name through a walrus"""
    name, ln, col = read
    for n in ast.walk(ast.parse(src)):
        if isinstance(n, (ast.ListComp, ast.SetComp, ast.GeneratorExp, ast.DictComp)) and n.lineno <= ln <= n.end_lineno:
            for g in n.generators:
                for cond in g.ifs:
                    if any(isinstance(w, ast.NamedExpr) and w.target.id == name for w in ast.walk(cond)):
                        return True
    return False


def walrus_condition_binding_read_by_element(src, name):
    """the name is bound by a walrus in a comprehension condition and read by that comprehension's element"""
    for n in ast.walk(ast.parse(src)):
        if isinstance(n, (ast.ListComp, ast.SetComp, ast.GeneratorExp, ast.DictComp)):
            bound = any(isinstance(w, ast.NamedExpr) and w.target.id == name for g in n.generators for c in g.ifs for w in ast.walk(c))
            elts = [n.key, n.value] if isinstance(n, ast.DictComp) else [n.elt]
            if bound and any(isinstance(w, ast.Name) and w.id == name and isinstance(w.ctx, ast.Load) for e in elts for w in ast.walk(e)):
                return True
    return False


def run(check, S):
    """-> number of reads judged"""
    import logging
    logging.disable(logging.CRITICAL)
    project = S['project'].Project(['/nonexistent-c01-exec'])
    n = unfinished = 0
    lint, assist = S['linter'].lint, S['assistant'].assist
    for src in PROGRAMS:
        try:
            compile(src, '<p>', 'exec')
        except SyntaxError:
            check.oblige('c01_exec corpus is valid Python', False, src[:200])
            continue
        seen, how = observe(src)
        if how != 'finished':
            unfinished += 1
            check.oblige('c01_exec corpus programs run to their end under CPython', False, '%s: %r' % (how, src[:200]))
        try:
            diags = lint(project, src, '/nonexistent-c01-exec/m.py')
        except Exception as e:  # noqa
            check.fail('C01 (executed corpus): lint raised %s' % type(e).__name__, {'kind': 'c01_exec', 'source': src})
            continue
        bad = {(d[2], d[3]): d for d in diags if d[0] in ('E02', 'E42')}
        lines = src.split('\n')
        for name, ln, col in sorted(seen):
            n += 1
            # ast columns are UTF-8 bytes, supp reports character columns
            ccol = len(lines[ln - 1].encode('utf-8')[:col].decode('utf-8', 'ignore'))
            d = bad.get((ln, ccol))
            if d is not None and d[1].endswith(': ' + name):
                check.fail('C01 (executed corpus): a read that succeeds under CPython is reported %s' % d[0],
                           {'kind': 'c01_exec', 'source': src, 'read': [name, ln, ccol], 'diagnostic': list(d[:4])})
                continue
            if lines[ln - 1].isascii():
                try:
                    prefix, props = assist(project, src, (ln, ccol + len(name)), '/nonexistent-c01-exec/m.py')
                except Exception as e:  # noqa
                    continue            # totality is C08's business
                if prefix == name and name not in props:
                    check.fail('C01 (executed corpus): completion at a read that succeeds under CPython does not offer the identifier',
                               {'kind': 'c01_exec', 'source': src, 'read': [name, ln, ccol], 'proposals': list(props)[:40]})
    check.extra['executed_corpus'] = {'programs': len(PROGRAMS), 'reads_judged': n, 'programs_not_finished': unfinished}
    logging.disable(logging.NOTSET)
    return n


def binding_sites(tree):
    """identifier -> list of (line) of its binding sites anywhere in the file (purely syntactic)"""
    sites = {}

    def add(name, node):
        sites.setdefault(name, []).append(node.lineno)
    for n in ast.walk(tree):
        if isinstance(n, ast.Name) and isinstance(n.ctx, (ast.Store, ast.Del)):
            add(n.id, n)
        elif isinstance(n, ast.arg):
            add(n.arg, n)
        elif isinstance(n, (ast.FunctionDef, ast.AsyncFunctionDef, ast.ClassDef)):
            add(n.name, n)
        elif isinstance(n, ast.alias):
            add((n.asname or n.name).split('.')[0], n)
        elif isinstance(n, ast.ExceptHandler) and n.name:
            add(n.name, n)
        elif isinstance(n, (ast.Global, ast.Nonlocal)):
            for x in n.names:
                sites.setdefault(x, []).append(-1)      # a declaration: the identifier is not "bound exactly once, plainly"
    return sites


def run_c02(check, S):
    """C02 on the executed corpus: an identifier with exactly ONE binding site in the whole file (no global / nonlocal declaration of
    it) that CPython read successfully was read from that site.  So lint must not call that binding unused, and go-to-definition
    from the read must list that site (compared by line).  -> number of reads judged"""
    import logging
    logging.disable(logging.CRITICAL)
    project = S['project'].Project(['/nonexistent-c01-exec'])
    lint, location = S['linter'].lint, S['assistant'].location
    n = 0
    fn = '/nonexistent-c01-exec/m.py'
    for src in PROGRAMS:
        try:
            tree = ast.parse(src)
        except SyntaxError:
            continue
        seen, how = observe(src)
        sites = binding_sites(tree)
        single = {k: v[0] for k, v in sites.items() if len(v) == 1 and v[0] > 0}
        try:
            diags = lint(project, src, fn)
        except Exception:  # noqa  -- judged by C01 / C08
            continue
        lines = src.split('\n')
        read_names = set(name for name, ln, col in seen)
        for d in diags:
            if d[0] in ('W01', 'W02'):
                name = d[1].split(': ', 1)[1]
                if name in single and name in read_names and d[2] == single[name]:
                    check.fail('C02 (executed corpus): the only binding of a name CPython reads is reported unused (%s)' % d[0],
                               {'kind': 'c02_exec', 'source': src, 'name': name, 'diagnostic': list(d[:4])})
        for name, ln, col in sorted(seen):
            if name not in single or not lines[ln - 1].isascii():
                continue
            n += 1
            try:
                locs = location(project, src, (ln, col + len(name)), fn)
            except Exception:  # noqa  -- totality is C08
                continue
            flat = []
            for r in locs or []:
                flat += r if isinstance(r, list) else [r]
            if not any(r.get('file') == fn and r['loc'][0] == single[name] for r in flat):
                check.fail('C02 (executed corpus): go-to-definition from a read misses the only binding of the name',
                           {'kind': 'c02_exec', 'source': src, 'read': [name, ln, col], 'binding_line': single[name],
                            'location': [list(r['loc']) for r in flat if r.get('file') == fn]})
    check.extra['executed_corpus_c02'] = {'programs': len(PROGRAMS), 'reads_of_singly_bound_names_judged': n}
    logging.disable(logging.NOTSET)
    return n


def replay_item_c02(S, r):
    class C(object):
        def __init__(self):
            self.f = []
            self.extra = {}

        def fail(self, what, rep):
            self.f.append((what, rep))
    global PROGRAMS
    saved, PROGRAMS = PROGRAMS, [r['source']]
    try:
        c = C()
        run_c02(c, S)
    finally:
        PROGRAMS = saved
    print('executed corpus program (C02): %s' % ('STILL FAILS: %s' % c.f[0][0] if c.f else 'passes now'))
    return bool(c.f)


def replay_item(S, r):
    class C(object):
        def __init__(self):
            self.f = []
            self.extra = {}

        def oblige(self, *a):
            pass

        def fail(self, what, rep):
            self.f.append((what, rep))
    global PROGRAMS
    saved, PROGRAMS = PROGRAMS, [r['source']]
    try:
        c = C()
        run(c, S)
    finally:
        PROGRAMS = saved
    print('executed corpus program: %s' % ('STILL FAILS: %s' % c.f[0][0] if c.f else 'passes now'))
    return bool(c.f)


# ------------------------------------------------------------------------------------------------ C03: reads that always fail
# (source, name): executing the source ends in NameError / UnboundLocalError for `name`; that read has no definition on any
# execution WHATEVER the branch outcomes, trip counts and call order (C03 quantifies over all of them: no `if 0`, no empty loop,
# no call-before-definition here), so supp must list none for it (lint: 'Undefined name').  Module-level pseudo-names (__all__,
# __path__), names bound only in another scope, only by an import of something else, declared global and never bound.
UNDEFINED = [
    ('print(__all__)\n', '__all__'), ('print(__path__)\n', '__path__'), ('print(undefined_zq)\n', 'undefined_zq'),
    ('import os.path as p\nprint(os)\n', 'os'),
    ('from os import path\nprint(sep)\n', 'sep'),
    ('def f(a):\n    inner = a\nprint(inner)\n', 'inner'),
    ('def f():\n    global y_zq\n    return y_zq\nf()\n', 'y_zq'),
    ('class K:\n    attr = 1\nprint(attr)\n', 'attr'),
    ('def f():\n    def g():\n        return hidden\n    return g()\nf()\nhidden_other = 1\n', 'hidden'),
    ('print(__builtins_zq__)\n', '__builtins_zq__'), ('print(__loader_zq__, __spec_zq__)\n', '__loader_zq__'),
]


def run_undefined(check, S):
    """C03: -> number of reads judged"""
    import logging
    logging.disable(logging.CRITICAL)
    project = S['project'].Project(['/nonexistent-c03-exec'])
    n = 0
    for src, name in UNDEFINED:
        ns = {'__name__': '__c03_exec__', '__file__': __file__}
        ns.pop('__builtins__', None)
        err = None
        try:
            import io
            import contextlib
            with contextlib.redirect_stdout(io.StringIO()):
                exec(compile(src, '<c03-exec>', 'exec'), ns)
        except NameError as e:
            err = e
        except BaseException as e:  # noqa
            err = e
        if not (isinstance(err, NameError) and getattr(err, 'name', None) == name):
            check.oblige('c03 executed corpus: every program ends in NameError for the marked name under CPython', False,
                         '%r: %r' % (src[:120], err))
            continue
        reads = [(n_.lineno, n_.col_offset) for n_ in ast.walk(ast.parse(src))
                 if isinstance(n_, ast.Name) and n_.id == name and isinstance(n_.ctx, ast.Load)]
        try:
            diags = S['linter'].lint(project, src, '/nonexistent-c03-exec/m.py')
        except Exception as e:  # noqa
            continue
        reported = set((d[2], d[3]) for d in diags if d[0] == 'E02' and d[1].endswith(': ' + name))
        for r in reads:
            n += 1
            if r not in reported:
                check.fail('C03 (executed corpus): a read that fails with NameError on every execution is not reported undefined '
                           '(supp lists a definition no execution provides)',
                           {'kind': 'c03_exec', 'source': src, 'read': [name, r[0], r[1]], 'diagnostics': [list(d[:4]) for d in diags]})
    check.extra['executed_corpus_undefined'] = {'programs': len(UNDEFINED), 'reads_judged': n}
    logging.disable(logging.NOTSET)
    return n
