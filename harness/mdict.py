"""MDict family: the real `supp.merged_dict.MergedDict` against the Lean model (lean/SuppModel/MDict/Model.lean, driver
`drv_mdict`) on generated chains of tables — every length class up to several hundred parts, overlapping keys, nested
MergedDict arguments — and, independently of the model, against `collections.ChainMap` over the flattened parts
(the stdlib's statement of "first mapping that has the key wins; iteration = dict built from the reversed maps").

The theorems of lean/SuppModel/Props/MDict.lean (priority, chain lookup, iteration = lookup, iteration order a function of
the parts' orders, every length and nesting) are about the definitions this stream executes.  A disagreement is a broken
tie of the calling property (C02: which binding a lookup reaches; C17: order of a merged table), not by itself a
violation: the concrete failing input has to come from that property's own search."""
import collections
import json
import sys

from . import common, flowgraph

NAME = 'correspondence mdict (real MergedDict vs model: _dicts, [], in, get, items, iter, values)'
ORACLE = 'MergedDict vs collections.ChainMap over the flattened parts (lookup, membership, iteration order)'


def gen_dict(rng, pool):
    n = rng.choice([0, 1, 1, 2, 2, 3, 4, 6])
    keys = []
    for _ in range(n):
        k = rng.randrange(pool)
        if k not in keys:
            keys.append(k)
    return [[k, rng.randrange(1000)] for k in keys]


def gen_len(rng, quick):
    r = rng.random()
    if r < 0.55:
        return rng.randint(0, 6)
    if r < 0.75:
        return rng.randint(7, 20)
    if r < 0.9:
        return rng.randint(21, 70)
    return rng.randint(71, 140 if quick else 400)


def gen_spec(rng, quick, depth=0):
    """-> nested spec: list of ('d', pairs) | ('m', spec)"""
    pool = rng.choice([3, 5, 8, 12, 40])
    n = gen_len(rng, quick) if depth == 0 else rng.randint(0, 5)
    spec = []
    for _ in range(n):
        if depth < 3 and rng.random() < (0.25 if depth == 0 else 0.35):
            spec.append(('m', gen_spec(rng, quick, depth + 1)))
        else:
            spec.append(('d', gen_dict(rng, pool)))
    return spec


def key(k):
    return 'k%d' % k


def build(MD, spec, built):
    """construct the real object bottom-up; every MergedDict constructed on the way is recorded in `built` as
    (object, [arg descriptions for the model], flattened parts by an independent recursion)"""
    args, margs, flat = [], [], []
    for kind, x in spec:
        if kind == 'd':
            args.append(dict((key(k), v) for k, v in x))
            margs.append({'d': x})
            flat.append(x)
        else:
            inner, inner_flat = build(MD, x, built)
            args.append(inner)
            # the model takes the inner object's own `_dicts` (checked when the inner object was built)
            margs.append({'m': [[[int(k[1:]), v] for k, v in d.items()] for d in inner._dicts]})
            flat.extend(inner_flat)
    obj = MD(*args)
    built.append((obj, margs, flat))
    return obj, flat


def observe(obj, keys, dflt):
    out = {'dicts': [[[int(k[1:]), v] for k, v in d.items()] for d in obj._dicts]}
    gi, co, ge = [], [], []
    for k in keys:
        try:
            gi.append(obj[key(k)])
        except KeyError:
            gi.append(None)
        co.append(key(k) in obj)
        ge.append(obj.get(key(k), dflt))
    out['getitem'], out['contains'], out['get'] = gi, co, ge
    out['items'] = [[int(k[1:]), v] for k, v in obj.iteritems()]
    out['items2'] = [[int(k[1:]), v] for k, v in obj.items()]
    out['iter'] = [int(k[1:]) for k in obj]
    out['values'] = list(obj.itervalues())
    out['values2'] = list(obj.values())
    return out


REAL = 'correspondence mdict on the tables supp itself builds (every MergedDict constructed while linting real files: model = real object)'


def real_tables(check, S, MD, limit):
    """the MergedDict objects supp's own analyses construct (captured from outside by wrapping the constructor) while linting
    the repository's files: the shapes that really occur (chain lengths, overlap), observed through the same methods"""
    import glob
    import os
    captured = []
    orig = MD.__init__

    def init(self, *dicts):
        orig(self, *dicts)
        captured.append(self)
    files = sorted(glob.glob(os.path.join(common.REPO, 'supp', '*.py')))
    MD.__init__ = init
    try:
        project = S['project'].Project([common.REPO])
        for fn in files:
            try:
                S['linter'].lint(project, open(fn).read(), fn)
            except Exception:  # noqa  -- totality is C08
                pass
    finally:
        MD.__init__ = orig
    st = {'files_linted': len(files), 'constructed': len(captured), 'compared': 0, 'skipped_non_dict_part': 0, 'max_parts': 0,
          'parts_histogram': {}, 'lookups': 0, 'shadowed_hits': 0, 'disagreements': 0}
    rng = check.rng
    if len(captured) > limit:
        captured = rng.sample(captured, limit)
    kid, vid = {}, {}
    reqs, reals = [], []
    for obj in captured:
        parts = obj._dicts
        if any(type(d) is not dict for d in parts):
            st['skipped_non_dict_part'] += 1
            continue
        enc = [[[kid.setdefault(k, len(kid)), vid.setdefault(id(v), len(vid))] for k, v in d.items()] for d in parts]
        allk = [k for d in parts for k in d]
        seen, shadowed = set(), []
        for k in allk:
            if k in seen and k not in shadowed:
                shadowed.append(k)
            seen.add(k)
        keys = shadowed[:6] + (rng.sample(allk, 10) if len(allk) > 10 else list(allk)) + ['no_such_name_%d' % i for i in range(2)]
        sentinel = object()
        real = {'getitem': [], 'contains': [k in obj for k in keys],
                'items': [[kid.setdefault(k, len(kid)), vid.setdefault(id(v), len(vid))] for k, v in obj.iteritems()],
                'iter': [kid.setdefault(k, len(kid)) for k in obj]}
        for k in keys:
            v = obj.get(k, sentinel)
            real['getitem'].append(None if v is sentinel else vid.setdefault(id(v), len(vid)))
            st['shadowed_hits'] += sum(1 for d in parts if k in d) > 1
        reqs.append({'op': 'mdict', 'args': [{'d': d} for d in enc], 'keys': [kid.setdefault(k, len(kid)) for k in keys], 'default': 0})
        reals.append(real)
        n = len(parts)
        st['max_parts'] = max(st['max_parts'], n)
        b = str(n) if n < 8 else ('8-15' if n < 16 else '16+')
        st['parts_histogram'][b] = st['parts_histogram'].get(b, 0) + 1
        st['lookups'] += len(keys)
    first = None
    for req, real, rep in zip(reqs, reals, common.ask_driver(reqs, exe='drv_mdict') if reqs else []):
        st['compared'] += 1
        model = {k: rep.get(k) for k in real}
        if 'driver_error' in rep or model != real:
            st['disagreements'] += 1
            first = first or ('%d parts: real %r model %r' % (len(req['args']), {k: real[k] for k in real if real[k] != model.get(k)},
                                                              {k: model.get(k) for k in real if real[k] != model.get(k)}))
    check.oblige(REAL, st['disagreements'] == 0 and st['compared'] > 0,
                 '' if st['disagreements'] == 0 and st['compared'] > 0 else
                 ('%d of %d tables differ; first: %s' % (st['disagreements'], st['compared'], (first or '')[:800])))
    return st


def run(check, S=None):
    quick = check.tier == 'quick'
    rng = check.rng
    S = S or flowgraph.load_supp()
    check.prove_also('MDict')
    ok, out = common.lake_build(['drv_mdict'])
    if not ok:
        raise common.Infra('drv_mdict build failed:\n' + out[-2000:])
    try:
        MD = sys.modules[S['scope'].__name__.rsplit('.', 1)[0] + '.merged_dict'].MergedDict
    except Exception as e:  # noqa
        check.oblige(NAME, False, 'MergedDict could not be imported: %r' % (e,))
        return
    n_cases = 700 if quick else 6000
    reqs, reals, flats = [], [], []
    st = {'top_level_cases': n_cases, 'objects': 0, 'lookups': 0, 'hits': 0, 'shadowed_hits': 0, 'nested_args': 0,
          'max_parts': 0, 'parts_over_16': 0, 'parts_over_64': 0, 'parts_over_128': 0, 'model_disagreements': 0,
          'oracle_disagreements': 0, 'raised': 0, 'not_wf': 0}
    first_bad = first_bad_oracle = None
    for _ in range(n_cases):
        spec = gen_spec(rng, quick)
        built = []
        try:
            build(MD, spec, built)
        except Exception as e:  # noqa
            st['raised'] += 1
            first_bad = first_bad or ('constructing MergedDict from %r raised %r' % (spec, e))
            continue
        for obj, margs, flat in built:
            allk = sorted(set(k for d in flat for k, _ in d))
            keys = allk[:12] + [rng.randrange(60) for _ in range(3)]
            dflt = rng.randrange(1000, 2000)
            try:
                real = observe(obj, keys, dflt)
            except Exception as e:  # noqa
                st['raised'] += 1
                first_bad = first_bad or ('MergedDict built from %r raised %r' % (margs, e))
                continue
            reqs.append({'op': 'mdict', 'args': margs, 'keys': keys, 'default': dflt})
            reals.append(real)
            flats.append(flat)
            st['nested_args'] += sum(1 for a in margs if 'm' in a)
    replies = common.ask_driver(reqs, exe='drv_mdict') if reqs else []
    distinct = set()
    for req, real, flat, rep in zip(reqs, reals, flats, replies):
        st['objects'] += 1
        if 'driver_error' in rep:
            check.oblige('correspondence mdict driver', False, rep['driver_error'])
            break
        n = len(flat)
        st['max_parts'] = max(st['max_parts'], n)
        st['parts_over_16'] += n > 16
        st['parts_over_64'] += n > 64
        st['parts_over_128'] += n > 128
        st['not_wf'] += not rep['wf']
        st['lookups'] += len(req['keys'])
        for k, v in zip(req['keys'], real['getitem']):
            if v is not None:
                st['hits'] += 1
                st['shadowed_hits'] += sum(1 for d in flat if any(kk == k for kk, _ in d)) > 1
        distinct.add((n, len(real['iter'])))
        model = dict(rep)
        model.pop('wf')
        r2 = dict(real)
        if r2.pop('items2') != real['items'] or r2.pop('values2') != real['values']:
            st['model_disagreements'] += 1
            first_bad = first_bad or 'items()/values() differ from iteritems()/itervalues() on %r' % (req['args'],)
            continue
        if r2 != model:
            st['model_disagreements'] += 1
            what = [k for k in r2 if r2[k] != model.get(k)]
            first_bad = first_bad or ('%d parts, args %s: real and model differ in %s: real %r model %r'
                                      % (n, json.dumps(req['args'])[:600], what, {k: r2[k] for k in what},
                                         {k: model.get(k) for k in what}))
        # independent of the model: ChainMap over the parts flattened by the harness's own recursion
        cm = collections.ChainMap(*[dict(d) for d in flat]) if flat else collections.ChainMap()
        o_get = [cm.get(k) for k in req['keys']]
        o_in = [k in cm for k in req['keys']]
        o_iter = list(cm)
        o_items = [[k, cm[k]] for k in o_iter]
        if (o_get, o_in, o_iter, o_items, [list(map(list, d)) for d in flat]) != \
                (real['getitem'], real['contains'], real['iter'], real['items'], real['dicts']):
            st['oracle_disagreements'] += 1
            first_bad_oracle = first_bad_oracle or ('%d parts %s: MergedDict getitem %r in %r iter %r; ChainMap %r %r %r'
                                                    % (n, json.dumps(flat)[:600], real['getitem'], real['contains'],
                                                       real['iter'], o_get, o_in, o_iter))
    okm = st['model_disagreements'] == 0 and st['raised'] == 0
    check.oblige(NAME, okm, '' if okm else '%d objects differ, %d raised; first: %s'
                 % (st['model_disagreements'], st['raised'], first_bad))
    oko = st['oracle_disagreements'] == 0
    check.oblige(ORACLE, oko, '' if oko else '%d objects differ; first: %s' % (st['oracle_disagreements'], first_bad_oracle))
    st['distinct_shapes'] = len(distinct)
    try:
        st['real_tables'] = real_tables(check, S, MD, 400 if quick else 4000)
    except Exception as e:  # noqa
        check.oblige(REAL, False, 'the stream could not run: %r' % (e,))
    check.extra['mdict'] = st
    check.cov['evaluations'] += st['lookups']
    check.assumptions += [
        'MDict: keys and values are modelled as naturals (the real class is generic; the harness uses str keys as the name '
        'tables do); a part is a plain dict (distinct keys, insertion order); only `type(d) == MergedDict` arguments are '
        'flattened, as in the code (subclasses are not, and are not generated)',
    ]
    return st


if __name__ == '__main__':
    import random

    class _C(object):
        tier = 'quick'

        def __init__(self, seed):
            self.rng = random.Random(seed)
            self.extra, self.assumptions, self.fails, self.obl = {}, [], [], []
            self.cov = {'evaluations': 0}

        def oblige(self, name, ok, detail=''):
            self.obl.append((name, ok, detail))

        def prove_also(self, m):
            print(common.lake_build(['SuppModel.Props.' + m])[0])

        def fail(self, what, replay):
            self.fails.append(what)

    c = _C(int(sys.argv[1]) if len(sys.argv) > 1 else 0)
    if len(sys.argv) > 2:
        c.tier = sys.argv[2]
    run(c)
    print(json.dumps(c.extra, indent=1))
    for o in c.obl:
        print(o)
