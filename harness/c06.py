"""C06 — attribute completion and definition follow Python's lookup order.

tie    : correspondence of the executable model (lean/SuppModel/Attrs: classAttrs = ClassObject._attrs,
         instAttrs = InstanceValue._attrs) with supp.assistant.assist / location on generated class hierarchies
         spread over project modules, for every expression form of the property
search : the real assist/location answers against CPython itself (a subprocess imports the same files and reports
         __mro__, vars(), instance __dict__ after calling every method, binding lines via code objects / ast)
"""
import json
import os
import shutil
import subprocess
import sys
import tempfile

from . import common

BUILTINS = {'dict': dict, 'Exception': Exception, 'object': object}
PKG = 'c6pk'
MODNAMES = ['c6ma', 'c6mb', 'c6mc']
PLACEHOLDER = 'pass'
# how an attribute is assigned through the first parameter: plain, annotated, for target, with target, comprehension target
ASSIGN_FORMS = ['plain'] * 9 + ['ann', 'ann', 'for', 'with', 'comp', 'nested', 'nested', 'tuple', 'if']
ASSIGN_TEXT = {'plain': '%(p)s.%(a)s = %(v)d', 'ann': '%(p)s.%(a)s: int = %(v)d', 'for': 'for %(p)s.%(a)s in [%(v)d]: pass',
               'with': 'with open(__file__) as %(p)s.%(a)s: pass', 'comp': '[0 for %(p)s.%(a)s in [%(v)d]]',
               # the assignment is the LAST line of a form (its site): inside a function nested in the method, in a tuple target,
               # under a condition
               'nested': 'def _helper_%(a)s_%(v)d():\n    %(p)s.%(a)s = %(v)d#SITE\n_helper_%(a)s_%(v)d()',
               'tuple': '%(p)s.%(a)s, _t%(v)d = %(v)d, 0', 'if': 'if %(v)d + 1:\n    %(p)s.%(a)s = %(v)d'}
FORMS = ['class', 'inst', 'func', 'self', 'cls', 'module']


# ----------------------------------------------------------------------------- generator

def runtime_attrs(value):
    """the keys of RuntimeName._attrs (supp/name.py): vars(value), dir(value) when vars() raises TypeError"""
    try:
        return sorted(vars(value))
    except TypeError:
        return sorted(dir(value))


def builtin_lists(name):
    t = BUILTINS[name]
    try:
        inst = runtime_attrs(t())
    except TypeError:
        inst = []
    return runtime_attrs(t), inst


def gen_program(rng):
    """-> description of a project: modules, classes (bases, body items), rendered files, sites"""
    nmod = rng.choice([1, 2, 2, 3, 3])
    mods = []
    for k in range(nmod):
        pkg = PKG if rng.random() < 0.45 else None
        mods.append({'idx': k, 'name': MODNAMES[k], 'pkg': pkg,
                     'full': (pkg + '.' if pkg else '') + MODNAMES[k],
                     'rel': os.path.join(pkg, MODNAMES[k] + '.py') if pkg else MODNAMES[k] + '.py'})
    ncls = rng.randrange(3, 8)
    placement = sorted(rng.randrange(nmod) for _ in range(ncls))
    classes = []
    dyn_count = 0
    for i in range(ncls):
        # one class in five is "private" (_C3): still a base class other modules import by name
        c = {'id': i, 'name': ('_C%d' if rng.random() < 0.2 else 'C%d') % i, 'mod': placement[i], 'bases': [], 'items': []}
        anc = set()       # class ids and builtin names reachable
        depth = 1
        nb = rng.choice([0, 1, 1, 1, 2, 2, 3])
        want_object = False
        for _ in range(nb):
            r = rng.random()
            if r < 0.68:
                cands = [d for d in classes if d['depth'] < 4 and not (({d['id']} | d['anc']) & anc)
                         and not (_layout(d['anc']) and _layout(anc))]
                if cands:
                    other = [d for d in cands if d['mod'] != c['mod']]
                    d = rng.choice(other if other and rng.random() < 0.6 else cands)
                    c['bases'].append(('src', d['id']))
                    anc |= {d['id']} | d['anc']
                    depth = max(depth, d['depth'] + 1)
            elif r < 0.84:
                b = rng.choice(['dict', 'Exception', 'object', 'object'])
                if b == 'object':
                    want_object = 'object' not in anc
                elif b not in anc and not _layout(anc):
                    c['bases'].append(('builtin', b))
                    anc.add(b)
            else:
                c['bases'].append(('unknown', 'Dyn%d' % dyn_count))
                dyn_count += 1
        if want_object:
            c['bases'].append(('builtin', 'object'))   # Python only accepts it as the last base
            anc.add('object')
        c['anc'], c['depth'] = anc, depth
        classes.append(c)
    # body items
    for c in classes:
        items = []
        for _ in range(rng.randrange(1, 7)):
            r = rng.random()
            if r < 0.38:
                it = {'kind': 'def', 'name': rng.choice(['m0', 'm1', 'm2', 'm3'])}
            elif r < 0.45:
                it = {'kind': 'def', 'name': '__init__'}
            elif r < 0.63:
                it = {'kind': 'attr', 'name': rng.choice(['a0', 'a1', 'a2', 'm0'])}
            elif r < 0.74:
                it = {'kind': 'property', 'name': rng.choice(['p0', 'p1'])}
            elif r < 0.81:
                it = {'kind': 'desc', 'name': rng.choice(['d0', 'd1'])}
            elif r < 0.91:
                it = {'kind': 'classmethod', 'name': rng.choice(['k0', 'k1'])}
            elif r < 0.96:
                it = {'kind': 'staticmethod', 'name': rng.choice(['s0', 'm3'])}
            else:
                it = {'kind': 'nested', 'name': rng.choice(['N0', 'a2'])}
            if it['kind'] in ('def', 'property', 'desc'):
                it['first'] = 'this' if rng.random() < 0.12 else 'self'
                it['extra'] = rng.random() < 0.3 and it['kind'] == 'def' and it['name'] != '__init__'
                n = rng.choice([0, 0, 1, 1, 2, 3]) if it['kind'] != 'desc' else rng.choice([0, 1])
                it['assigns'] = [rng.choice(['i0', 'i1', 'i2', 'i3', 'a0', 'a1', 'm0', 'm1']) for _ in range(n)]
                it['ann'] = [rng.choice(ASSIGN_FORMS) for _ in range(n)]
            items.append(it)
        if not any(it['kind'] == 'def' for it in items):
            items.append({'kind': 'def', 'name': 'm%d' % rng.randrange(4), 'first': 'self', 'extra': False,
                          'assigns': [rng.choice(['i0', 'i1', 'a0'])], 'ann': ['plain']})
        if rng.random() < 0.5 and not any(it['kind'] == 'classmethod' for it in items):
            items.insert(rng.randrange(len(items) + 1), {'kind': 'classmethod', 'name': 'k0'})
        # a function rebound later in the same body is no method of the class: CPython can never run it, keep it silent
        for n, it in enumerate(items):
            if it.get('assigns') and any(o['name'] == it['name'] for o in items[n + 1:]):
                it['assigns'], it['ann'] = [], []
        c['items'] = items
    prog = {'mods': mods, 'classes': classes}
    render(prog, rng)
    return prog


def _layout(anc):
    return bool({'dict', 'Exception'} & set(anc))


def import_forms(importer_pkg, target_mod, cname=''):
    """the ways module `target_mod` can be reached from a file in package `importer_pkg` (None = top level); a star import does not
    bind a class whose name starts with an underscore"""
    pkg = target_mod['pkg']
    forms = ['import', 'from', 'as'] + ([] if cname.startswith('_') else ['star'])
    if pkg:
        forms.append('frompkg')
        if importer_pkg == pkg:
            forms += ['rel', 'relmod']
    return forms


def import_line(form, target_mod, cname, alias):
    """-> (import statement, expression denoting the class)"""
    full, name = target_mod['full'], target_mod['name']
    if form == 'import':
        return 'import %s' % full, '%s.%s' % (full, cname)
    if form == 'from':
        return 'from %s import %s' % (full, cname), cname
    if form == 'as':
        return 'from %s import %s as %s' % (full, cname, alias), alias
    if form == 'star':
        return 'from %s import *' % full, cname
    if form == 'frompkg':
        return 'from %s import %s' % (target_mod['pkg'], name), '%s.%s' % (name, cname)
    if form == 'rel':
        return 'from .%s import %s' % (name, cname), cname
    if form == 'relmod':
        return 'from . import %s' % name, '%s.%s' % (name, cname)
    raise ValueError(form)


def render(prog, rng):
    """fills prog['files'], per class: 'line' (class statement), body sites, self-assignment sites, query slots"""
    mods, classes = prog['mods'], prog['classes']
    files = {}
    if any(m['pkg'] for m in mods):
        files[os.path.join(PKG, '__init__.py')] = ''
    sites = []            # site id -> (relpath, line)
    prog['import_forms_used'] = {}
    for m in mods:
        lines = []
        exprs = {}        # class id -> expression naming it inside this module
        own = [c for c in classes if c['mod'] == m['idx']]
        need = []
        for c in own:
            for kind, b in c['bases']:
                if kind == 'src' and classes[b]['mod'] != m['idx'] and b not in need:
                    need.append(b)
        for b in need:
            tm = mods[classes[b]['mod']]
            form = rng.choice(import_forms(m['pkg'], tm, classes[b]['name']))
            prog['import_forms_used'][form] = prog['import_forms_used'].get(form, 0) + 1
            stmt, expr = import_line(form, tm, classes[b]['name'], 'Z%d' % b)
            exprs[b] = expr
            if stmt not in lines:
                lines.append(stmt)
        lines.append('class Desc_%s(object):' % m['name'])
        lines.append('    def __init__(self, f):')
        lines.append('        self.f = f')
        lines.append('    def __get__(self, inst, owner):')
        lines.append('        return self.f(inst)')
        for c in own:
            exprs[c['id']] = c['name']
            for kind, b in c['bases']:
                if kind == 'unknown':
                    lines.append("%s = type('%s', (), {})" % (b, b))
            bl = []
            for kind, b in c['bases']:
                bl.append(exprs[b] if kind == 'src' else b)
            lines.append('class %s%s:' % (c['name'], '(%s)' % ', '.join(bl) if bl else ''))
            c['line'] = len(lines)
            c['body'] = []        # (name, site id)
            c['selfs'] = []       # (name, site id)
            c['slots'] = []       # (kind, line of the placeholder, first parameter name)
            for it in c['items']:
                k = it['kind']
                if k == 'attr':
                    lines.append('    %s = %d' % (it['name'], rng.randrange(100)))
                    c['body'].append((it['name'], _site(sites, m['rel'], len(lines))))
                elif k == 'nested':
                    lines.append('    class %s: pass' % it['name'])
                    c['body'].append((it['name'], _site(sites, m['rel'], len(lines))))
                elif k == 'classmethod':
                    lines.append('    @classmethod')
                    lines.append('    def %s(cls):' % it['name'])
                    c['body'].append((it['name'], _site(sites, m['rel'], len(lines))))
                    lines.append('        ' + PLACEHOLDER)
                    c['slots'].append(('cls', len(lines), 'cls'))
                    lines.append('        return 0')
                elif k == 'staticmethod':
                    lines.append('    @staticmethod')
                    lines.append('    def %s(x=None):' % it['name'])
                    c['body'].append((it['name'], _site(sites, m['rel'], len(lines))))
                    lines.append('        return 0')
                else:
                    if k == 'property':
                        lines.append('    @property')
                    elif k == 'desc':
                        lines.append('    @Desc_%s' % m['name'])
                    lines.append('    def %s(%s%s):' % (it['name'], it['first'], ', x=None' if it.get('extra') else ''))
                    c['body'].append((it['name'], _site(sites, m['rel'], len(lines))))
                    lines.append('        ' + PLACEHOLDER)
                    c['slots'].append(('self', len(lines), it['first']))
                    for a, ann in zip(it['assigns'], it['ann']):
                        site_line = None
                        for part in (ASSIGN_TEXT[ann] % {'p': it['first'], 'a': a, 'v': rng.randrange(100)}).split('\n'):
                            if part.endswith('#SITE'):
                                part, site_line = part[:-5], len(lines) + 1
                            lines.append('        ' + part)
                        prog.setdefault('assign_forms', {})
                        prog['assign_forms'][ann] = prog['assign_forms'].get(ann, 0) + 1
                        c['selfs'].append((a, _site(sites, m['rel'], site_line or len(lines))))
                    if k != 'def' or it['name'] != '__init__':
                        lines.append('        return 0')
        files[m['rel']] = '\n'.join(lines) + '\n'
    prog['files'] = files
    prog['sites'] = sites


def _site(sites, rel, line):
    sites.append((rel, line))
    return len(sites) - 1


def model_hier(prog):
    h = []
    for c in prog['classes']:
        bases = []
        for kind, b in c['bases']:
            if kind == 'src':
                bases.append({'src': b})
            elif kind == 'builtin':
                a, i = builtin_lists(b)
                bases.append({'builtin': b, 'attrs': a, 'inst': i})
            else:
                bases.append({'unknown': 1})
        h.append({'id': c['id'], 'bases': bases, 'body': [[n, s] for n, s in c['body']],
                  'self': [[n, s] for n, s in c['selfs']]})
    return h


def py_domain(prog, cid):
    """the property's domain decided without the model: the depth-first linearisation has no repeated entry and
    an explicit `object` base only ends it"""
    def dfs(i):
        out = [i]
        for kind, b in prog['classes'][i]['bases']:
            if kind == 'src':
                out += dfs(b)
            elif kind == 'builtin':
                out.append(b)
        return out
    lin = dfs(cid)
    return len(set(lin)) == len(lin) and 'object' not in lin[:-1]


# ----------------------------------------------------------------------------- queries against supp

def split_cursor(text):
    pre, post = text.split('|')
    line = pre.count('\n') + 1
    col = len(pre) - pre.rfind('\n') - 1
    return pre + post, (line, col)


def query_source(prog, cid, form, imp_form, tail, stats=None):
    """-> (relative filename, source text with '|' at the cursor); tail = '.|' or '.a|ttr'"""
    c = prog['classes'][cid]
    m = prog['mods'][c['mod']]
    if form in ('self', 'cls'):
        slots = [s for s in c['slots'] if s[0] == form]
        if not slots:
            return None
        _, line, first = slots[imp_form % len(slots)]
        lines = prog['files'][m['rel']].split('\n')
        lines[line - 1] = '        ' + first + tail
        return m['rel'], '\n'.join(lines)
    in_pkg = bool(m['pkg']) and imp_form % 2 == 1
    rel = os.path.join(PKG, 'c6q.py') if in_pkg else 'c6q.py'
    forms = import_forms(PKG if in_pkg else None, m, c['name'])
    if form == 'module':
        forms = [f for f in forms if f in ('import', 'frompkg', 'relmod')]
    f = forms[(imp_form // 2) % len(forms)]
    stmt, expr = import_line(f, m, c['name'], 'E%d' % cid)
    if stats is not None:
        stats['query_import_' + f] += 1
    if form == 'module':
        return rel, '%s\n\n%s%s\n' % (stmt, expr.rsplit('.', 1)[0], tail)
    if form == 'class':
        return rel, '%s\n\n%s%s\n' % (stmt, expr, tail)
    if form == 'inst':
        return rel, '%s\n\n%s()%s\n' % (stmt, expr, tail)
    if form == 'func':
        return rel, '%s\n\ndef f():\n    return %s()\n\nf()%s\n' % (stmt, expr, tail)
    raise ValueError(form)


class Supp(object):
    def __init__(self):
        for k in [k for k in sys.modules if k == 'supp' or k.startswith('supp.')]:
            del sys.modules[k]
        if common.REPO in sys.path:
            sys.path.remove(common.REPO)
        sys.path.insert(0, common.REPO)
        import logging
        logging.disable(logging.CRITICAL)
        from supp.assistant import assist, location
        from supp.project import Project
        self.assist, self.location, self.Project = assist, location, Project

    def run(self, root, kind, rel, text):
        src, pos = split_cursor(text)
        project = self.Project([root])
        fname = os.path.join(root, rel)
        try:
            if kind == 'assist':
                _, names = self.assist(project, src, pos, fname)
                return ('ok', sorted(names))
            res = self.location(project, src, pos, fname)
            flat = []
            for r in res:
                for d in (r if isinstance(r, list) else [r]):
                    f = d['file']
                    flat.append([os.path.relpath(f, root) if f else None, d['loc'][0]])
            return ('ok', sorted(flat))
        except RecursionError:
            return ('err', 'RecursionError')
        except Exception as e:  # noqa
            return ('err', type(e).__name__)


def write_files(files):
    root = tempfile.mkdtemp(prefix='c06-')
    for rel, text in files.items():
        path = os.path.join(root, rel)
        os.makedirs(os.path.dirname(path), exist_ok=True)
        with open(path, 'w') as f:
            f.write(text)
    return root


# ----------------------------------------------------------------------------- the CPython oracle (subprocess)

ORACLE = r'''
import sys, json, ast, importlib
root = sys.argv[1]
spec = json.loads(sys.stdin.read())
sys.path.insert(0, root)
sys.dont_write_bytecode = True
rels = spec['modules']                 # module full name -> relative path
src, trees = {}, {}
for mf, rel in rels.items():
    src[mf] = open(root + '/' + rel).read().split('\n')
    trees[mf] = ast.parse('\n'.join(src[mf]))

def classdef(k):
    """the ClassDef node of a class written in one of the generated files"""
    t = trees.get(k.__module__)
    if t is None:
        return None
    body = t.body
    node = None
    for part in k.__qualname__.split('.'):
        node = next((n for n in body if isinstance(n, ast.ClassDef) and n.name == part), None)
        if node is None:
            return None
        body = node.body
    return node

def unwrap(v):
    if isinstance(v, property):
        return v.fget
    if isinstance(v, (classmethod, staticmethod)):
        return v.__func__
    if hasattr(v, '__code__'):
        return v
    f = getattr(v, 'f', None)
    return f if hasattr(f, '__code__') else None

def def_line(mf, first):
    i = first
    while not src[mf][i - 1].lstrip().startswith('def '):
        i += 1
    return i

def body_lines(node):
    out = {}
    for st in node.body:
        if isinstance(st, (ast.FunctionDef, ast.ClassDef)):
            ln = st.lineno
            out[st.name] = ln
        elif isinstance(st, ast.Assign):
            for t in st.targets:
                if isinstance(t, ast.Name):
                    out[t.id] = st.lineno
        elif isinstance(st, ast.AnnAssign) and isinstance(st.target, ast.Name) and st.value is not None:
            out[st.target.id] = st.lineno
    return out

def self_assigns(node):
    out = []
    for st in node.body:
        if isinstance(st, ast.FunctionDef):
            params = st.args.posonlyargs + st.args.args
            if not params:
                continue
            deco = [d.id for d in st.decorator_list if isinstance(d, ast.Name)]
            if 'staticmethod' in deco or 'classmethod' in deco:
                continue
            p = params[0].arg
            for n in ast.walk(st):
                tg = []
                if isinstance(n, ast.Assign):
                    tg = n.targets
                elif isinstance(n, ast.AnnAssign) and n.value is not None:
                    tg = [n.target]
                elif isinstance(n, (ast.For, ast.comprehension)):
                    tg = [n.target]
                elif isinstance(n, ast.With):
                    tg = [i.optional_vars for i in n.items if i.optional_vars is not None]
                for t in tg:
                    for e in ast.walk(t):
                        if isinstance(e, ast.Attribute) and isinstance(e.value, ast.Name) and e.value.id == p:
                            out.append([e.attr, e.lineno])
    return out

def key(k):
    return k.__module__ + '.' + k.__qualname__

res = {'classes': {}, 'modules': {}}
for mf in rels:
    mod = importlib.import_module(mf)
    res['modules'][mf] = sorted(n for n in dir(mod) if not n.startswith('__'))
for mf, cname in spec['classes']:
    C = getattr(importlib.import_module(mf), cname)
    info = {'mro': [], 'vars': {}, 'source': {}, 'selfassign': {}}
    for k in C.__mro__:
        info['mro'].append(key(k))
        node = classdef(k)
        info['vars'][key(k)] = sorted(vars(k))
        if node is None:
            continue
        bl = body_lines(node)
        d = {}
        for name, v in vars(k).items():
            if name not in bl:
                continue
            f = unwrap(v)
            d[name] = def_line(k.__module__, f.__code__.co_firstlineno) if f is not None else bl[name]
        info['source'][key(k)] = d
        info['selfassign'][key(k)] = self_assigns(node)
    try:
        o = C()
    except Exception:
        o = C.__new__(C)
    for k in C.__mro__:
        if key(k) not in info['source']:
            continue
        for name, v in list(vars(k).items()):
            f = unwrap(v)
            if f is None or isinstance(v, staticmethod):
                continue
            try:
                f(C) if isinstance(v, classmethod) else f(o)
            except Exception:
                pass
    info['inst'] = sorted(vars(o))
    res['classes'][mf + '.' + cname] = info
print(json.dumps(res))
'''


def run_oracle(root, prog_spec):
    p = subprocess.run(['/venv/bin/python', '-c', ORACLE, root], input=json.dumps(prog_spec), stdout=subprocess.PIPE,
                       stderr=subprocess.PIPE, text=True, timeout=120)
    if p.returncode != 0:
        return None, p.stderr[-600:]
    return json.loads(p.stdout), ''


def oracle_spec(prog):
    return {'modules': {m['full']: m['rel'] for m in prog['mods']},
            'classes': [[prog['mods'][c['mod']]['full'], c['name']] for c in prog['classes']]}


def python_expectation(orc, spec, ckey, instance_like):
    """what the property demands, from CPython's report only:
    -> (names that must be proposed, {name: ('exact', [[rel, line]]) | ('any', [[rel, line], ...]) | None})"""
    info = orc['classes'][ckey]
    rel_of = {}
    for mf, rel in spec['modules'].items():
        rel_of[mf] = rel
    def rel_for(k):
        mf = k
        while mf and mf not in rel_of:
            mf = mf.rpartition('.')[0]
        return rel_of.get(mf)
    names = set()
    for k in info['mro']:
        names |= set(info['source'].get(k, {}))
    inst = set(info['inst']) if instance_like else set()
    names |= inst
    want = {}
    for x in sorted(names):
        if x in inst:
            allowed = sorted([rel_for(k), ln] for k in info['mro'] for a, ln in info['selfassign'].get(k, []) if a == x)
            want[x] = ('any', allowed) if allowed else None
            continue
        sel = None
        for k in info['mro']:
            if x in info['vars'][k]:
                sel = k
                break
        if sel is not None and x in info['source'].get(sel, {}):
            want[x] = ('exact', [[rel_for(sel), info['source'][sel][x]]])
        else:
            want[x] = None       # Python selects a builtin's attribute
    return names, want


def satisfies(want, got):
    if want is None:
        return True
    mode, sites = want
    if got[0] != 'ok':
        return False
    if mode == 'exact':
        return got[1] == sites
    return bool(got[1]) and all(s in sites for s in got[1])


# ----------------------------------------------------------------------------- one program

def val_sites(prog, v):
    if 'site' in v:
        return sorted([list(prog['sites'][v['site']])])
    if 'multi' in v:
        return sorted(list(prog['sites'][s]) for s in v['multi'])
    return None


def check_program(check, supp, prog, stats, rng, max_loc):
    root = write_files(prog['files'])
    try:
        return _check_program(check, supp, prog, stats, rng, max_loc, root)
    finally:
        shutil.rmtree(root, ignore_errors=True)


def _check_program(check, supp, prog, stats, rng, max_loc, root):
    spec = oracle_spec(prog)
    orc, err = run_oracle(root, spec)
    if orc is None:
        stats['oracle_import_failed'] += 1
        check.extra.setdefault('oracle_errors', []).append(err[-300:])
        return
    hier = model_hier(prog)
    replies = common.ask_driver([{'h': hier, 'c': c['id']} for c in prog['classes']], exe='drv_attrs')
    for c, rep in zip(prog['classes'], replies):
        if 'driver_error' in rep:
            raise common.Infra('driver: %r' % rep)
        cid = c['id']
        m = prog['mods'][c['mod']]
        ckey = m['full'] + '.' + c['name']
        info = orc['classes'][ckey]
        stats['classes'] += 1
        if not rep['acyclic']:
            stats['cyclic'] += 1
            continue
        dom = py_domain(prog, cid)
        if dom != rep['norepeat']:
            check.oblige('domain predicate NoRepeatedAncestors (driver) = harness classification', False,
                         json.dumps({'files': prog['files'], 'class': ckey}))
        stats['in_domain' if dom else 'out_of_domain'] += 1
        # spec mro vs CPython's __mro__ (source classes and named builtins; CPython adds the implicit object)
        model_mro = []
        for e in rep['mro']:
            if 'cls' in e:
                d = prog['classes'][e['cls']]
                model_mro.append(prog['mods'][d['mod']]['full'] + '.' + d['name'])
            else:
                model_mro.append('builtins.' + e['builtin'])
        py_mro = [k for k in info['mro'] if k in model_mro]
        if dom:
            stats['mro_compared'] += 1
            if py_mro != model_mro:
                stats['mro_diff'] += 1
                if stats['mro_diff'] <= 3:
                    check.oblige('spec mro = CPython __mro__', False, 'class %s: spec %r, CPython %r; files %s'
                                 % (ckey, model_mro, info['mro'], json.dumps(prog['files'])))
        tables = {'cls': dict((k, v) for k, v in rep['cls']), 'inst': dict((k, v) for k, v in rep['inst'])}
        stats['hist_mro_len_%d' % len(rep['mro'])] += 1
        stats['hist_bases_%d' % len(c['bases'])] += 1
        stats['hist_depth_%d' % c.get('depth', 0)] += 1
        stats['distinct'].add((json.dumps(hier[cid], sort_keys=True), tuple(model_mro)))
        if len(rep['mro']) >= 2 and (c['selfs'] or any(prog['classes'][e['cls']]['selfs'] for e in rep['mro'] if 'cls' in e)):
            stats['nontrivial'].add((json.dumps(hier[cid], sort_keys=True), tuple(model_mro)))
        for fi, form in enumerate(FORMS):
            imp_form = rng.randrange(12)
            q = query_source(prog, cid, form, imp_form, '.|', stats)
            if q is None:
                continue
            rel, text = q
            stats['form_' + form] += 1
            got = supp.run(root, 'assist', rel, text)
            stats['evaluations'] += 1
            if form == 'module':
                # model: the module's table is the dict of its top-level bindings; here only the oracle applies
                want = set(orc['modules'][m['full']])
                if got[0] != 'ok' or not want <= set(got[1]):
                    check.fail('oracle module: proposals miss top-level names CPython has',
                               replay_dict(prog, spec, ckey, form, rel, text, 'assist', None, got,
                                           sorted(want - set(got[1] if got[0] == 'ok' else []))))
                # go-to-definition on module.Class ends at the class statement
                q2 = query_source(prog, cid, form, imp_form, '.%s|%s' % (c['name'][:1], c['name'][1:]))
                got2 = supp.run(root, 'location', q2[0], q2[1])
                stats['evaluations'] += 1
                site = [m['rel'], c['line']]
                if got2[0] != 'ok' or not got2[1] or site not in got2[1]:
                    check.fail('oracle module: go-to-definition on module.Class misses the class statement',
                               replay_dict(prog, spec, ckey, form, q2[0], q2[1], 'location', c['name'], got2, [site]))
                continue
            table = tables['cls'] if form in ('class', 'cls') else tables['inst']
            instance_like = form in ('inst', 'func', 'self')
            # ---- correspondence: proposals
            mkeys = sorted(table)
            if got != ('ok', mkeys):
                stats['corr_assist_diff'] += 1
                if stats['corr_assist_diff'] <= 3:
                    check.oblige('correspondence assist', False, 'class %s form %s file %s: impl %r, model %r\nquery:\n%s\nfiles: %s'
                                 % (ckey, form, rel, _short(got), _short(mkeys), text, json.dumps(prog['files'])))
            # ---- oracle: proposals
            names, want = python_expectation(orc, spec, ckey, instance_like)
            if dom:
                missing = sorted(names - set(got[1])) if got[0] == 'ok' else sorted(names)
                if missing:
                    check.fail('oracle %s: proposals miss source-defined attributes Python finds' % form,
                               replay_dict(prog, spec, ckey, form, rel, text, 'assist', None, got, missing))
            # ---- locations
            attrs = [x for x in mkeys if 'builtin' not in table[x]]
            stats['builtin_valued_skipped'] += len(mkeys) - len(attrs)
            extra = [x for x in sorted(names) if x not in attrs and want.get(x) is not None] if dom else []
            todo = attrs + extra
            if len(todo) > max_loc:
                todo = rng.sample(todo, max_loc)
            for x in sorted(todo):
                cut = 1 if len(x) > 1 else len(x)
                q3 = query_source(prog, cid, form, imp_form, '.%s|%s' % (x[:cut], x[cut:]))
                got3 = supp.run(root, 'location', q3[0], q3[1])
                stats['evaluations'] += 1
                if x in table and 'builtin' not in table[x]:
                    msites = val_sites(prog, table[x])
                    if got3 != ('ok', msites):
                        stats['corr_loc_diff'] += 1
                        if stats['corr_loc_diff'] <= 3:
                            check.oblige('correspondence location', False,
                                         'class %s form %s attr %s: impl %r, model %r\nquery:\n%s\nfiles: %s'
                                         % (ckey, form, x, got3, msites, q3[1], json.dumps(prog['files'])))
                if dom and x in want and not satisfies(want[x], got3):
                    check.fail('oracle %s: go-to-definition on .%s is not the definition Python selects' % (form, x),
                               replay_dict(prog, spec, ckey, form, q3[0], q3[1], 'location', x, got3, want[x]))
                    stats['oracle_loc_fail'] += 1
                elif dom and x in want and want[x] is not None:
                    stats['oracle_loc_ok'] += 1


def replay_dict(prog, spec, ckey, form, rel, text, kind, attr, got, expected):
    src, pos = split_cursor(text)
    return {'files': prog['files'], 'oracle_spec': spec, 'class': ckey, 'form': form, 'query_file': rel,
            'expression': text, 'cursor': list(pos), 'kind': kind, 'attr': attr, 'got': got, 'expected': expected}


def _short(x, n=400):
    s = repr(x)
    return s if len(s) <= n else s[:n] + '...'


# ----------------------------------------------------------------------------- fixed probes

def literal_probe(check, supp, stats):
    """`a literal`: proposals of a str / bytes literal contain dir() of the value"""
    root = tempfile.mkdtemp(prefix='c06-')
    try:
        for lit, val in (('"abc"', 'abc'), ("b'x'", b'x')):
            text = 'x = 1\n%s.|\n' % lit
            got = supp.run(root, 'assist', 'c6q.py', text)
            stats['evaluations'] += 1
            want = set(dir(val))
            if got[0] != 'ok' or not want <= set(got[1]):
                check.fail('oracle literal: proposals miss attributes of the literal',
                           {'files': {}, 'expression': text, 'cursor': list(split_cursor(text)[1]), 'kind': 'assist',
                            'form': 'literal', 'got': _short(got)})
    finally:
        shutil.rmtree(root, ignore_errors=True)



# ----------------------------------------------------------------------------- cyclic hierarchies (guard)

CYCLIC_FILES = {
    'c6ma.py': 'from c6mb import B\nclass A(B):\n    a = 1\n    def m(self):\n        self.ai = 1\n',
    'c6mb.py': 'from c6ma import A\nclass B(A):\n    b = 1\n    def m(self):\n        self.bi = 1\n',
    'c6mc.py': 'def f():\n    return S\nclass S(f()):\n    s = 1\n    def m(self):\n        self.si = 1\n',
}
CYCLIC_SITES = [('c6ma.py', 3), ('c6ma.py', 4), ('c6ma.py', 5), ('c6mb.py', 3), ('c6mb.py', 4), ('c6mb.py', 5),
                ('c6mc.py', 4), ('c6mc.py', 5), ('c6mc.py', 6)]
CYCLIC_HIER = [
    {'id': 0, 'bases': [{'src': 1}], 'body': [['a', 0], ['m', 1]], 'self': [['ai', 2]]},
    {'id': 1, 'bases': [{'src': 0}], 'body': [['b', 3], ['m', 4]], 'self': [['bi', 5]]},
    {'id': 2, 'bases': [{'src': 2}], 'body': [['s', 6], ['m', 7]], 'self': [['si', 8]]},
]
CYCLIC_CLASSES = [('c6ma', 'A'), ('c6mb', 'B'), ('c6mc', 'S')]


def cyclic_stream(check, supp, stats):
    """inheritance cycles (a circular import, a base computed by a call): the guarded tables of the model against
    the real code, a fresh project per query; CPython cannot import these files, so no oracle"""
    root = write_files(CYCLIC_FILES)
    diffs = []
    try:
        replies = common.ask_driver([{'h': CYCLIC_HIER, 'c': i} for i in range(3)], exe='drv_attrs')
        prog = {'sites': CYCLIC_SITES}
        for (mod, name), rep in zip(CYCLIC_CLASSES, replies):
            if rep['acyclic']:
                diffs.append('%s: the model calls the hierarchy acyclic' % name)
            for key, expr in (('cls', name), ('inst', name + '()')):
                table = dict(rep[key])
                text = 'from %s import %s\n\n%s.|\n' % (mod, name, expr)
                got = supp.run(root, 'assist', 'c6q.py', text)
                stats['evaluations'] += 1
                stats['cyclic_queries'] += 1
                if got != ('ok', sorted(table)):
                    diffs.append('%s.| impl %r model %r' % (expr, got, sorted(table)))
                for x in sorted(table):
                    text = 'from %s import %s\n\n%s.%s|%s\n' % (mod, name, expr, x[:1], x[1:])
                    got = supp.run(root, 'location', 'c6q.py', text)
                    stats['evaluations'] += 1
                    stats['cyclic_queries'] += 1
                    if got != ('ok', val_sites(prog, table[x])):
                        diffs.append('%s.%s impl %r model %r' % (expr, x, got, val_sites(prog, table[x])))
    finally:
        shutil.rmtree(root, ignore_errors=True)
    check.oblige('correspondence cyclic hierarchies (guarded tables = supp, circular import and call-computed base)',
                 not diffs, '; '.join(diffs[:4]) + (' files: ' + json.dumps(CYCLIC_FILES) if diffs else ''))


# ----------------------------------------------------------------------------- the check

def new_stats():
    from collections import defaultdict
    st = defaultdict(int)
    st['distinct'] = set()
    st['nontrivial'] = set()
    return st


def fixed_override_prog():
    """D(B) overriding m (the hierarchy of Witness/C06.lean) + a diamond-free multiple inheritance, as a generated-style program"""
    mods = [{'idx': 0, 'name': MODNAMES[0], 'pkg': None, 'full': MODNAMES[0], 'rel': MODNAMES[0] + '.py'},
            {'idx': 1, 'name': MODNAMES[1], 'pkg': PKG, 'full': PKG + '.' + MODNAMES[1],
             'rel': os.path.join(PKG, MODNAMES[1] + '.py')}]

    def d(name, assigns=(), first='self'):
        return {'kind': 'def', 'name': name, 'first': first, 'extra': False, 'assigns': list(assigns),
                'ann': ['plain'] * len(assigns)}
    classes = [
        {'id': 0, 'name': 'C0', 'mod': 0, 'bases': [], 'items': [d('m0', ['i0']), {'kind': 'attr', 'name': 'a0'}, d('m1')]},
        {'id': 1, 'name': 'C1', 'mod': 0, 'bases': [('src', 0)], 'items': [d('m0'), {'kind': 'classmethod', 'name': 'k0'}]},
        {'id': 2, 'name': 'C2', 'mod': 0, 'bases': [], 'items': [d('m0'), d('m1', ['i1', 'a0']), d('m2')]},
        {'id': 3, 'name': 'C3', 'mod': 1, 'bases': [('src', 1), ('src', 2)], 'items': [d('m2', ['i2'], 'this')]},
        {'id': 4, 'name': 'C4', 'mod': 1, 'bases': [('src', 3), ('builtin', 'object')],
         'items': [d('__init__', ['i0']), {'kind': 'property', 'name': 'p0', 'first': 'self', 'extra': False,
                                          'assigns': ['i3'], 'ann': ['ann']}]},
    ]
    for c in classes:
        c['anc'], c['depth'] = set(), 1
    prog = {'mods': mods, 'classes': classes}
    import random
    render(prog, random.Random(0))
    return prog


def run(check):
    quick = check.tier == 'quick'
    rng = check.rng
    check.prove(extra_targets=('drv_attrs',))

    supp = Supp()
    stats = new_stats()
    literal_probe(check, supp, stats)
    cyclic_stream(check, supp, stats)
    progs = [fixed_override_prog()]
    n_prog = 36 if quick else 200
    for _ in range(n_prog):
        progs.append(gen_program(rng))
    max_loc = 6 if quick else 30
    forms_used = {}
    assign_forms = {}
    for prog in progs:
        check_program(check, supp, prog, stats, rng, max_loc)
        for k, v in prog.get('import_forms_used', {}).items():
            forms_used[k] = forms_used.get(k, 0) + v
        for k, v in prog.get('assign_forms', {}).items():
            assign_forms[k] = assign_forms.get(k, 0) + v
    for name, cnt in (('correspondence assist', 'corr_assist_diff'), ('correspondence location', 'corr_loc_diff'),
                      ('spec mro = CPython __mro__', 'mro_diff')):
        if stats[cnt] == 0:
            check.oblige(name + {'correspondence assist': ' (model key set = supp proposals, every form)',
                                 'correspondence location': ' (model lookup site(s) = supp location, every source-valued attribute)',
                                 'spec mro = CPython __mro__': ' (in-domain classes)'}[name], True)
    if stats['oracle_import_failed']:
        check.oblige('generated programs import under CPython', False, '%d programs failed to import: %s'
                     % (stats['oracle_import_failed'], check.extra.get('oracle_errors', [])[:2]))
    check.cov['evaluations'] = stats['evaluations']
    check.cov['distinct_nontrivial'] = len(stats['nontrivial'])
    check.cov['rule'] = ('one evaluation = one assist or location call of the real code, each compared with the model and with '
                         'CPython; distinct_nontrivial = distinct (class definition, linearisation) pairs whose linearisation '
                         'has >= 2 entries and in which some class of the linearisation assigns through self')
    check.extra.update({
        'programs': len(progs), 'classes': stats['classes'], 'classes_in_domain(NoRepeatedAncestors)': stats['in_domain'],
        'classes_out_of_domain': stats['out_of_domain'], 'classes_cyclic': stats['cyclic'],
        'cyclic_stream_queries': stats['cyclic_queries'],
        'distinct_classes': len(stats['distinct']),
        'queries_by_form': {f: stats['form_' + f] for f in FORMS},
        'import_forms_between_modules': forms_used,
        'self_assignment_forms': assign_forms,
        'histograms(mro length, bases per class, depth)': {k[5:]: v for k, v in sorted(stats.items()) if k.startswith('hist_')},
        'import_forms_in_queries': {k[13:]: v for k, v in stats.items() if k.startswith('query_import_')},
        'mro_compared_with_cpython': stats['mro_compared'],
        'oracle_location_checks_passed': stats['oracle_loc_ok'], 'oracle_location_checks_failed_or_known': stats['oracle_loc_fail'],
        'builtin_valued_attributes_not_located': stats['builtin_valued_skipped'],
        'disagreements_assist': stats['corr_assist_diff'], 'disagreements_location': stats['corr_loc_diff'],
    })
    for prog in progs[1:3]:
        check.sample({'files': prog['files']})
    check.assumptions += [
        'how an expression evaluates to a class / instance / module (EvalCtx.evaluate, imports, FuncScope.get_argument) is not '
        'modelled: every form is mapped to the class table or the instance table and validated by correspondence only',
        'the first parameter of a function in a class body is an instance, the class itself under @classmethod (compared with the '
        'class table), nothing under @staticmethod (FuncScope.get_argument after 51a17f1)',
        'vars()/dir() of builtin bases are parameters of the model (computed in the harness process)',
        'Acyclic: inheritance cycles (only constructible through circular imports or a call in the base list) are cut by the '
        'in-progress guard (modelled, C06_total); the cached partial tables of classes inside a cycle are not modelled, the cyclic '
        'stream only has cycles in which no class is reached along two paths',
        'positions are compared as (file, line); columns belong to C11',
    ]
    check.trusted += ['the CPython oracle script in harness/c06.py (ast + vars + __mro__ + instance __dict__)',
                      'the generator/renderer of harness/c06.py (site numbering of the model input)']


# ----------------------------------------------------------------------------- replay

def replay(path):
    data = json.load(open(path))
    supp = Supp()
    bad = 0
    for item in data.get('failing_inputs', []):
        r = item['replay']
        root = write_files(r.get('files', {}))
        try:
            text = r['expression']
            rel = r.get('query_file', 'c6q.py')
            got = supp.run(root, r['kind'], rel, text)
            ok = True
            detail = ''
            if r.get('form') == 'literal':
                ok = got[0] == 'ok' and set(dir('abc' if '"abc"' in text else b'x')) <= set(got[1])
            elif r.get('oracle_spec'):
                orc, err = run_oracle(root, r['oracle_spec'])
                if orc is None:
                    print('replay: CPython cannot import the files: %s' % err[-200:])
                    bad += 1
                    continue
                form = r['form']
                if form == 'module':
                    if r['kind'] == 'assist':
                        mf = [m for m in r['oracle_spec']['modules'] if r['class'].startswith(m + '.')][0]
                        ok = got[0] == 'ok' and set(orc['modules'][mf]) <= set(got[1])
                    else:
                        ok = got[0] == 'ok' and all(s in got[1] for s in r['expected'])
                else:
                    names, want = python_expectation(orc, r['oracle_spec'], r['class'], form in ('inst', 'func', 'self'))
                    if r['kind'] == 'assist':
                        ok = got[0] == 'ok' and names <= set(got[1])
                        detail = 'missing %r' % sorted(names - set(got[1] if got[0] == 'ok' else []))
                    else:
                        ok = satisfies(want.get(r['attr']), got)
                        detail = 'python selects %r' % (want.get(r['attr']),)
            print('replay: %s %s at %s in %s -> %s  [%s] %s' % (r['kind'], r.get('form'), r.get('cursor'), rel, _short(got, 200),
                                                                'holds' if ok else 'STILL FAILS', detail))
            bad += 0 if ok else 1
        finally:
            shutil.rmtree(root, ignore_errors=True)
    if data.get('no_longer_checks'):
        print('replay: obligations that no longer check: %s' % _short(data['no_longer_checks'], 1500))
    return 1 if bad else 0
