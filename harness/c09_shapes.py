"""C09, model-free: concrete edit histories that change the SHAPE of what a name resolves to (a module inside a directory
without __init__.py appearing after it was asked for, an __init__.py created later, a sub-module appearing under an existing
package or namespace-style directory; creations and rewrites only), each step answered by ONE long-lived
Project inside check_changes() and by a fresh Project; every mtime differs from all earlier mtimes of that file."""
import itertools
import os
import shutil
import tempfile

MID = 'from zq_pk import zq_sub\nfrom zq_pk.zq_sub import VALUE as V2\nimport zq_pk.zq_sub\nimport zq_thing\n'
SUB1 = 'VALUE = 1\ndef func():\n    return VALUE\n'
SUB2 = 'VALUE = 2\nOTHER = 3\n'
THING_MOD = 'class Thing:\n    as_module = 1\n'
THING_PKG = 'class Thing:\n    as_package = 1\nfrom . import zq_inner\n'

REQUESTS = [
    ('assist', 'import zq_mid\nzq_mid.', (2, 7)),
    ('assist', 'import zq_mid\nzq_mid.zq_sub.', (2, 14)),
    ('assist', 'import zq_mid\nzq_mid.zq_pk.zq_sub.', (2, 20)),
    ('location', 'import zq_mid\nzq_mid.V2', (2, 9)),
    ('assist', 'import zq_mid\nzq_mid.zq_thing.Thing.', (2, 22)),
    ('assist', 'import zq_thing\nzq_thing.', (2, 9)),
    ('lint', 'from zq_mid import *\nprint(zq_sub, V2, zq_thing, nothing)\n', None),
    ('assist', 'from zq_pk import \n', (1, 18)),
]

# (op, relative path, text)   text None = delete
# creations and rewrites only: deleting files and removing __init__.py are outside C09's domain
EDITS = [
    ('write', 'zq_pk/zq_sub.py', SUB1), ('write', 'zq_pk/zq_sub.py', SUB2),
    ('write', 'zq_pk/__init__.py', ''), ('write', 'zq_pk/__init__.py', 'from .zq_sub import *\n'),
    ('write', 'zq_thing.py', THING_MOD), ('write', 'zq_thing.py', THING_MOD + 'LATER = 2\n'),
    ('write', 'zq_thing/zq_inner.py', 'INNER = 1\n'),
    ('write', 'zq_pk/zq_other.py', 'from . import zq_sub\nfrom .zq_sub import *\n'),
    ('write', 'zq_mid.py', MID), ('write', 'zq_mid.py', MID + 'EXTRA = 1\n'),
]


LAST_ROOT = [None]
ROOT_NAMES = [0, ['proj', 'site-packages', os.path.join('.venv', 'lib', 'python3.12', 'site-packages'), 'node_modules', 'tests']]


def answer(S, project, root, req, long_lived):
    kind, src, pos = req
    fn = os.path.join(root, 'zq_buffer.py')

    def go():
        if kind == 'assist':
            p, props = S['assistant'].assist(project, src, pos, fn)
            return [p, sorted(x for x in props if not x.startswith('__'))]
        if kind == 'location':
            import json
            return json.loads(json.dumps(S['assistant'].location(project, src, pos, fn)).replace(root, 'ROOT'))
        return [list(d[:4]) for d in S['linter'].lint(project, src, fn)]
    try:
        if long_lived:
            with project.check_changes():
                return go()
        return go()
    except RecursionError:
        return 'RecursionError'
    except Exception as e:  # noqa
        return 'raised ' + type(e).__name__


def apply_edit(root, edit, clock):
    op, rel, text = edit
    p = os.path.join(root, rel)
    if op == 'delete':
        if os.path.exists(p):
            os.unlink(p)
            d = os.path.dirname(p)
            if d != root and not os.listdir(d):
                os.rmdir(d)
        return
    os.makedirs(os.path.dirname(p), exist_ok=True)
    with open(p, 'w') as f:
        f.write(text)
    os.utime(p, (clock, clock))


def run_history(S, edits_and_requests, check=None, stats=None, root_name=None):
    """-> first differing step (index, request, long-lived answer, fresh answer) or None"""
    base = os.path.realpath(tempfile.mkdtemp(prefix='zq_c09s_'))
    # every other history lives in a directory called like an installation directory (nothing may depend on what a root is called)
    ROOT_NAMES[0] = (ROOT_NAMES[0] + 1) % len(ROOT_NAMES[1])
    root = os.path.join(base, root_name or ROOT_NAMES[1][ROOT_NAMES[0]])
    LAST_ROOT[0] = os.path.relpath(root, base)
    os.makedirs(root)
    try:
        apply_edit(root, ('write', 'zq_mid.py', MID), 1000)
        project = S['project'].Project([root])
        clock = 1000
        for i, step in enumerate(edits_and_requests):
            if step[0] in ('write', 'delete'):
                clock += 7
                apply_edit(root, step, clock)
            else:
                a = answer(S, project, root, step, True)
                b = answer(S, S['project'].Project([root]), root, step, False)
                if stats is not None:
                    stats['requests'] += 1
                    stats['nonempty'] += 1 if b not in ([], ['', []], None) else 0
                if a != b:
                    return i, step, a, b
        return None
    finally:
        shutil.rmtree(base, ignore_errors=True)


def histories(rng, quick):
    out = []
    # every request after every single edit, after every ordered pair of edits with requests in between
    for e in EDITS:
        out.append(list(REQUESTS) + [e] + list(REQUESTS))
    pairs = list(itertools.permutations(range(len(EDITS)), 2))
    rng.shuffle(pairs)
    for i, j in pairs[:(40 if quick else len(pairs))]:
        r1 = rng.sample(REQUESTS, 3)
        out.append(r1 + [EDITS[i]] + rng.sample(REQUESTS, 3) + [EDITS[j]] + list(REQUESTS))
    for _ in range(30 if quick else 600):
        h = []
        for _ in range(rng.randint(3, 10)):
            h.append(rng.choice(EDITS) if rng.random() < 0.45 else rng.choice(REQUESTS))
        out.append(h + list(REQUESTS))
    return out


def run(check, S):
    import logging
    logging.disable(logging.CRITICAL)
    stats = {'histories': 0, 'requests': 0, 'nonempty': 0, 'failing': 0}
    for h in histories(check.rng, check.tier == 'quick'):
        stats['histories'] += 1
        r = run_history(S, h, check, stats)
        if r is not None:
            stats['failing'] += 1
            if stats['failing'] <= 8:
                i, step, a, b = r
                check.fail('long-lived project answers differently from a fresh one after the shape of a package changed',
                           {'kind': 'shapes', 'root_name': LAST_ROOT[0], 'history': [list(x) for x in h[:i + 1]], 'long_lived': a, 'fresh': b})
    check.extra['package_shape_histories'] = stats
    return stats['requests']


def replay_item(S, r):
    h = [tuple(x[:2]) + (tuple(x[2]) if isinstance(x[2], list) else x[2],) for x in r['history']]
    res = run_history(S, h, root_name=r.get('root_name'))
    print('package-shape history: %s' % ('still differs: %r' % (res[2:],) if res else 'agrees now'))
    return res is not None
