"""Layout-only re-rendering of Python programs.

`normal_form(src)` is `ast.unparse`; `relayout(src, rng)` starts from it and randomly applies
layout-only transformations: indentation width, blank lines and comments, line breaks after
commas inside brackets, `a; b` joining of simple statements, one-line compound statements.
Every result is checked to parse to an identical AST (`same_ast`); on any doubt the
transformation is dropped, so a returned text is always a genuine re-layout."""
import ast
import io
import tokenize

COMPOUND = ('if ', 'elif ', 'else:', 'for ', 'while ', 'try:', 'except', 'finally:', 'with ', 'def ', 'class ',
            'async ', 'match ', 'case ')


def dump(src):
    return ast.dump(ast.parse(src), include_attributes=False)


def same_ast(a, b):
    try:
        return dump(a) == dump(b)
    except (SyntaxError, ValueError, RecursionError):
        return False


def normal_form(src):
    return ast.unparse(ast.parse(src)) + '\n'


def has_multiline_token(src):
    try:
        for tok in tokenize.generate_tokens(io.StringIO(src).readline):
            if tok.type in (tokenize.STRING, getattr(tokenize, 'FSTRING_MIDDLE', -1)) and tok.start[0] != tok.end[0]:
                return True
            if tok.type == getattr(tokenize, 'FSTRING_START', -1) and len(tok.string) > 2 + (tok.string[0] in 'fFrRbB'):
                return True
    except (tokenize.TokenError, IndentationError, SyntaxError):
        return True
    return False


class Line(object):
    def __init__(self, level, text):
        self.level = level
        self.text = text
        self.simple = not (text.startswith(COMPOUND) or text.startswith('@'))
        self.header = text.startswith(COMPOUND) and text.endswith(':')


def break_in_brackets(text, rng, pad):
    """insert line breaks after commas that are inside brackets (never inside strings)"""
    try:
        toks = list(tokenize.generate_tokens(io.StringIO(text + '\n').readline))
    except (tokenize.TokenError, IndentationError, SyntaxError):
        return text
    depth = 0
    cuts = []
    for tok in toks:
        if tok.type == tokenize.OP:
            if tok.string in '([{':
                depth += 1
            elif tok.string in ')]}':
                depth -= 1
            elif tok.string == ',' and depth > 0 and tok.start[0] == 1 and rng.random() < 0.4:
                cuts.append(tok.end[1])
        if getattr(tokenize, 'FSTRING_START', None) is not None and tok.type == tokenize.FSTRING_START:
            return text   # keep f-strings untouched
    out = text
    for c in reversed(cuts):
        out = out[:c] + '\n' + pad + ' ' * rng.randrange(1, 7) + out[c:].lstrip(' ')
    return out


def multiline_strings(text, rng):
    """rewrite 'a\\nb' string tokens as triple-quoted literals containing a real newline (same constant)"""
    try:
        toks = list(tokenize.generate_tokens(io.StringIO(text + '\n').readline))
    except (tokenize.TokenError, IndentationError, SyntaxError):
        return text
    edits = []
    for tok in toks:
        if tok.type == tokenize.STRING and tok.start[0] == tok.end[0] == 1 and tok.string[0] in '\'"' and '\\n' in tok.string:
            try:
                val = ast.literal_eval(tok.string)
            except Exception:
                continue
            if isinstance(val, str) and "'''" not in val and '\\' not in val and not val.endswith("'") and rng.random() < 0.7:
                edits.append((tok.start[1], tok.end[1], "'''" + val + "'''"))
    for a, b, new in reversed(edits):
        text = text[:a] + new + text[b:]
    return text


def relayout(src, rng):
    """-> a random re-layout of src with an identical AST, or None"""
    try:
        base = normal_form(src)
    except (SyntaxError, ValueError, RecursionError):
        return None
    if has_multiline_token(base):
        return None
    lines = []
    for raw in base.splitlines():
        if not raw.strip():
            continue
        ind = len(raw) - len(raw.lstrip(' '))
        if ind % 4:
            return None
        lines.append(Line(ind // 4, raw.strip()))
    # one-line compound statements, innermost first (a one-lined compound is not "simple" any more)
    if rng.random() < 0.7:
        i = len(lines) - 2
        while i >= 0:
            h = lines[i]
            if h.header and i + 1 < len(lines) and lines[i + 1].level == h.level + 1 and lines[i + 1].simple and \
                    (i + 2 >= len(lines) or lines[i + 2].level <= h.level) and rng.random() < 0.5:
                h.text = h.text + ' ' + lines[i + 1].text
                h.header = False
                h.simple = False
                del lines[i + 1]
            i -= 1
    # join simple statements with ';'
    if rng.random() < 0.7:
        i = 0
        while i + 1 < len(lines):
            a, b = lines[i], lines[i + 1]
            if a.simple and b.simple and a.level == b.level and rng.random() < 0.3:
                a.text = a.text + '; ' + b.text
                del lines[i + 1]
            else:
                i += 1
    unit = rng.choice([1, 2, 3, 4, 8]) if rng.random() < 0.7 else 4
    out = []
    for ln in lines:
        pad = ' ' * (unit * ln.level)
        r = rng.random()
        if r < 0.12:
            out.append('')
        elif r < 0.22:
            out.append(pad + '# ' + rng.choice(['note', 'x = 1', 'def f():', 'import os']))
        text = ln.text
        if rng.random() < 0.5 and not text.startswith('@'):
            text = break_in_brackets(text, rng, pad)
        if rng.random() < 0.8:
            text = multiline_strings(text, rng)
        if rng.random() < 0.12 and not text.rstrip().endswith('\\'):
            # a trailing comment, also of the kinds tools give a meaning to (the analysis must not)
            text = text + '  ' + rng.choice(['# noqa', '# type: ignore', '# pragma: no cover', '# pylint: disable=all', '# TODO', '#'])
        out.append(pad + text)
    new = '\n'.join(out) + '\n'
    if same_ast(base, new) and new != base:
        return new
    return None


def wide(src, rng, pad=65600):
    """-> a re-layout with an identical AST in which statements joined by `;` sit at columns beyond 2**16 (free whitespace before
    the `;`): position arithmetic that packs (line, column) into one number, or narrows the column, shows only there"""
    try:
        base = normal_form(src)
    except (SyntaxError, ValueError, RecursionError):
        return None
    if has_multiline_token(base) or base.count('\n') > 80:
        return None
    lines = []
    for raw in base.splitlines():
        if not raw.strip():
            continue
        ind = len(raw) - len(raw.lstrip(' '))
        if ind % 4:
            return None
        lines.append(Line(ind // 4, raw.strip()))
    i = joined = 0
    while i + 1 < len(lines) and joined < 12:
        a, b = lines[i], lines[i + 1]
        if a.simple and b.simple and a.level == b.level and rng.random() < 0.6:
            a.text = a.text + (' ' * pad if len(a.text) < pad else ' ') + '; ' + b.text
            del lines[i + 1]
            joined += 1
        else:
            i += 1
    if not joined:
        return None
    new = '\n'.join(' ' * (4 * ln.level) + ln.text for ln in lines) + '\n'
    if same_ast(base, new):
        return new
    return None
