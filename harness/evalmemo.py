"""C04, attribute evaluator: correspondence of the REAL cache discipline (supp.util.cycle_guard,
cached_property, context_property, supp.evaluator.EvalCtx) with the model lean/SuppModel/EvalMemo/Basic.lean
(driver drv_evalmemo), on random dependency graphs and random request histories, plus the direct oracle
(answer after a history == answer of a fresh object graph).

Synthetic nodes: `supp.name.Resolvable` subclasses, so `EvalCtx._evaluate` dispatches to `node.resolve(ctx)`;
the value of node n is  [n] + concat(ctx.evaluate(d) or [] for d in deps)  and goes through one real cache slot:
  kind 'ctx'  : `resolve` is a real `context_property`           (slot node._ctx_values['resolve'])
  kind 'prop' : `resolve` reads a real `cached_property` `value` (slot node.__dict__['value'])
One request = one fresh `EvalCtx` (real epoch bump) + the real `EvalCtx.evaluate` (real cut guard).

Standalone: python -m harness.evalmemo [seed]"""
import json
import os
import sys

from . import common, flowgraph

TRANSLATORS = os.path.join(common.VERIF, 'translators')
MAX_VAL = 400


# ------------------------------------------------------------------------------------------------ real side

def make_classes(S):
    util, name = S['util'], S['name']

    class CtxNode(name.Resolvable):
        kind = 'ctx'
        slot = 'resolve'

        def __init__(self, n):
            self.n, self.deps = n, []

        def store(self):
            return getattr(self, '_ctx_values', {})

        @util.context_property
        def resolve(self, ctx):
            out = [self.n]
            for d in self.deps:
                out += ctx.evaluate(d) or []
            return out

    class PropNode(name.Resolvable):
        kind = 'prop'
        slot = 'value'

        def __init__(self, n):
            self.n, self.deps = n, []

        def store(self):
            return self.__dict__

        def resolve(self, ctx):
            self._ctx = ctx
            return self.value

        @util.cached_property
        def value(self):
            out = [self.n]
            for d in self.deps:
                out += self._ctx.evaluate(d) or []
            return out

    class CountingCtx(S['evaluator'].EvalCtx):
        # the real __init__ and the real evaluate run; this only counts the cuts for the statistics
        cuts = 0

        def evaluate(self, node):
            if node is not None and node in self.nodes:
                self.cuts += 1
            return S['evaluator'].EvalCtx.evaluate(self, node)

    return {'ctx': CtxNode, 'prop': PropNode, 'EvalCtx': CountingCtx}


def n_ids(graph, history=()):
    return max([len(graph)] + [d + 1 for row in graph for d in row] + [n + 1 for n in history])


def build(S, classes, graph, kinds, history=()):
    N = n_ids(graph, history)
    nodes = [classes[kinds[i % len(kinds)]](i) for i in range(N)]
    for i, row in enumerate(graph):
        nodes[i].deps = [nodes[d] for d in row]
    return nodes


def slots(S, nodes):
    """-> (fin [[n, v]], prov [[n, age, v]]) as the driver reports them"""
    cg = S['util'].cycle_guard
    fin, prov = [], []
    for nd in nodes:
        st = nd.store()
        if nd.slot in st:
            fin.append([nd.n, list(st[nd.slot])])
        hit = (st.get('_provisional') or {}).get(nd.slot)
        if hit is not None:
            prov.append([nd.n, cg.epoch - hit[0], list(hit[1])])
    return fin, prov


def real_request(S, nodes, n, ctx_class=None):
    cg = S['util'].cycle_guard
    f0 = cg.fired
    ctx = (ctx_class or S['evaluator'].EvalCtx)(None)
    ans = ctx.evaluate(nodes[n])
    return (list(ans) if ans is not None else None), cg.fired - f0, getattr(ctx, 'cuts', 0)


def real_history(S, classes, graph, kinds, history):
    nodes = build(S, classes, graph, kinds, history)
    steps = []
    for n in history:
        ans, df, cuts = real_request(S, nodes, n, classes['EvalCtx'])
        fin, prov = slots(S, nodes)
        steps.append({'ans': ans, 'fired': df, 'fin': fin, 'prov': prov, 'cuts': cuts})
    return steps


def real_fresh(S, classes, graph, kinds, n, history=()):
    return real_request(S, build(S, classes, graph, kinds, tuple(history) + (n,)), n)[0]


# ------------------------------------------------------------------------------------------------ graph facts (independent of both evaluators)

def acyclic_nodes(graph, N):
    """nodes from which no cycle can be reached, with their cache-free value"""
    deps = lambda n: graph[n] if n < len(graph) else []
    state, val = {}, {}

    def visit(n):                      # -> True iff a cycle is reachable from n
        if state.get(n) == 1:
            return True
        if n in state:
            return state[n] == 3
        state[n] = 1
        cyc = False
        for d in deps(n):
            cyc = visit(d) or cyc
        state[n] = 3 if cyc else 2
        if not cyc:
            v = [n]
            for d in deps(n):
                v += val[d]
            val[n] = v
        return cyc
    # a node first met inside a cycle of an ancestor may be classified on that path: recompute per start
    out = {}
    for n in range(N):
        state.clear()
        if not visit(n):
            out[n] = val[n]
    return out


# ------------------------------------------------------------------------------------------------ generators

def gen_graph(rng):
    kind = rng.choice(['dag', 'dag', 'cycle', 'cycle', 'self', 'nested', 'nested', 'random', 'random', 'leafy', 'deep'])
    if kind == 'deep':
        # a long chain (an alias chain `a40 = a39 = ... = a0`), entered at different depths by the requests of one history: whatever
        # bounds the depth of an evaluation is a cut like any other
        N = rng.choice([30, 50, 70, 100, 140])
        g = [[i + 1] if i + 1 < N else [] for i in range(N)]
        for _ in range(rng.randint(0, 2)):
            a = rng.randrange(N)
            g[a].append(rng.randrange(N))
        return kind, g
    N = rng.choice([1, 2, 2, 3, 3, 4, 4, 5, 5, 6, 6, 7, 8, 9, 10, 11, 12])
    deg = rng.choice([1, 2, 2, 3, 3, 4])
    g = [[] for _ in range(N)]
    if kind in ('dag', 'cycle', 'self', 'nested', 'leafy'):
        for i in range(N):
            later = list(range(i + 1, N))
            k = rng.randint(0, min(deg, len(later)))
            g[i] = sorted(rng.sample(later, k)) if rng.random() < 0.5 else [rng.choice(later) for _ in range(k)]
        back = {'dag': 0, 'leafy': 0, 'cycle': 1, 'self': 0, 'nested': rng.randint(2, 5)}[kind]
        for _ in range(back):
            a = rng.randrange(N)
            b = rng.randint(0, a)
            g[a].insert(rng.randint(0, len(g[a])), b)
        if kind == 'self':
            for _ in range(rng.randint(1, 3)):
                a = rng.randrange(N)
                g[a].insert(rng.randint(0, len(g[a])), a)
        if kind == 'leafy':               # dependencies on ids that have no row
            for _ in range(rng.randint(1, 3)):
                g[rng.randrange(N)].append(N + rng.randint(0, 2))
    else:
        for i in range(N):
            g[i] = [rng.randrange(N) for _ in range(rng.randint(0, deg))]
    return kind, g


def gen_history(rng, N, quick):
    L = rng.choice([1, 2, 3, 4, 5, 6, 8, 10] if quick else [1, 2, 3, 5, 8, 10, 14, 20])
    if rng.random() < 0.3:                # hammer a few nodes
        pool = [rng.randrange(N) for _ in range(rng.randint(1, 3))]
        return [rng.choice(pool) for _ in range(L)]
    return [rng.randrange(N) for _ in range(L)]


# ------------------------------------------------------------------------------------------------ the stream

def pin_obligation(check):
    sys.path.insert(0, TRANSLATORS)
    try:
        import tr_evalmemo
        ok, problems, seen = tr_evalmemo.audit(common.REPO)
    except Exception as e:  # noqa
        ok, problems, seen = False, [repr(e)], {}
    finally:
        sys.path.remove(TRANSLATORS)
    check.oblige('translator evalmemo pin (cycle_guard.cached, cached_property.__get__, context_property, '
                 'EvalCtx.__init__, EvalCtx.evaluate)', ok, '; '.join(problems))
    check.extra['evalmemo_pins'] = seen
    return ok


def run(check, S=None):
    quick = check.tier == 'quick'
    rng = check.rng
    S = S or flowgraph.load_supp()
    pin_obligation(check)
    sys.setrecursionlimit(max(sys.getrecursionlimit(), 20000))   # the 'deep' graphs: about eight frames per level
    try:
        classes = make_classes(S)
    except Exception as e:  # noqa
        check.oblige('correspondence evalmemo (real cycle_guard vs model, request histories)', False,
                     'the cache mechanism could not be instantiated: %r' % (e,))
        return
    n_graphs = 1500 if quick else 20000
    per_graph = 3 if quick else 5
    cases, by_kind = [], {}
    skipped = 0
    while len(cases) < n_graphs:
        gk, g = gen_graph(rng)
        N = n_ids(g)
        kinds = [rng.choice(['ctx', 'prop']) for _ in range(N)] if rng.random() < 0.6 else [rng.choice(['ctx', 'prop'])]
        try:
            fresh = [real_fresh(S, classes, g, kinds, n) for n in range(N)]
        except Exception as e:  # noqa
            check.fail('evalmemo: a request on a fresh graph raised %r' % (e,),
                       {'kind': 'evalmemo', 'graph': g, 'kinds': kinds, 'history': [0], 'index': 0})
            skipped += 1
            if skipped > 50:
                break
            continue
        if any(v is not None and len(v) > MAX_VAL for v in fresh):
            skipped += 1
            continue
        by_kind[gk] = by_kind.get(gk, 0) + 1
        cases.append((gk, g, kinds, fresh, [gen_history(rng, N, quick) for _ in range(per_graph)]))

    reqs, index = [], []
    for ci, (gk, g, kinds, fresh, hs) in enumerate(cases):
        for h in hs:
            reqs.append({'op': 'run', 'g': g, 'h': h})
            index.append((ci, h))
    replies = common.ask_driver(reqs, exe='drv_evalmemo')

    st = {'graphs': len(cases), 'histories': 0, 'requests': 0, 'cyclic_graphs': 0, 'requests_on_cyclic_nodes': 0,
          'requests_that_fired': 0, 'fired_total': 0, 'cuts': 0, 'provisional_slots_written': 0, 'provisional_hits': 0,
          'max_final_slots': 0, 'model_disagreements': 0,
          'oracle_failures': 0, 'skipped_large': skipped, 'graph_kinds': by_kind, 'mixed_slot_kinds': 0}
    distinct = set()
    acyc_cache = {}
    reported = {}

    def report(cls, what, rep):          # every failure is counted, the first few of each class are recorded
        reported[cls] = reported.get(cls, 0) + 1
        if reported[cls] <= 6:
            check.fail(what, rep)
    for (ci, h), rep in zip(index, replies):
        gk, g, kinds, fresh, _ = cases[ci]
        N = n_ids(g)
        if ci not in acyc_cache:
            acyc_cache[ci] = acyclic_nodes(g, N)
            st['cyclic_graphs'] += len(acyc_cache[ci]) < N
            st['mixed_slot_kinds'] += len(set(kinds[i % len(kinds)] for i in range(N))) > 1
        acyc = acyc_cache[ci]
        st['histories'] += 1
        if 'driver_error' in rep:
            check.oblige('correspondence evalmemo driver', False, rep['driver_error'])
            break
        try:
            real = real_history(S, classes, g, kinds, h)
        except Exception as e:  # noqa
            st['oracle_failures'] += 1
            report('raised', 'evalmemo: request history raised %r' % (e,),
                       {'kind': 'evalmemo', 'graph': g, 'kinds': kinds, 'history': h, 'index': len(h) - 1})
            continue
        differs = False
        for i, (n, r, m) in enumerate(zip(h, real, rep['steps'])):
            st['requests'] += 1
            st['requests_on_cyclic_nodes'] += n not in acyc
            st['requests_that_fired'] += r['fired'] > 0
            st['fired_total'] += r['fired']
            cur = sum(1 for p in r['prov'] if p[1] == 0)
            st['provisional_slots_written'] += cur
            cuts = r.pop('cuts')
            st['cuts'] += cuts
            st['provisional_hits'] += r['fired'] - cuts
            st['max_final_slots'] = max(st['max_final_slots'], len(r['fin']))
            distinct.add((ci, n, tuple(sorted(x[0] for x in r['fin'])), tuple(sorted(x[0] for x in r['prov'] if x[1] == 0))))
            replay = {'kind': 'evalmemo', 'graph': g, 'kinds': kinds, 'history': h, 'index': i, 'graph_kind': gk}
            # direct oracle on the real code: a fresh object graph answers the same
            if r['ans'] != fresh[n]:
                st['oracle_failures'] += 1
                report('fresh', 'evalmemo: request %d of history %r on graph %r answers %r, a fresh graph answers %r'
                           % (i, h, g, r['ans'], fresh[n]), dict(replay, history_answer=r['ans'], fresh_answer=fresh[n]))
            # independent reading of the property on nodes that meet no cut: the cache-free value
            if n in acyc and r['ans'] != acyc[n]:
                st['oracle_failures'] += 1
                report('acyclic-value', 'evalmemo: node %d of graph %r meets no cycle, its value is %r, request %d of %r answers %r'
                           % (n, g, acyc[n], i, h, r['ans']), dict(replay, history_answer=r['ans'], fresh_answer=acyc[n]))
            if n in acyc and r['fired'] != 0:
                st['oracle_failures'] += 1
                report('acyclic-fired', 'evalmemo: node %d of graph %r meets no cycle but cycle_guard.fired moved by %d (request %d of %r)'
                           % (n, g, r['fired'], i, h), dict(replay, history_answer=r['ans'], fresh_answer=fresh[n]))
            # correspondence with the model: answer, counter, both kinds of slots with their values
            if r != m and not differs:
                differs = True
                st['model_disagreements'] += 1
                what = [k for k in ('ans', 'fired', 'fin', 'prov') if r[k] != m.get(k)]
                if True:
                    report('model', 'evalmemo: real cycle_guard and model differ in %s at request %d of history %r on graph %r: '
                               'real %r model %r' % (what, i, h, g, {k: r[k] for k in what}, {k: m.get(k) for k in what}),
                               dict(replay, real={k: r[k] for k in what}, model={k: m.get(k) for k in what},
                                    history_answer=r['ans'], fresh_answer=fresh[n]))
    ok = st['model_disagreements'] == 0
    check.oblige('correspondence evalmemo (real cycle_guard vs model, request histories)', ok,
                 '' if ok else '%d histories differ' % st['model_disagreements'])
    if st['histories']:
        st['cyclic_graphs_pct'] = round(100.0 * st['cyclic_graphs'] / max(1, len(cases)), 1)
    st['distinct_request_states'] = len(distinct)
    st['failures_by_class'] = reported
    check.extra['evalmemo'] = st
    if cases:
        check.sample('evalmemo graph %r history %r' % (cases[0][1], cases[0][4][0]))
    check.assumptions += [
        'EvalMemo: a node has ONE cache slot and its compute() reads other nodes only through EvalCtx.evaluate; '
        'the real evaluator also cuts recursion with Name._busy / Module._analysing (they increment cycle_guard.fired like the '
        'EvalCtx.nodes cut; not modelled separately) and keeps slots (MultiValue._rvalues) by hand-written copies of the same test',
    ]
    return st


def replay_one(S, r):
    """-> True iff the recorded input still fails"""
    classes = make_classes(S)
    g, kinds, h, i = r['graph'], r['kinds'], r['history'], r['index']
    real = real_history(S, classes, g, kinds, h[:i + 1])
    fresh = real_fresh(S, classes, g, kinds, h[i], h)
    model = common.ask_driver([{'op': 'run', 'g': g, 'h': h[:i + 1]}], exe='drv_evalmemo')[0]['steps']
    print('graph %r history %r request #%d (node %d)' % (g, h, i, h[i]))
    print('  history answer       %r\n  fresh-graph answer   %r\n  model answer         %r' % (real[i]['ans'], fresh, model[i]['ans']))
    print('  real  fired %r fin %r prov %r' % (real[i]['fired'], real[i]['fin'], real[i]['prov']))
    print('  model fired %r fin %r prov %r' % (model[i]['fired'], model[i]['fin'], model[i]['prov']))
    return real[i]['ans'] != fresh or real[i] != model[i]


if __name__ == '__main__':
    import random

    class _C(object):
        tier = 'quick'

        def __init__(self, seed):
            self.rng = random.Random(seed)
            self.extra, self.assumptions, self.fails, self.obl = {}, [], [], []

        def oblige(self, name, ok, detail=''):
            self.obl.append((name, ok, detail))

        def fail(self, what, replay):
            self.fails.append(what)

        def sample(self, s):
            pass

    c = _C(int(sys.argv[1]) if len(sys.argv) > 1 else 0)
    if len(sys.argv) > 2:
        c.tier = sys.argv[2]
    run(c)
    print(json.dumps(c.extra, indent=1))
    print(c.obl)
    print(len(c.fails), c.fails[:3])
