"""C15 — Remote calls are transparent and failures are isolated.

tie    : correspondence of the message-level model (lean/SuppModel/Rpc: `session`, `serverRun`, `serverApi`) with a REAL
         server subprocess started by the real `supp.remote.Environment`: the model is given the in-process outcomes as
         its library trace and must predict every remote reply, the liveness of the server and the reply/request pairing
search : the real client + server against an independent in-process reference (the same calls made on an identical
         project in this process), failing requests injected at every index of a base sequence
"""
import ast
import json
import os
import shutil
import struct
import sys
import tempfile
import time

from . import common
from .common import REPO

PY = '/venv/bin/python'
ROOT_MARK = '@C15ROOT@'

# ----------------------------------------------------------------------------- values <-> JSON (driver format)


def encodable(s):
    try:
        s.encode('utf-8')
        return True
    except UnicodeEncodeError:
        return False


def to_json(v, _stack=()):
    """driver encoding; anything dumps has no branch for, and any self-containing container, is opaque"""
    if v is None or v is True or v is False:
        return v
    if isinstance(v, (list, tuple, dict)):
        if id(v) in _stack:
            return {'o': 1}
        _stack = _stack + (id(v),)
    if isinstance(v, int):
        return {'i': str(v)}
    if isinstance(v, float):
        return {'f': str(int.from_bytes(struct.pack('>d', v), 'big'))}
    if isinstance(v, str):
        return {'s': v.encode('utf-8').hex()} if encodable(v) else {'o': 1}
    if isinstance(v, bytes):
        return {'b': v.hex()}
    if isinstance(v, list):
        return {'a': [to_json(x, _stack) for x in v]}
    if isinstance(v, tuple):
        return {'t': [to_json(x, _stack) for x in v]}
    if isinstance(v, dict):
        return {'m': [[to_json(k, _stack), to_json(x, _stack)] for k, x in v.items()]}
    return {'o': 1}


def serialisable(v, key=False, _stack=()):
    """independent statement of 'dumps accepts it' (MessagePack data model as Python objects; a container that
    contains itself is not a finite value: dumps raises RecursionError)"""
    if v is None or isinstance(v, bool):
        return True
    if isinstance(v, (list, tuple, dict)):
        if id(v) in _stack:
            return False
        _stack = _stack + (id(v),)
    if isinstance(v, int):
        return -2 ** 63 <= v < 2 ** 64
    if isinstance(v, float) or isinstance(v, bytes):
        return True
    if isinstance(v, str):
        return encodable(v)
    if isinstance(v, (list, tuple)):
        return all(serialisable(x, key, _stack) for x in v)
    if isinstance(v, dict):
        return all(serialisable(k, True, _stack) and serialisable(x, False, _stack) for k, x in v.items())
    return False


def t2l(v):
    """tuples arrive as lists (dict keys stay what they are)"""
    if isinstance(v, (list, tuple)):
        return [t2l(x) for x in v]
    if isinstance(v, dict):
        return dict((k, t2l(x)) for k, x in v.items())
    return v


def short(x, n=300):
    s = repr(x)
    return s if len(s) <= n else s[:n] + '...(%d chars)' % len(s)


# ----------------------------------------------------------------------------- the project the calls are about

DIR_A = {
    'moda.py': 'class Alpha:\n    counter = 1\n    def method_one(self):\n        return 1\n    def method_two(self, x):\n        return x\n\n'
               'def func_a(x, y=2):\n    return x\n\nCONST_A = (1, 2)\n',
    'modb.py': 'import moda\n\nclass Beta(moda.Alpha):\n    extra = "e"\n    def beta_m(self):\n        pass\n\nvalue_b = Beta()\n',
}
DIR_B = {
    'moda.py': 'class Gamma:\n    zeta = 0\n    def only_in_b(self):\n        return 2\n\ndef other_func():\n    pass\n',
}


DYN_MODULE = 'zq_dynmod_c15'
DIR_DYN = {DYN_MODULE + '.py': "static_name = 1\nfor _n in ('alpha', 'beta'):\n    globals()['made_' + _n] = _n\n"}
DYN_DIR = None      # set by make_dirs: on sys.path of this process and of every server (dyn_modules are imported for real)


def make_dirs(root, dirs):
    global DYN_DIR
    dirs = dict(dirs, pdyn=DIR_DYN)
    DYN_DIR = os.path.join(root, 'pdyn')
    if DYN_DIR not in sys.path:
        sys.path.insert(0, DYN_DIR)
    sys.modules.pop(DYN_MODULE, None)
    for name, files in dirs.items():
        d = os.path.join(root, name)
        os.makedirs(d, exist_ok=True)
        for fn, content in files.items():
            with open(os.path.join(d, fn), 'w') as f:
                f.write(content)


ASSIST_SOURCES = [
    ('import moda\nmoda.', (2, 5)),
    ('import %s\n%s.' % (DYN_MODULE, DYN_MODULE), (2, len(DYN_MODULE) + 1)),          # differs with / without dyn_modules
    ('import %s\n%s.made_' % (DYN_MODULE, DYN_MODULE), (2, len(DYN_MODULE) + 6)),
    ('import moda\nmoda.fu', (2, 7)),
    ('import modb\nmodb.value_b.', (2, 13)),
    ('from moda import Alpha\na = Alpha()\na.me', (3, 4)),
    ('def local_fn(arg_one, arg_two):\n    ar\n', (2, 6)),
    ('class K:\n    def m(self):\n        self.x = 1\n        self.\n', (4, 13)),
    ('value = 1\nval', (2, 3)),
    ('x = {"a": 1}\nx.', (2, 2)),
    ('\u00e9t\u00e9 = 1\n\u00e9', (2, 1)),
    ('', (1, 0)),
]
LOCATION_SOURCES = [
    ('import moda\nmoda.func_a', (2, 7)),
    ('import moda\nmoda.Alpha.method_one', (2, 14)),
    ('def f():\n    pass\nf', (3, 0)),
    ('x = 1\ny = x', (2, 4)),
    ('import modb\nmodb.Beta', (2, 6)),
    ('zzz', (1, 1)),
]
LINT_SOURCES = [
    'import moda\nimport os\nx = moda.func_a(1)\nprint(y)\n',
    'def f(a, b):\n    c = 1\n    return a\n',
    'import sys\n',
    'x = 1\n',
    '',
    'def (:\n',
    'class A:\n  def m(self):\n    return undefined_name\n',
    'for i in range(3):\n    pass\nprint(i, j)\n',
    'from moda import *\nAlpha\n',
    '\u00fc = 1\nprint(\u00fc, \u00f6)\n',
]
SYNTAX_ERRORS = ['def (:\n    pass\n', 'x = (1,\n', 'class :\n', 'a b c\n', '\tx=1\n y=2\n']

EVAL_VALUES = [
    'return None', 'return True', 'return 0', 'return -1', 'return 2**63-1', 'return -2**63', 'return 2**64-1',
    'return 1.5', 'return -0.0', 'return float("inf")', 'return float("nan")', 'return 1e308',
    'return ""', 'return "text"', 'return "\u00e9\u4e2d\U0001f600"', 'return b""', 'return b"\\x00\\xff"',
    'return ()', 'return []', 'return {}', 'return (1, 2)', 'return ((1, 2), (3, (4, (5,))))', 'return [(1,), [2], ((),)]',
    'return {1: "a", "b": 2, (1, 2): (3, 4), b"k": b"v", None: None, 2.5: [1.5]}',
    'return {"outer": {"inner": ((1, 2), {"deep": (None,)})}}',
    'return [{"loc": (5, 4), "file": "/x"}]', 'return {(1, (2, 3)): 1}', 'return {True: 1, 2: 2}',
    'return (1, "two", b"3", 4.0, None, True, [5], {"6": 7})',
    'x = 1\ny = 2\nreturn x + y', 'pass', 'for i in range(3):\n    pass\nreturn i', 'return list(range(20))',
    'return "a\\nb\\tc"', 'return 10**18', 'return [1.0, 1, True]', 'return "x" * 31, "y" * 32, b"z" * 255, b"w" * 256',
]
EVAL_RAISES = [
    'raise ValueError("bad value")', 'raise KeyError("k")', 'raise KeyError(1)', 'raise KeyError((1, 2))', 'raise Exception()',
    'raise Exception("a", "b")', 'return 1/0', 'return undefined_name_xyz', 'raise RuntimeError("\u00e9\u4e2d")',
    'class MyErr(Exception):\n    pass\nraise MyErr("custom")', 'return {}["missing"]', 'return [][3]', 'return None.attr',
    'import nonexistent_module_c15', 'raise OSError(2, "No such file")', 'assert False, "assert msg"', 'raise StopIteration',
    'return int("x")', 'raise ValueError("")', 'raise ValueError("line1\\nline2")', 'return (1).real.nothing',
    # chained exceptions: the reply carries the message of the exception that was RAISED, not of its cause or context
    'try:\n    1/0\nexcept Exception as e:\n    raise ValueError("outer") from e',
    'try:\n    {}["k"]\nexcept KeyError:\n    raise RuntimeError("while handling")',
    'try:\n    int("x")\nexcept ValueError as e:\n    raise TypeError("outer2") from None',
    'e1 = KeyError("root")\ne2 = ValueError("mid")\ne2.__cause__ = e1\ne3 = OSError("top")\ne3.__cause__ = e2\nraise e3',
    'class Loud(Exception):\n    def __str__(self):\n        return "loud:" + repr(self.args)\nraise Loud(1, "two")',
]
EVAL_UNSER = [
    'return object()', 'return {1, 2}', 'return lambda: 1', 'return [1, object()]', 'return {"a": {1}}', 'return (1, (2, {3}))',
    'return 2**64', 'return -2**63-1', 'return [0, 2**70]', 'return "\\udc80"', 'return {"k": "\\ud800"}', 'return 1j',
    'return frozenset()', 'return range(3)', 'return type', 'import os\nreturn os', 'return {object(): 1}', 'return bytearray(b"x")',
    'raise ValueError("\\udc80")',
    'x = []\nx.append(x)\nreturn x', 'd = {}\nd["self"] = d\nreturn d', 'x = [1]\nx.append((2, [x]))\nreturn (0, x)',
    'return ["ok", "\\udfff"]', 'return {"\\ud800k": 1}',
]
COUNTER_RESET = 'import sys\nsys._c15_counter = 0\nreturn 0'
COUNTER_INC = 'import sys\nsys._c15_counter = getattr(sys, "_c15_counter", 0) + 1\nreturn sys._c15_counter'
COUNTER_INC_RAISE = 'import sys\nsys._c15_counter = getattr(sys, "_c15_counter", 0) + 1\nraise ValueError(sys._c15_counter)'
UNKNOWN_NAMES = ['nope', 'get_docstring', '_private', '', 'Assist', 'lint2', 'project_', 'conn2', 'evaluate', '\u00e9']


class Req(object):
    __slots__ = ('name', 'args', 'kwargs', 'kind', 'failing', 'neutral')

    def __init__(self, name, args=(), kwargs=None, kind='', failing=False, neutral=True):
        self.name, self.args, self.kwargs = name, tuple(args), dict(kwargs or {})
        self.kind, self.failing, self.neutral = kind, failing, neutral

    def plain(self):
        return (self.name, self.args, self.kwargs)

    def __repr__(self):
        return short(self.plain(), 200)


class Gen(object):
    def __init__(self, rng, root, sizes):
        self.rng, self.root, self.sizes = rng, root, sizes
        self.dir_a, self.dir_b = os.path.join(root, 'pa'), os.path.join(root, 'pb')

    def fn(self):
        if self.rng.random() < 0.2:
            # a RELATIVE file name travels as it is (client, server and the in-process call share the working directory)
            return self.rng.choice(['x.py', 'sub/m.py', './edit.py', '../up.py', 'moda.py'])
        return os.path.join(self.rng.choice([self.dir_a, self.dir_b, self.root]), self.rng.choice(['x.py', 'edit.py', 'pkg_mod.py', 'conftest.py', '__main__.py', 'setup.py', 'test_mod.py', '__init__.py']))

    def configure(self):
        r = self.rng
        c = r.randrange(5)
        if c == 0:
            cfg = {'sources': [self.dir_b]}
        elif c == 1:
            cfg = {'sources': [self.dir_a], 'dyn_modules': [DYN_MODULE]}
        elif c == 2:
            cfg = {'sources': [self.dir_a, self.dir_b], 'dyn_modules': None, 'extra': (1, 2)}
        else:
            cfg = {'sources': [self.dir_a]}
        return Req('configure', (cfg,), kind='configure', neutral=False)

    def valid(self):
        r = self.rng
        c = r.randrange(100)
        if c < 22:
            src, pos = r.choice(ASSIST_SOURCES)
            if r.random() < 0.15:
                src = src.encode('utf-8')   # bytes source: the API decodes it
            return Req('assist', (src, pos, self.fn()), kind='assist')
        if c < 36:
            src, pos = r.choice(LOCATION_SOURCES)
            return Req('location', (src, pos, self.fn()), kind='location')
        if c < 54:
            src = r.choice(LINT_SOURCES)
            if r.random() < 0.15:
                src = src.encode('utf-8')
            if r.random() < 0.2:
                return Req('lint', (src,), {'filename': self.fn(), 'syntax_only': r.random() < 0.5}, kind='lint-kwargs')
            return Req('lint', (src, self.fn(), r.random() < 0.3), kind='lint')
        if c < 60:
            return self.configure()
        if c < 70:
            return Req('eval', (COUNTER_INC,), kind='eval-counter', neutral=False)
        if c < 76:
            return self.payload()
        if c < 79:
            return Req('eval', (), {'source': r.choice(EVAL_VALUES)}, kind='eval-kwargs')
        code = r.choice(EVAL_VALUES)
        return Req('eval', (code.encode('utf-8') if r.random() < 0.1 else code,), kind='eval')

    def payload(self, n=None):
        r = self.rng
        n = r.choice(self.sizes) if n is None else n
        c = r.randrange(6)
        if c == 0:
            return Req('eval', ('return "x" * %d' % n,), kind='payload-str-%d' % n)
        if c == 1:
            return Req('eval', ('return b"\\x00\\xfe" * %d' % (n // 2),), kind='payload-bytes-%d' % n)
        if c == 2:
            m = min(n // 4, 4000)
            return Req('eval', ('return [(i, str(i)) for i in range(%d)]' % m,), kind='payload-list-%d' % m)
        if c == 3:
            m = min(n // 8, 400)     # (dict decoding and the data-model test are quadratic in the model)
            return Req('eval', ('return {i: ("v", i) for i in range(%d)}' % m,), kind='payload-dict-%d' % m)
        if c == 4:
            # big REQUEST: the source itself is n bytes
            return Req('eval', ('s = """%s"""\nreturn len(s)' % ('q' * n),), kind='request-%d' % n)
        m = min(n, 40000)
        return Req('eval', ('return "\u00e9\u4e2d" * %d' % (m // 5),), kind='payload-utf8-%d' % m)

    def failing(self):
        """a request that must be reported as an exception; `neutral` = does not change any state"""
        r = self.rng
        c = r.randrange(100)
        if c < 10:
            return Req(r.choice(UNKNOWN_NAMES), r.choice([(), (1,), ('a', (1, 2))]), kind='unknown-method', failing=True)
        if c < 22:
            name = r.choice(['lint', 'assist', 'location', 'eval', 'configure'])
            args = r.choice([(), ('x',), ('x', (1, 1), 'f', 'extra', 5)])
            if name == 'eval' and len(args) == 1:
                args = ()
            if name == 'configure' and len(args) == 1:
                args = ()
            if name == 'lint' and len(args) == 1:
                args = ()
            return Req(name, args, kind='wrong-arity', failing=True)
        if c < 28:
            return Req(r.choice(['eval', 'lint', 'assist']), ('return 1',), {'bogus_kw': 1}, kind='wrong-kwargs', failing=True)
        if c < 40:
            src, _ = r.choice(ASSIST_SOURCES)
            pos = r.choice([(99, 0), (1000000, 5), (3, 10 ** 9), (50, 50)])
            return Req(r.choice(['assist', 'location']), (src, pos, self.fn()), kind='cursor-out-of-range', failing=True)
        if c < 46:
            return Req(r.choice(['assist', 'location']), (r.choice(SYNTAX_ERRORS), (1, 2, 3), self.fn()), kind='position-arity', failing=True)
        if c < 52:
            if r.random() < 0.3:
                return Req('lint', (None, self.fn(), False), kind='source-none', failing=True)
            return Req(r.choice(['assist', 'location']), (None, (1, 0), self.fn()), kind='source-none', failing=True)
        if c < 58:
            # the last two: valid (other) roots, but the rest of the configuration makes Project() raise -- the session keeps its project
            cfg = r.choice([{}, None, [], {'source': ['x']}, 'sources', {'sources': [self.dir_b], 'dyn_modules': 7},
                            {'sources': [self.dir_b, self.dir_a], 'dyn_modules': 1.5}])
            return Req('configure', (cfg,), kind='configure-bad', failing=True)
        if c < 74:
            return Req('eval', (r.choice(EVAL_RAISES),), kind='eval-raises', failing=True)
        if c < 90:
            return Req('eval', (r.choice(EVAL_UNSER),), kind='eval-unserialisable', failing=True)
        if c < 94:
            return Req('eval', (r.choice(SYNTAX_ERRORS),), kind='eval-syntax-error', failing=True)
        if c < 97:
            n = r.choice(self.sizes)
            return Req('eval', ('return ["x" * %d, object()]' % n,), kind='unserialisable-big-%d' % n, failing=True)
        return Req('eval', (COUNTER_INC_RAISE,), kind='eval-state-change-then-raise', failing=True, neutral=False)


# ----------------------------------------------------------------------------- the in-process reference

def make_reference():
    """the same API, in this process, on the library imported from common.REPO.
    The class is called `Server` so that CPython's own messages (missing attribute, argument binding) name the same class."""
    from supp import assistant, linter
    from supp.project import Project
    if hasattr(sys, '_c15_counter'):      # the process-global state evaluated code may touch: a new server has none
        del sys._c15_counter

    class Server(object):
        def configure(self, config):
            self.project = Project(config['sources'], dyn_modules=config.get('dyn_modules'))

        def assist(self, source, position, filename):
            with self.project.check_changes():
                return assistant.assist(self.project, _text(source), position, filename)

        def location(self, source, position, filename):
            with self.project.check_changes():
                return assistant.location(self.project, _text(source), position, filename)

        def lint(self, source, filename, syntax_only=False):
            with self.project.check_changes():
                return linter.lint(self.project, _text(source), filename)      # full entries (5 fields)

        def eval(self, source):
            ctx = {}
            body = '\n'.join('    ' + r for r in _text(source).splitlines())
            exec('def boo():\n{}\nresult = boo()'.format(body), ctx)
            return ctx['result']

    def _text(source):
        return source.decode() if type(source) is bytes else source

    Server.__qualname__ = 'Server'
    for n in ('configure', 'assist', 'location', 'lint', 'eval'):
        getattr(Server, n).__qualname__ = 'Server.' + n
    return Server()


class _Quiet(object):
    """supp prints diagnostics ('Unknown node type ...') to stdout: keep them out of the check's output"""

    def __enter__(self):
        import logging
        self.old = sys.stdout
        sys.stdout = open(os.devnull, 'w')
        logging.disable(logging.CRITICAL)

    def __exit__(self, *a):
        import logging
        logging.disable(logging.NOTSET)
        sys.stdout.close()
        sys.stdout = self.old


def ref_call(ref, req):
    with _Quiet():
        try:
            return ('ok', getattr(ref, req.name)(*req.args, **req.kwargs))
        except Exception as e:
            return ('raised', e.__class__.__name__, str(e))


def expect(out, name):
    """what the remote caller must see for an in-process outcome (the property, stated independently of the model)"""
    if out[0] == 'raised':
        return ('exc', out[2]) if encodable(out[2]) else ('exc', 'Serialize error')
    v = out[1]
    if name == 'lint' and isinstance(v, list):
        v = [r[:4] for r in v]
    return ('ret', t2l(v)) if serialisable(v) else ('exc', 'Serialize error')


def out_json(out):
    if out[0] == 'raised':
        return {'raised': [to_json(out[1]), to_json(out[2])]}
    return {'ok': to_json(out[1])}


def same(a, b):
    """exact comparison of two observed outcomes (types matter: 1 != True != 1.0, list != tuple, str != bytes)"""
    return a[0] == b[0] and to_json(a[1]) == to_json(b[1])


# ----------------------------------------------------------------------------- the real client + server

class Remote(object):
    def __init__(self):
        from supp.remote import Environment
        self.env = Environment(PY, env={'PYTHONPATH': REPO + (os.pathsep + DYN_DIR if DYN_DIR else ''), 'SUPP_LOG_LEVEL': '100',
                                        'PYTHONDONTWRITEBYTECODE': '1'})
        # the child inherits stdout/stderr at spawn: point them at /dev/null (supp prints diagnostics, crash tests print tracebacks)
        sys.stdout.flush()
        sys.stderr.flush()
        saved = os.dup(1), os.dup(2)
        null = os.open(os.devnull, os.O_WRONLY)
        try:
            os.dup2(null, 1)
            os.dup2(null, 2)
            self.env.run()
        finally:
            os.dup2(saved[0], 1)
            os.dup2(saved[1], 2)
            for fd in saved + (null,):
                os.close(fd)

    WRAPPED = {'assist': 3, 'location': 3, 'configure': 1, 'eval': 1}      # public client methods and their positional arity

    def call(self, req):
        try:
            # well-formed requests go through the public client method (what an editor calls), every second time; requests with
            # an arity the method itself would refuse, keyword forms and unknown names go through _call (the wire contract)
            self.n_calls = getattr(self, 'n_calls', 0) + 1
            if self.n_calls % 2 and not req.kwargs and (self.WRAPPED.get(req.name) == len(req.args)
                                                           or req.name == 'lint' and len(req.args) in (2, 3)):
                return ('ret', getattr(self.env, req.name)(*req.args))
            return ('ret', self.env._call(req.name, *req.args, **req.kwargs))
        except Exception as e:
            if type(e) is Exception and len(e.args) == 1:
                return ('exc', e.args[0])
            return ('client-error', '%s: %s' % (type(e).__name__, e))

    def alive(self):
        return self.env.proc.poll() is None

    def wait_exit(self, timeout=6.0):
        t = time.time()
        while time.time() - t < timeout:
            rc = self.env.proc.poll()
            if rc is not None:
                return rc
            time.sleep(0.05)
        return None

    def kill(self):
        try:
            if hasattr(self.env, 'conn'):
                try:
                    self.env.close()
                except Exception:
                    pass
            if self.wait_exit(3.0) is None:
                self.env.proc.kill()
                self.env.proc.wait()
        except Exception:
            pass


def import_repo():
    for k in [k for k in sys.modules if k == 'supp' or k.startswith('supp.')]:
        del sys.modules[k]
    if REPO in sys.path:
        sys.path.remove(REPO)
    sys.path.insert(0, REPO)
    import supp.remote  # noqa: F401
    import supp.umsgpack as um
    return um


# ----------------------------------------------------------------------------- one sequence against everything

def req_json(req, out):
    return {'name': to_json(req.name), 'args': [to_json(a) for a in req.args],
            'kwargs': [[to_json(k), to_json(v)] for k, v in req.kwargs.items()], 'out': out_json(out)}


def replayable(root, seq, fresh):
    return {'kind': 'sequence', 'fresh_server': fresh,
            'requests': [repr(r.plain()).replace(root, ROOT_MARK) for r in seq]}


class Runner(object):
    def __init__(self, check, root):
        self.check, self.root = check, root
        self.remote = None
        self.ref = None
        self.configured = False
        self.stats = {'requests': 0, 'failing_requests': 0, 'sequences': 0, 'kinds': {}, 'remote_outcomes': {'ret': 0, 'exc': 0},
                      'model_hypotheses': {'reqOK': 0, 'resOK': 0, 'of': 0}, 'liveness_probes': 0, 'max_payload_bytes': 0,
                      'servers_started': 0}
        self.dis = {'replies': [], 'liveness': [], 'pairing': []}
        self.adjacent = set()
        self.pending = []     # (seq, configured_at_start, outs, reals, fresh) waiting for the driver
        self.driver_s = self.remote_s = self.inproc_s = 0.0

    def fresh(self):
        if self.remote:
            self.remote.kill()
        self.remote = Remote()
        self.ref = make_reference()
        self.configured = False
        self.stats['servers_started'] += 1

    def run_seq(self, seq, fresh=False, label=''):
        """-> list of real outcomes.  Oracle (real vs in-process) immediately; model comparison is batched."""
        check = self.check
        if fresh or self.remote is None:
            self.fresh()
            fresh = True
        conf0 = self.configured
        outs, reals = [], []
        self.stats['sequences'] += 1
        prev_failing = None
        for i, req in enumerate(seq):
            t = time.time()
            out = ref_call(self.ref, req)
            t1 = time.time()
            real = self.remote.call(req)
            self.inproc_s += t1 - t
            self.remote_s += time.time() - t1
            outs.append(out)
            reals.append(real)
            self.stats['requests'] += 1
            self.stats['kinds'][req.kind.rstrip('0123456789-')] = self.stats['kinds'].get(req.kind.rstrip('0123456789-'), 0) + 1
            if real[0] in self.stats['remote_outcomes']:
                self.stats['remote_outcomes'][real[0]] += 1
            if real[0] == 'ret' and isinstance(real[1], (str, bytes)):
                self.stats['max_payload_bytes'] = max(self.stats['max_payload_bytes'], len(real[1]))
            if req.name == 'eval' and req.args and isinstance(req.args[0], str):
                self.stats['max_payload_bytes'] = max(self.stats['max_payload_bytes'], len(req.args[0]))
            want = expect(out, req.name)
            if real[0] == 'client-error' or not same(real, want):
                check.fail('remote reply differs from the in-process result (request %d %s of a %d-request sequence%s): remote %s, in-process %s'
                           % (i, req.kind, len(seq), label, short(real, 200), short(want, 200)),
                           dict(replayable(self.root, seq, fresh), index=i))
            is_fail = out[0] == 'raised' or want[0] == 'exc'
            if is_fail:
                self.stats['failing_requests'] += 1
                self.stats['liveness_probes'] += 1
                if not self.remote.alive():
                    check.fail('server process terminated by a failing request (request %d %s%s)' % (i, req.kind, label),
                               dict(replayable(self.root, seq[:i + 1], fresh), index=i))
            if prev_failing is not None:
                self.adjacent.add((prev_failing, repr(req.plain()).replace(self.root, '')))
            prev_failing = repr(req.plain()).replace(self.root, '') if is_fail else None
            if req.name == 'configure' and out[0] == 'ok':
                self.configured = True
            if real[0] == 'client-error' or not self.remote.alive():
                # transport error / dead process: the server was terminated by this request (the isolation half of the property).
                # Recorded above as a failing input; the remaining sequences get a fresh server.
                if real[0] == 'client-error' and not is_fail:
                    check.fail('server process terminated (request %d %s%s): %s' % (i, req.kind, label, short(real, 160)),
                               dict(replayable(self.root, seq[:i + 1], fresh), index=i))
                self.pending.append((seq[:i + 1], conf0, outs, reals, fresh))
                self.remote.kill()
                self.remote = None
                return reals
        self.pending.append((seq, conf0, outs, reals, fresh))
        return reals

    def flush_model(self):
        """CORRESPONDENCE: the model, given the in-process outcomes as its library trace, predicts the remote replies"""
        if not self.pending:
            return
        reqs = [{'op': 'session', 'configured': conf0, 'reqs': [req_json(r, o) for r, o in zip(seq, outs)]}
                for seq, conf0, outs, reals, fresh in self.pending]
        t = time.time()
        replies = common.ask_driver(reqs, exe='drv_rpc')
        self.driver_s += time.time() - t
        for (seq, conf0, outs, reals, fresh), m in zip(self.pending, replies):
            if 'driver_error' in m:
                self.dis['replies'].append('driver: %s on %s' % (m['driver_error'], short(seq, 200)))
                continue
            hyp = self.stats['model_hypotheses']
            hyp['of'] += len(seq)
            hyp['reqOK'] += sum(1 for b in m['reqOK'] if b)
            hyp['resOK'] += sum(1 for b in m['resOK'] if b)
            if m['left'] != 0 or len(m['outcomes']) != len(seq):
                self.dis['pairing'].append('model consumed %d of %d trace entries / %d outcomes for %d requests: %s'
                                           % (len(seq) - m['left'], len(seq), len(m['outcomes']), len(seq), short(seq, 200)))
            if m['outcomes'] != m['expected'] and all(m['reqOK']) and all(m['resOK']):
                self.dis['replies'].append('model session != map expected inproc although the hypotheses hold (theorem C15_transparent contradicted?!) %s' % short(seq, 200))
            for i, (req, real, mo) in enumerate(zip(seq, reals, m['outcomes'])):
                if real[0] == 'ret':
                    r = {'ret': to_json(real[1])}
                elif real[0] == 'exc':
                    r = {'exc': to_json(real[1])}
                else:
                    r = {'noReply': 1}
                if r != mo:
                    self.dis['replies'].append('request %d %s of %s: real %s, model %s' % (i, req.kind, short(seq, 120), short(r, 160), short(mo, 160)))
            # liveness: the model says the loop is still running after the sequence (exit = null) iff the process lived
            lived = len(reals) == len(seq) and all(r[0] != 'client-error' for r in reals)
            if (m['exit'] is None) != lived:
                self.dis['liveness'].append('model exit=%r, real server %s after %s' % (m['exit'], 'alive' if lived else 'dead', short(seq, 160)))
        self.pending = []


# ----------------------------------------------------------------------------- raw streams: close / EOF / garbage / pipelining

def stream_cases(um):
    d = um.dumps
    return [
        ('close', [d(('close', (), {}))], 0),
        ('close-with-args', [d(('eval', ('return 1',), {})), d(('close', (1, 'x'), {'a': 2})), d(('eval', ('return 2',), {}))], 0),
        ('eof', [d(('eval', ('return 3',), {})), None], 0),
        ('undecodable-reserved', [d(('nope', (), {})), b'\xc1'], 0),
        ('undecodable-truncated', [d(('eval', ('return "abcdef"',), {}))[:-3]], 0),
        ('empty-array', [b'\x90'], 1),
        ('two-array', [d(('eval', ('return 1',)))], 1),
        ('four-array', [d(('eval', ('return 1',), {}, 0))], 1),
        ('close-first-of-one', [d(('close',))], 0),
    ]


def run_stream(remote, msgs):
    """send raw messages without waiting (pipelined), then read every reply until EOF -> (replies, returncode)"""
    conn = remote.env.conn
    sent_eof = False
    for m in msgs:
        if m is None:
            sent_eof = True
            break
        try:
            conn.send_bytes(m)
        except (OSError, EOFError):     # the server is gone: what it answered so far is still readable
            break
    replies = []
    if sent_eof:
        # half-close is not available: read what is already answered, then close
        time.sleep(0.3)
        while conn.poll(0.2):
            try:
                replies.append(conn.recv_bytes())
            except EOFError:
                break
        conn.close()
        del remote.env.conn
    else:
        t = time.time()
        while time.time() - t < 8:
            try:
                if conn.poll(0.2):
                    replies.append(conn.recv_bytes())
                elif remote.env.proc.poll() is not None:
                    break
            except (EOFError, OSError):
                break
        try:
            conn.close()
        except Exception:
            pass
        del remote.env.conn
    rc = remote.wait_exit(6.0)
    return replies, rc


# ----------------------------------------------------------------------------- run

def run(check):
    quick = check.tier == 'quick'
    rng = check.rng
    check.prove(extra_targets=('drv_rpc',))
    um = import_repo()

    # the model's string literals are the ones in server.py
    lit = common.ask_driver([{'op': 'literals'}], exe='drv_rpc')[0]
    src = open(os.path.join(REPO, 'supp', 'server.py')).read()
    bad = [k for k, v in lit.items() if bytes.fromhex(v).decode() != k]
    missing = [k for k in lit if k not in src]
    check.oblige('correspondence literals (model strings = strings of server.py)', not bad and not missing,
                 'bad=%r not-in-source=%r' % (bad, missing))

    root = tempfile.mkdtemp(prefix='c15-')
    runner = None
    try:
        make_dirs(root, {'pa': DIR_A, 'pb': DIR_B})
        sizes = [0, 1, 31, 32, 255, 256, 65535, 65536, 300000] if quick else \
            [0, 1, 31, 32, 255, 256, 65535, 65536, 300000, 1 << 20, 3 << 20, (4 << 20) + 7]
        gen = Gen(rng, root, sizes)
        runner = Runner(check, root)
        n_target = 80 if quick else 900          # base sequences (each is run len+1 times: once per injection index)
        small = [n for n in sizes if n <= 65536]

        # 0. a fresh server before any configure: every project method is an AttributeError, reported, not fatal
        first = [Req('assist', ('x', (1, 1), gen.fn()), kind='no-project', failing=True),
                 Req('lint', ('x = 1', gen.fn(), False), kind='no-project', failing=True),
                 Req('eval', ('import supp\nreturn supp.__file__',), kind='eval'),
                 Req('location', ('x', (1, 0), gen.fn()), kind='no-project', failing=True),
                 Req('configure', ({},), kind='configure-bad', failing=True),
                 Req('assist', ('x', (1, 1), gen.fn()), kind='no-project', failing=True),
                 Req('configure', ({'sources': [gen.dir_a]},), kind='configure', neutral=False),
                 Req('assist', ASSIST_SOURCES[0] + (gen.fn(),), kind='assist'),
                 Req('configure', (None,), kind='configure-bad', failing=True),
                 Req('assist', ASSIST_SOURCES[0] + (gen.fn(),), kind='assist'),
                 Req('configure', ({'sources': [gen.dir_b]},), kind='configure', neutral=False),
                 Req('assist', ASSIST_SOURCES[0] + (gen.fn(),), kind='assist')]
        reals = runner.run_seq(first, fresh=True, label=' (fresh server)')
        where = reals[2][1] if len(reals) > 2 and reals[2][0] == 'ret' else None
        check.oblige('correspondence setup (server subprocess imports supp from %s)' % REPO,
                     isinstance(where, str) and os.path.realpath(where).startswith(os.path.realpath(REPO).rstrip('/') + '/'),
                     'supp.__file__ in the server: %r' % (where,))
        if len(reals) == len(first) and reals[7][0] == 'ret' and same(reals[7], reals[9]) and same(reals[9], reals[11]):
            check.fail('configure did not replace the project (same completions for two different source trees)',
                       replayable(root, first, True))

        # 0c. a configure that fails AFTER its roots were read (valid other roots, dyn_modules not iterable) leaves the session as it was
        # (found missing by seeded change C15-5: the project replaced before the failing part of configure)
        half = [Req('configure', ({'sources': [gen.dir_a]},), kind='configure', neutral=False),
                Req('assist', ASSIST_SOURCES[0] + (gen.fn(),), kind='assist'),
                Req('configure', ({'sources': [gen.dir_b], 'dyn_modules': 7},), kind='configure-bad', failing=True),
                Req('assist', ASSIST_SOURCES[0] + (gen.fn(),), kind='assist'),
                Req('lint', (ASSIST_SOURCES[0][0], gen.fn(), False), kind='lint')]
        reals = runner.run_seq(half, fresh=True, label=' (half-failed configure)')
        if len(reals) == len(half) and reals[1][0] == 'ret' and reals[2][0] != 'ret' and not same(reals[1], reals[3]):
            check.fail('a configure request that was answered with an error changed the answers of the session',
                       replayable(root, half, True))

        # 0b. configure again with the same roots and other dyn_modules (and back): each configuration is a new project
        dyn = ASSIST_SOURCES[1] + (gen.fn(),)
        recfg = []
        for cfg in ({'sources': [gen.dir_a]}, {'sources': [gen.dir_a], 'dyn_modules': [DYN_MODULE]}, {'sources': [gen.dir_a]},
                    {'sources': [gen.dir_a], 'dyn_modules': [DYN_MODULE]}, {'sources': [gen.dir_a], 'dyn_modules': None}):
            recfg += [Req('configure', (cfg,), kind='configure', neutral=False), Req('assist', dyn, kind='assist'),
                      Req('assist', ASSIST_SOURCES[0] + (gen.fn(),), kind='assist')]
        reals = runner.run_seq(recfg, fresh=True, label=' (reconfigure, same roots)')
        if len(reals) == len(recfg) and reals[1][0] == 'ret' and same(reals[1], reals[4]):
            check.fail('configure with other dyn_modules did not replace the project (same completions with and without run-time '
                       'introspection of %s)' % DYN_MODULE, replayable(root, recfg, True))

        # 1. every catalogued value / raise / unserialisable result once, with a probe after each failure
        cat = [Req('configure', ({'sources': [gen.dir_a]},), kind='configure', neutral=False), Req('eval', (COUNTER_RESET,), kind='eval-counter', neutral=False)]
        for code in EVAL_VALUES:
            cat.append(Req('eval', (code,), kind='eval'))
        for code in EVAL_RAISES:
            cat += [Req('eval', (code,), kind='eval-raises', failing=True), Req('eval', (COUNTER_INC,), kind='eval-counter', neutral=False)]
        for code in EVAL_UNSER:
            cat += [Req('eval', (code,), kind='eval-unserialisable', failing=True), Req('eval', (COUNTER_INC,), kind='eval-counter', neutral=False)]
        for srcp in ASSIST_SOURCES:
            cat.append(Req('assist', srcp + (gen.fn(),), kind='assist'))
        for srcp in LOCATION_SOURCES:
            cat.append(Req('location', srcp + (gen.fn(),), kind='location'))
        for s in LINT_SOURCES:
            cat.append(Req('lint', (s, gen.fn(), False), kind='lint'))
        for n in small:
            for _ in range(2):
                cat.append(gen.payload(n))
        cat.append(Req('eval', ('return {(i, str(i)): [i, (i,)] for i in range(2500)}',), kind='payload-dict-2500'))
        for chunk in range(0, len(cat), 40):
            head = [] if chunk == 0 else [cat[0]]
            runner.run_seq(head + cat[chunk:chunk + 40], label=' (catalogue)')
        runner.flush_model()

        # 2. base sequences with a failing request injected at EVERY index
        n_bases = 0
        base = []
        iso_checked = 0
        injected_failed = 0
        gen.sizes = small
        while n_bases < n_target and len(check.failures) < 40:
            n_bases += 1
            prologue = [Req('configure', ({'sources': [gen.dir_a]},), kind='configure', neutral=False),
                        Req('eval', (COUNTER_RESET,), kind='eval-counter', neutral=False)]
            base = prologue + [gen.valid() for _ in range(rng.randrange(4, 11))]
            base_reals = runner.run_seq(base, fresh=(rng.random() < (0.02 if quick else 0.01)), label=' (base)')
            if len(base_reals) != len(base):
                continue
            for idx in range(2, len(base) + 1):
                bad_req = gen.failing()
                seq = base[:idx] + [bad_req] + base[idx:]
                reals = runner.run_seq(seq, label=' (failing request injected at index %d)' % idx)
                if len(reals) != len(seq):
                    continue
                # isolation oracle, independent of the reference: the other replies are what they were without the failing request
                if bad_req.neutral:
                    iso_checked += 1
                    rest = reals[:idx] + reals[idx + 1:]
                    for j, (a, b) in enumerate(zip(rest, base_reals)):
                        if not same(a, b):
                            check.fail('a failing request (%s at index %d) changed the reply to another request (%d): %s instead of %s'
                                       % (bad_req.kind, idx, j, short(a, 160), short(b, 160)), dict(replayable(root, seq, False), index=idx))
                            break
                injected_failed += reals[idx][0] == 'exc'
            runner.flush_model()
        gen.sizes = sizes

        # 2b. big payloads (reply and request direction), each followed by a failing request and a probe
        for n in [x for x in sizes if x > 65536]:
            for rnd in range(1 if quick else 2):
                seq = [Req('configure', ({'sources': [gen.dir_a]},), kind='configure', neutral=False),
                       Req('eval', (COUNTER_RESET,), kind='eval-counter', neutral=False),
                       gen.payload(n), gen.failing(), Req('eval', (COUNTER_INC,), kind='eval-counter', neutral=False),
                       Req('eval', ('return [b"\\x01" * %d, object()]' % n,), kind='unserialisable-big-%d' % n, failing=True),
                       gen.payload(n), Req('eval', (COUNTER_INC,), kind='eval-counter', neutral=False)]
                runner.run_seq(seq, label=' (big payload %d)' % n)
                runner.flush_model()

        # 3. several failing requests in a row, then the server still answers
        burst = [Req('configure', ({'sources': [gen.dir_a]},), kind='configure', neutral=False), Req('eval', (COUNTER_RESET,), kind='eval-counter', neutral=False)]
        for _ in range(60 if quick else 600):
            burst.append(gen.failing())
        burst += [Req('eval', (COUNTER_INC,), kind='eval-counter', neutral=False), Req('assist', ASSIST_SOURCES[0] + (gen.fn(),), kind='assist')]
        runner.run_seq(burst, label=' (burst of failing requests)')
        runner.flush_model()

        # 4. close() ends the process
        last = runner.remote
        if last is not None:
            if not last.alive():
                check.fail('server process was dead before close() (terminated by an earlier request)',
                           replayable(root, burst, False))
            try:
                last.env.close()
            except Exception as e:      # transport error: the server is gone
                check.fail('close() failed in the client: %s: %s' % (type(e).__name__, e), replayable(root, burst, False))
            rc = last.wait_exit(6.0)
            if rc is None:
                check.fail('close() did not end the server process', {'kind': 'close'})
            last.kill()
            runner.remote = None

        # 5. raw streams against `serverRun`: close / EOF / undecodable / wrong shapes / pipelined requests
        cases = stream_cases(um)
        pipe = [um.dumps(('configure', ({'sources': [gen.dir_a]},), {}))]
        pipe_reqs = [Req('configure', ({'sources': [gen.dir_a]},), kind='configure')]
        for k in range(25 if quick else 200):
            rq = gen.failing() if rng.random() < 0.4 else Req('eval', ('return %d' % k,), kind='eval')
            if rq.kind.startswith('unserialisable-big') or not serialisable(rq.plain()):
                rq = Req('eval', ('return object()',), kind='eval-unserialisable', failing=True)
            pipe.append(um.dumps(rq.plain()))
            pipe_reqs.append(rq)
        pipe.append(um.dumps(('close', (), {})))
        stream_reqs, stream_meta = [], []
        for name, msgs, want_rc in cases + [('pipelined', pipe, 0)]:
            rem = Remote()
            runner.stats['servers_started'] += 1
            try:
                if name == 'pipelined':
                    ref = make_reference()
                    trace = [ref_call(ref, rq) for rq in pipe_reqs]
                else:
                    ref = make_reference()
                    trace = []
                    for mb in msgs:
                        if mb is None:
                            break
                        try:
                            dec = um.loads(mb)
                        except Exception:
                            break
                        if isinstance(dec, list) and len(dec) == 3 and dec[0] != 'close':
                            trace.append(ref_call(ref, Req(dec[0], dec[1], dec[2])))
                replies, rc = run_stream(rem, msgs)
            finally:
                rem.kill()
            stream_reqs.append({'op': 'stream', 'msgs': [m.hex() if m is not None else None for m in msgs],
                                'trace': [out_json(o) for o in trace]})
            stream_meta.append((name, msgs, replies, rc, want_rc))
        for (name, msgs, replies, rc, want_rc), m in zip(stream_meta, common.ask_driver(stream_reqs, exe='drv_rpc')):
            runner.stats['requests'] += len(msgs)
            if 'driver_error' in m:
                runner.dis['pairing'].append('driver: %s (%s)' % (m['driver_error'], name))
                continue
            model_rc = None if m['exit'] is None else (1 if m['exit'] in ('crashed', 'unmodelled') else 0)
            if model_rc != rc:
                runner.dis['liveness'].append('stream %s: model exit %r, process return code %r' % (name, m['exit'], rc))
            if [r.hex() for r in replies] != m['replies']:
                runner.dis['pairing'].append('stream %s: %d real replies, %d model replies; first difference at %s'
                                             % (name, len(replies), len(m['replies']),
                                                next((i for i, (a, b) in enumerate(zip([r.hex() for r in replies], m['replies'])) if a != b), 'length')))
            if rc is None:
                check.fail('server process still running after stream %s' % name, {'kind': 'stream', 'name': name, 'msgs': [x.hex() if x is not None else None for x in msgs][:50]})
            elif rc != want_rc:
                check.fail('stream %s: server return code %r, expected %r' % (name, rc, want_rc),
                           {'kind': 'stream', 'name': name, 'msgs': [x.hex() if x is not None else None for x in msgs][:50]})
            if name == 'pipelined':
                # pairing oracle: reply i is the reply to request i
                if len(replies) != len(pipe_reqs):
                    check.fail('pipelined: %d replies for %d requests' % (len(replies), len(pipe_reqs)),
                               {'kind': 'stream', 'name': name, 'msgs': [x.hex() for x in msgs]})
                else:
                    ref = make_reference()
                    for i, (rq, rb) in enumerate(zip(pipe_reqs, replies)):
                        try:
                            res, ok = um.loads(rb)
                            got = ('ret', res) if ok else ('exc', res[1])
                        except Exception as e:
                            got = ('client-error', '%s: %s' % (type(e).__name__, e))
                        want = expect(ref_call(ref, rq), rq.name)
                        if not same(got, want):
                            check.fail('pipelined: reply %d does not belong to request %d (%s): %s, expected %s'
                                       % (i, i, rq.kind, short(got, 160), short(want, 160)), {'kind': 'stream', 'name': name, 'msgs': [x.hex() for x in msgs]})
                            break

        for stream in ('replies', 'liveness', 'pairing'):
            d = runner.dis[stream]
            check.oblige('correspondence %s (model %s = real server)' % (stream, {
                'replies': 'session/serverApi on the in-process trace',
                'liveness': 'exit state',
                'pairing': 'serverRun reply stream, byte for byte,'}[stream]), not d, '; '.join(d[:5]))
        # on a broken correspondence: the divergent sequences are the first candidates of the search — they already ran through
        # the oracle above (run_seq compares every reply with the in-process result), so nothing more to start from.

        st = runner.stats
        check.cov['evaluations'] = st['requests']
        check.cov['distinct_nontrivial'] = len(runner.adjacent)
        check.cov['rule'] = ('requests sent through a real supp.remote.Environment to a real server.py subprocess and made in-process on an identical '
                             'project; sequences: a fresh-server sequence before any configure, a catalogue of every value/raise/unserialisable '
                             'result with a counter probe after each failure, random base sequences over {configure, assist, location, lint, eval} '
                             '(positional, keyword and bytes-source forms, payloads %s bytes) with one failing request (unknown method, wrong '
                             'arity/keywords, cursor out of range, bad position, None source, bad configure, eval raising / unserialisable / syntax '
                             'error / state change then raise) injected at every index, a burst of failing requests, close(), raw streams. '
                             'non-trivial = distinct (failing request, request answered right after it) pairs' % sizes)
        check.extra.update({'requests': st['requests'], 'failing_requests': st['failing_requests'], 'sequences': st['sequences'],
                            'base_sequences': n_bases, 'isolation_comparisons_with_base_run': iso_checked, 'injected_requests_reported_as_exception': injected_failed,
                            'driver_s': round(runner.driver_s, 1), 'remote_s': round(runner.remote_s, 1), 'inproc_s': round(runner.inproc_s, 1),
                            'request_kinds': st['kinds'], 'remote_outcomes': st['remote_outcomes'],
                            'model_hypotheses_true': st['model_hypotheses'], 'liveness_probes': st['liveness_probes'],
                            'max_payload_bytes': st['max_payload_bytes'], 'servers_started': st['servers_started'],
                            'raw_streams': [n for n, _, _, _, _ in stream_meta],
                            'disagreements': {k: len(v) for k, v in runner.dis.items()}})
        for r in first[:2] + base[-2:] + burst[5:7]:
            check.sample({'request': short(r.plain(), 200).replace(root, ROOT_MARK)})
        check.assumptions += [
            'the connection (AF_UNIX socket, multiprocessing.connection framing) delivers every message whole and in order; send_bytes on the '
            'server does not fail; conn.poll timing, process scheduling and logging are not modelled — the subprocess runs are testing, not proof',
            'the in-process API is a parameter of the model (any function that returns or raises and may change any state); exceptions that are '
            'not subclasses of Exception (SystemExit, KeyboardInterrupt raised by evaluated code) are outside it',
            'arguments are in the MessagePack data model (reqOK); a result is either in the data model or refused by dumps (resOK) — both '
            'evaluated by the driver on every request of every run (counts in model_hypotheses_true)',
            'position arguments that are not sequences, keyword-argument calls, undecodable bytes sources go to the abstract Lib.other of the '
            'model (their outcome is taken from the in-process trace)',
        ]
        check.trusted += ['the in-process reference in harness/c15.py (class Server: the five calls made directly on supp.project/assistant/linter, '
                          'eval as def boo(): ... exec) and its normalisation (tuples->lists, lint entries [:4], str(e))',
                          'C14 theorems (dumps/loads round trip) and the C14 correspondence for the byte level']
    finally:
        if runner and runner.remote:
            runner.remote.kill()
        shutil.rmtree(root, ignore_errors=True)


# ----------------------------------------------------------------------------- replay

def replay(path):
    data = json.load(open(path))
    import_repo()
    still = 0
    for item in data.get('failing_inputs', []):
        rp = item['replay']
        if rp.get('kind') != 'sequence':
            print('replay: %s (kind %s): re-run ./check C15 to re-examine raw streams' % (item['what'][:200], rp.get('kind')))
            still += 1
            continue
        root = tempfile.mkdtemp(prefix='c15-replay-')
        rem = None
        try:
            make_dirs(root, {'pa': DIR_A, 'pb': DIR_B})
            seq = []
            for s in rp['requests']:
                name, args, kwargs = ast.literal_eval(s.replace(ROOT_MARK, root))
                seq.append(Req(name, args, kwargs))
            rem = Remote()
            ref = make_reference()
            failed = False
            for i, rq in enumerate(seq):
                want = expect(ref_call(ref, rq), rq.name)
                real = rem.call(rq)
                ok = real[0] != 'client-error' and same(real, want)
                alive = rem.alive()
                print('  [%d] %s -> remote %s | in-process %s%s%s' % (i, short(rq.plain(), 100), short(real, 120), short(want, 120),
                                                                   '' if ok else '   <-- DIFFERS', '' if alive else '   <-- SERVER DEAD'))
                if not ok or not alive:
                    failed = True
                if not alive:
                    break
            print('replay: %s: %s' % (item['what'][:200], 'STILL FAILS' if failed else 'passes now'))
            still += failed
        finally:
            if rem:
                rem.kill()
            shutil.rmtree(root, ignore_errors=True)
    for b in data.get('no_longer_checks', []):
        print('replay: obligation that no longer checks: %s' % b[:300])
    return 1 if still or data.get('no_longer_checks') else 0
