"""C07 — module resolution agrees with Python's import system.

tie    : translator (SUFFIXES / SOURCE_SUFFIXES / literals -> Generated/Fs.lean, decide-lemmas re-checked)
         + correspondence: model getModule / normPackage / listPackages / splitPkg / joinPkg vs the real
         Project.get_module / norm_package / list_packages / assist on generated directory trees
search : the real code against importlib.machinery.PathFinder (step by step, nothing is imported),
         importlib.util.resolve_name and pkgutil.iter_modules on the same trees
"""
import contextlib
import importlib
import importlib.machinery
import importlib.util
import itertools
import json
import os
import pkgutil
import re
import shutil
import sys
import tempfile
import types

from . import common
from .common import REPO

sys.path.insert(0, os.path.join(common.VERIF, 'translators'))
import tr_fs  # noqa: E402

SPLIT_ID = 'C07-split-package'
SPLIT_CLASS = ("the dotted name's parent package is found by importlib in an earlier root than the one "
               "where supp finds the full path")
EXT_ID = 'C07-extension-next-to-source'
EXT_CLASS = ('supp selects the source (or bytecode) file of a module while an extension-suffix file of the same module '
             'name exists in the same directory, which importlib loads')
T = 'T'                      # canonical name of the temporary base directory in model paths / evidence
EXT = list(importlib.machinery.EXTENSION_SUFFIXES)
ALL_SUFFIXES = list(importlib.machinery.all_suffixes())
POOL = ['pk', 'pa', 'mod', 'sub', 'deep', 'util', 'core', 'x1', 'json', 'os', 'email']
STDLIB_NAMES = ['os', 'os.path', 'json', 'json.decoder', 'json.nope', 'jsonx', 'email.mime.text', 'email.mime',
                'xml.dom.minidom', 'collections.abc', 'collections.abcd', 'math', 'sys', 'itertools', '_struct',
                'select', 'supp', 'supp.project', 'supp.nope', 'harness', 'harness.common', 'tr_fs', 'os.nope',
                'posixpath', 'encodings.utf_8', 'pkgutil', 'importlib.machinery', 'importlib.util.x']
STDLIB_ROOTS = ['json', 'email', 'email.mime', 'xml.dom', 'collections', 'supp', 'importlib', 'os', 'nope.nope']


# ----------------------------------------------------------------------------- trees

def gen_tree(rng, n_roots, quirky, force_deep):
    """-> (files, dirs): relative paths (lists of components) under the temp base; roots are r1..rn"""
    files, dirs = set(), set()

    def add_file(comps):
        files.add(tuple(comps))
        for i in range(1, len(comps)):
            dirs.add(tuple(comps[:i]))

    def fill(d, depth, top):
        names = rng.sample(POOL, rng.randint(2, 4) if top else rng.randint(1, 3))
        for nm in names:
            r = rng.random()
            if r < 0.40:
                add_file(d + [nm + '.py'])
            elif r < 0.75 and depth < 4:
                add_file(d + [nm, '__init__.py'])
                fill(d + [nm], depth + 1, False)
            elif r < 0.90:
                add_file(d + [nm + rng.choice(EXT)])
            else:
                add_file(d + [nm + '.pyc'])
            if quirky and rng.random() < 0.35:
                q = rng.randrange(9)
                if q == 0:      # PEP 420 namespace directory holding a module
                    add_file(d + [nm + 'ns', rng.choice(POOL) + '.py'])
                elif q == 1:    # module file next to a package directory of the same name
                    add_file(d + [nm + 'c.py'])
                    add_file(d + [nm + 'c', '__init__.py'])
                    add_file(d + [nm + 'c', 'in.py'])
                elif q == 2:    # source next to an extension of the same name
                    add_file(d + [nm + 'e.py'])
                    add_file(d + [nm + 'e' + rng.choice(EXT)])
                elif q == 3:    # a directory called like a module file
                    add_file(d + [nm + 'd.py', 'z.py'])
                elif q == 4:    # extension-only / bytecode-only package
                    add_file(d + [nm + 'x', '__init__' + rng.choice(EXT + ['.pyc'])])
                    add_file(d + [nm + 'x', 'in.py'])
                elif q == 5:    # package with both a source and an extension __init__
                    add_file(d + [nm + 'b', '__init__.py'])
                    add_file(d + [nm + 'b', '__init__' + rng.choice(EXT)])
                elif q == 6:    # empty directory
                    dirs.add(tuple(d + [nm + 'empty']))
                elif q == 7:    # a non-package directory between packages
                    add_file(d + [nm + 'gap', 'inner', '__init__.py'])
                    add_file(d + [nm + 'gap', 'inner', 'm.py'])
                else:           # files without a module suffix
                    add_file(d + [nm + '.txt'])
                    add_file(d + ['README'])

    for i in range(n_roots):
        root = ['r%d' % (i + 1)]
        dirs.add(tuple(root))
        fill(root, 1, True)
        if quirky and rng.random() < 0.15:
            add_file(root + ['__init__.py'])      # the root itself looks like a package directory
    if force_deep:
        r = ['r%d' % rng.randint(1, n_roots)]
        chain = ['pk', 'sub', 'deep', 'core']
        for i in range(1, 5):
            add_file(r + chain[:i] + ['__init__.py'])
        add_file(r + chain + ['x1.py'])
        add_file(r + chain[:2] + ['util.py'])
        # in-domain repair: a module file `pk.py`/`sub.py`... next to the forced package would be a clash
        for i in range(1, 5):
            for s in ALL_SUFFIXES:
                files.discard(tuple(r + chain[:i - 1] + [chain[i - 1] + s]))
    if n_roots >= 2 and not quirky and rng.random() < 0.5:
        # the same package in two roots with different children (the split-package situation)
        add_file(['r1', 'pk', '__init__.py'])
        add_file(['r2', 'pk', '__init__.py'])
        add_file(['r2', 'pk', 'only2.py'])
        add_file(['r1', 'pk', 'only1.py'])
        for rr in ('r1', 'r2'):
            for s in ALL_SUFFIXES:
                files.discard((rr, 'pk' + s))
    # a path that is a file cannot also be a directory
    files = set(f for f in files if f not in dirs)
    return sorted(files), sorted(dirs)


def materialise(base, files, dirs):
    for d in dirs:
        os.makedirs(os.path.join(base, *d), exist_ok=True)
    for f in files:
        p = os.path.join(base, *f)
        os.makedirs(os.path.dirname(p), exist_ok=True)
        with open(p, 'w'):
            pass


def strip_module_suffix(fn):
    """file name -> module name if it ends with a module suffix (longest suffix, as inspect.getmodulename)"""
    best = None
    for s in ALL_SUFFIXES:
        if fn.endswith(s) and len(fn) > len(s) and (best is None or len(s) > len(best)):
            best = s
    return fn[:-len(best)] if best else None


def tree_names(files, dirs, rng):
    """dotted names worth asking for: every file-backed module / package / directory, cross products of
    parents and children over all roots, misspelt and absent names"""
    names, pkgs, children = set(), set(), {}
    for f in files:
        rel = list(f[1:])
        if not rel:
            continue
        m = strip_module_suffix(rel[-1])
        if m is None:
            continue
        comps = rel[:-1] + ([m] if m != '__init__' else [])
        if comps and all(c and '.' not in c for c in comps):
            names.add('.'.join(comps))
            if m == '__init__':
                pkgs.add('.'.join(comps))
            else:
                children.setdefault('.'.join(comps[:-1]), set()).add(m)
    for d in dirs:
        rel = list(d[1:])
        if rel and all(c and '.' not in c for c in rel):
            names.add('.'.join(rel))
            children.setdefault('.'.join(rel[:-1]), set()).add(rel[-1])
    for parent, cs in list(children.items()):
        for c in cs:
            names.add((parent + '.' + c) if parent else c)
    base = sorted(names)
    extra = set(['nope', 'pk.nope', 'nope.pk', 'mod.x', 'pk.sub.deep.core.x1.y', 'PK', 'pk.Sub'])
    for n in rng.sample(base, min(len(base), 8)):
        i = rng.randrange(len(n))
        extra.add(n[:i] + rng.choice('qz_') + n[i + 1:])       # one character replaced
        extra.add(n + 'x')
        extra.add(n + '.nope')
        if len(n) > 1:
            extra.add(n[:-1])
    extra = set(e for e in extra if valid_name(e))
    return base, sorted(extra - names), sorted(pkgs)


def valid_name(n):
    return bool(n) and all(c and '/' not in c for c in n.split('.'))


# ----------------------------------------------------------------------------- environment

def norm_sys_path():
    out = []
    for p in sys.path:
        if isinstance(p, str):
            a = os.path.abspath(p or '.')
            if a not in out:
                out.append(a)
    return out


@contextlib.contextmanager
def sys_path_as(entries):
    old = sys.path[:]
    sys.path[:] = list(entries)
    importlib.invalidate_caches()
    try:
        yield
    finally:
        sys.path[:] = old


def comps_of(path, base):
    """absolute normalised path -> model path; the temp base becomes the single component T"""
    if path == base or path.startswith(base + '/'):
        rest = path[len(base):].strip('/')
        return [T] + ([c for c in rest.split('/')] if rest else [])
    return [c for c in path.strip('/').split('/')] if path.strip('/') else []


def canon_path(path, base):
    return '/'.join(comps_of(path, base)) if isinstance(path, str) else path


def snapshot_entry(entry, first_comps, budget=6000):
    """partial but sufficient view of one sys.path entry: its own listing, `__init__*` of its
    sub-directories, and the full sub-tree of the directories named by `first_comps`"""
    files, dirs = [], []
    try:
        names = sorted(os.listdir(entry))
    except OSError:
        return files, dirs
    e = [c for c in entry.strip('/').split('/')]
    dirs.append(e)
    for n in names:
        p = os.path.join(entry, n)
        if os.path.isdir(p):
            dirs.append(e + [n])
            for s in ALL_SUFFIXES:
                if os.path.isfile(os.path.join(p, '__init__' + s)):
                    files.append(e + [n, '__init__' + s])
            if n in first_comps:
                for dp, dn, fn in os.walk(p):
                    dn[:] = sorted(x for x in dn if x != '__pycache__')
                    rel = [c for c in dp.strip('/').split('/')]
                    dirs.append(rel)
                    for f in sorted(fn):
                        files.append(rel + [f])
                        budget -= 1
                    if budget < 0:
                        raise common.Infra('sys.path snapshot too large under ' + p)
        else:
            files.append(e + [n])
    return files, dirs


class Env(object):
    """one materialised tree + one order of the source roots + one sys.path"""

    def __init__(self, supp, base, roots, syspath):
        self.supp, self.base, self.syspath = supp, base, list(syspath)
        self.roots = [os.path.join(base, r) for r in roots]
        self.path = self.roots + self.syspath
        self.project = supp['Project'](list(self.roots))

    def root_index(self, filename):
        if not isinstance(filename, str):
            return None
        for i, r in enumerate(self.path):
            if filename.startswith(r.rstrip('/') + '/'):
                return i
        return None

    # -- the real code
    def get_module(self, name, nfile=None):
        pm, cap, added = self.supp['project_mod'], {}, []
        code = pm.Project.get_module.__code__

        def prof(frame, event, arg):
            if event == 'return' and frame.f_code is code:
                cap['filename'] = frame.f_locals.get('filename')

        def fake_import(n, *a, **k):          # records instead of importing (never runs generated files)
            cap['imported'] = n
            if n not in sys.modules:
                sys.modules[n] = types.ModuleType(n)
                added.append(n)
            return sys.modules[n]

        pm.__import__ = fake_import           # a module global shadows the builtin inside supp.project only
        sys.setprofile(prof)
        try:
            try:
                pr = self.supp['Project'](list(self.roots))                   # fresh: the cache-free search
                m = pr.get_module(name) if nfile is None else pr.get_nmodule(name, nfile)
            except ImportError:
                return {'err': 'ImportError'}
            except Exception as e:  # noqa
                return {'err': type(e).__name__}
            finally:
                sys.setprofile(None)
        finally:
            del pm.__import__
            for n in added:
                sys.modules.pop(n, None)
        if isinstance(m, self.supp['SourceModule']):
            return {'file': m.filename, 'src': True}
        if cap.get('filename'):
            return {'file': cap['filename'], 'src': False}
        return {'loaded': True}

    def norm_package(self, rel, filename):
        try:
            return {'ok': self.project.norm_package(rel, filename)}
        except ImportError:
            return {'err': 'ImportError'}
        except Exception as e:  # noqa
            return {'err': type(e).__name__}

    def list_packages(self, root):
        try:
            return {'ok': sorted(self.project.list_packages(root))}
        except Exception as e:  # noqa
            return {'err': type(e).__name__}

    def assist(self, line, filename):
        try:
            prefix, props = self.supp['assist'](self.project, line, (1, len(line)), filename)
            return {'ok': sorted(props)}
        except ImportError:
            return {'err': 'ImportError'}
        except Exception as e:  # noqa
            return {'err': type(e).__name__}

    # -- the oracle (importlib; nothing is imported)
    def oracle_find(self, name):
        """-> {'file': origin, 'pkg': bool, 'locations': [...]} | {'ns': [...]} | None
        PathFinder step by step; nothing is imported.  A namespace package below the top level makes importlib
        look at sys.modules[parent].__path__: a placeholder parent is put there for the duration of the call."""
        comps = name.split('.')
        search = self.path
        spec = None
        saved = {}
        try:
            for i in range(len(comps)):
                full = '.'.join(comps[:i + 1])
                if i > 0:
                    parent = '.'.join(comps[:i])
                    saved[parent] = sys.modules.get(parent)
                    ph = types.ModuleType(parent)
                    ph.__path__ = search
                    sys.modules[parent] = ph
                try:
                    spec = importlib.machinery.PathFinder.find_spec(full, search)
                except (ImportError, ValueError):
                    return None
                if spec is None:
                    return None
                if i + 1 < len(comps):
                    if spec.submodule_search_locations is None:
                        return None
                    search = locations(spec)
            if spec.origin is None or spec.loader is None or not spec.has_location:
                return {'ns': locations(spec)}
            locs = spec.submodule_search_locations
            return {'file': spec.origin, 'pkg': locs is not None, 'locations': list(locs) if locs is not None else None}
        finally:
            for k, v in saved.items():
                if v is None:
                    sys.modules.pop(k, None)
                else:
                    sys.modules[k] = v

    def loaded(self, name):
        return name in sys.modules or any(k.startswith(name + '.') for k in list(sys.modules))


def locations(spec):
    locs = spec.submodule_search_locations
    raw = getattr(locs, '_path', None)        # a _NamespacePath would re-scan sys.path when iterated
    return list(raw) if raw is not None else list(locs or [])


def file_package(filename):
    """the dotted chain of __init__.py ancestors of a file (independent of supp)"""
    d = os.path.dirname(filename)
    parts = []
    while d != '/' and os.path.exists(os.path.join(d, '__init__.py')):
        parts.insert(0, os.path.basename(d))
        d = os.path.dirname(d)
    return '.'.join(parts)


def oracle_resolve(rel, pkg):
    try:
        return {'ok': importlib.util.resolve_name(rel, pkg)}
    except ImportError:
        return {'err': 'ImportError'}
    except Exception as e:  # noqa
        return {'err': type(e).__name__}


def oracle_children(dirs_):
    try:
        return sorted(set(m.name for m in pkgutil.iter_modules(list(dirs_))))
    except Exception as e:  # noqa
        return {'err': type(e).__name__}


# ----------------------------------------------------------------------------- judgements on the real code

def find_verdict(env, name):
    """real get_module vs importlib for one name -> (agree?, supp, oracle)"""
    s, o = env.get_module(name), env.oracle_find(name)
    if 'file' in s:
        ok = bool(o) and o.get('file') == s['file']
    elif 'loaded' in s:
        ok = (o is None or 'ns' in o) and name in sys.modules
    elif s.get('err') == 'ImportError':
        ok = o is None
    else:
        ok = False
    return ok, s, o


def is_split(env, name, supp_res):
    """the deterministic classifier of the recorded finding C07-split-package: supp finds the full dotted path
    in root i, and the parent package -- the nearest enclosing package importlib can find at all -- is found by
    importlib in an earlier root j < i"""
    if not isinstance(supp_res, dict) or 'file' not in supp_res or '.' not in name:
        return False
    i = env.root_index(supp_res['file'])
    if i is None:
        return False
    anc = name.rpartition('.')[0]
    while anc:
        parent = env.oracle_find(anc)
        if parent:
            where = parent.get('file') or ((parent.get('ns') or [None])[0])
            if where is None:
                return False
            j = env.root_index(where if 'file' in parent else where + '/')
            return j is not None and j < i
        anc = anc.rpartition('.')[0]
    return False


def is_ext_next_to_source(supp_res, oracle_res):
    """the deterministic classifier of the recorded finding C07-extension-next-to-source: supp selects the source
    (or bytecode) file `d/m<.py|.pyc>` and importlib loads an extension file `d/m<ext suffix>` of the same module
    name in the same directory"""
    if not isinstance(supp_res, dict) or not isinstance(oracle_res, dict) or 'file' not in supp_res or 'file' not in oracle_res:
        return False
    sf, of = supp_res['file'], oracle_res['file']
    if os.path.dirname(sf) != os.path.dirname(of):
        return False
    nonext = list(importlib.machinery.SOURCE_SUFFIXES) + list(importlib.machinery.BYTECODE_SUFFIXES)
    for a in nonext:
        for b in EXT:
            if sf.endswith(a) and of.endswith(b) and os.path.basename(sf)[:-len(a)] == os.path.basename(of)[:-len(b)]:
                return True
    return False


def canon_res(r, base):
    if isinstance(r, dict):
        return {k: (canon_path(v, base) if k in ('file',) else
                    [canon_path(x, base) for x in v] if k in ('ns', 'locations') and v is not None else v)
                for k, v in r.items()}
    return r


def model_get(r, base):
    """driver reply -> the shape of Env.get_module"""
    m = r['model']
    if m == 'ImportError':
        return {'err': 'ImportError'}
    if m == 'loaded':
        return {'loaded': True}
    return {'file': '/'.join(m['found']), 'src': m['src']}


# ----------------------------------------------------------------------------- the check

def load_supp():
    for k in [k for k in sys.modules if k == 'supp' or k.startswith('supp.')]:
        del sys.modules[k]
    sys.path.insert(0, REPO)
    import logging
    logging.getLogger('supp.import').disabled = True
    import supp.project as pm
    import supp.module as mm
    import supp.util as um
    import supp.assistant as am
    return {'project_mod': pm, 'Project': pm.Project, 'SourceModule': mm.SourceModule, 'ImportedModule': mm.ImportedModule,
            'split_pkg': um.split_pkg, 'join_pkg': um.join_pkg, 'assist': am.assist}


def blob(kind, tree_desc, **kw):
    """machine-readable description of a correspondence disagreement (re-run by `replay`)"""
    return ' REPLAY' + json.dumps(dict(kw, kind=kind, tree=tree_desc), sort_keys=True)


def ext_matcher(what, replay):
    return bool(replay.get('ext_class')) and bool(replay.get('model_equals_supp'))


def split_matcher(what, replay):
    return bool(replay.get('split_class')) and bool(replay.get('model_equals_supp'))


def run_tree(check, supp, stats, spec, quick, tree_no):
    """one generated tree: all root orders; returns nothing, reports through check/stats"""
    rng = check.rng
    files, dirs = spec['files'], spec['dirs']
    base = os.path.realpath(tempfile.mkdtemp(prefix='c07-'))
    for anc in (base, os.path.dirname(base)):
        if os.path.exists(os.path.join(anc, '__init__.py')):
            raise common.Infra('an __init__.py above the temporary directory: ' + anc)
    try:
        materialise(base, files, dirs)
        n_roots = spec['n_roots']
        rootnames = ['r%d' % (i + 1) for i in range(n_roots)]
        names, bad_names, pkgs = tree_names(files, dirs, rng)
        fs_files = [[T] + list(f) for f in files]
        fs_dirs = [[T]] + [[T] + list(d) for d in dirs]
        full = spec.get('full_sys_path')
        syspath = stats['syspath_full'] if full else stats['syspath_small']
        if full:
            firsts = set(n.split('.')[0] for n in STDLIB_NAMES + STDLIB_ROOTS)
            for e in syspath:
                f2, d2 = snapshot_entry(e, firsts)
                fs_files += f2
                fs_dirs += d2
        else:
            for e in syspath:
                f2, d2 = snapshot_entry(e, ())
                fs_files += f2
                fs_dirs += d2
        perms = list(itertools.permutations(rootnames))
        if full:
            perms = perms[:1]
        all_files = [os.path.join(base, *f) for f in files]
        with sys_path_as(syspath):
            sysmods = sorted(sys.modules)
            groups, plans, pending_all = [], [], []
            for pi, perm in enumerate(perms):
                env = Env(supp, base, perm, syspath)
                q_names = names + bad_names + [n for n in (STDLIB_NAMES if full else []) if n not in names and n not in bad_names]
                q_roots = [''] + pkgs + ['nope', 'mod', 'pk.nope'] + (STDLIB_ROOTS if full else [])
                q_roots = sorted(set(q_roots))
                qs = [{'q': 'get', 'name': n} for n in q_names] + [{'q': 'list', 'root': r} for r in q_roots]
                rels, asst, ngets = [], [], []
                if pi == 0:
                    for fn in all_files:
                        depth = len(fn[len(base):].strip('/').split('/')) - 1
                        for lvl in range(1, depth + 2):
                            for tail in ('', 'x', 'sub.y'):
                                rels.append((fn, '.' * lvl + tail))
                        rels.append((fn, 'abs.name'))
                    for fn in rng.sample(all_files, min(len(all_files), 6)):
                        for line in ('from .', 'from ..', 'from .sub.', 'import pk.', 'from pk.', 'from pk.sub.', 'import ',
                                     'from ...', 'import nope.', 'from nope.', 'from\tpk.', '  from  .'):
                            asst.append((fn, line))
                        for nm in ('.x1', '..util', 'pk', '.', '...nope'):
                            ngets.append((fn, nm))
                qs += [{'q': 'norm', 'file': comps_of(fn, base), 'rel': rel} for fn, rel in rels]
                qs += [{'q': 'nget', 'name': nm, 'file': comps_of(fn, base)} for fn, nm in ngets]
                qs += [{'q': 'alist', 'root': assist_root(supp, line), 'file': comps_of(fn, base)} for fn, line in asst]
                groups.append({'roots': [comps_of(p, base) for p in env.path], 'sysmods': sysmods, 'queries': qs})
                plans.append((env, perm, q_names, q_roots, rels, asst, ngets))
            reply = common.ask_driver([{'op': 'tree', 'files': fs_files, 'dirs': fs_dirs, 'groups': groups}], exe='drv_fs')[0]
            if 'r' not in reply:
                raise common.Infra('driver: %r' % (reply,))
            for (env, perm, q_names, q_roots, rels, asst, ngets), answers in zip(plans, reply['r']):
                tree_desc = {'files': ['/'.join(f) for f in files], 'dirs': ['/'.join(d) for d in dirs], 'roots': list(perm),
                             'sys_path': 'full' if full else 'small'}
                a_get = answers[:len(q_names)]
                a_list = answers[len(q_names):len(q_names) + len(q_roots)]
                n0 = len(q_names) + len(q_roots)
                a_norm = answers[n0:n0 + len(rels)]
                a_nget = answers[n0 + len(rels):n0 + len(rels) + len(ngets)]
                a_asst = answers[n0 + len(rels) + len(ngets):]
                # ---- get_module
                for name, r in zip(q_names, a_get):
                    stats['evaluations'] += 1
                    ok, s, o = find_verdict(env, name)
                    cs, co, m = canon_res(s, base), canon_res(o, base), model_get(r, base)
                    if cs != m:
                        stats['dis_get'] += 1
                        if stats['dis_get'] <= 5:
                            check.oblige('correspondence get_module', False,
                                         'name %r roots %r: supp %r, model %r' % (name, perm, cs, m) + blob('get', tree_desc, name=name))
                    in_dom = r['valid'] and r['nons'] and r['noclash'] and r['regular']
                    for k in ('valid', 'nons', 'noclash', 'noext', 'regular', 'nosplit'):
                        stats['hyp'][k] += 1 if r[k] else 0
                    stats['hyp']['n'] += 1
                    kind = 'file-src' if s.get('src') else 'file-nonsrc' if 'file' in s else 'loaded' if 'loaded' in s else s.get('err')
                    stats['outcomes'][kind] = stats['outcomes'].get(kind, 0) + 1
                    if 'file' in s:
                        stats['distinct'].add((tree_no, perm, name))
                    if not ok:
                        split = is_split(env, name, s)
                        rep = {'kind': 'find', 'tree': tree_desc, 'name': name, 'supp': cs, 'importlib': co, 'model': m,
                               'split_class': split, 'ext_class': is_ext_next_to_source(s, o), 'model_equals_supp': cs == m,
                               'hypotheses': {k: r[k] for k in ('valid', 'nons', 'noclash', 'noext', 'regular', 'nosplit')}}
                        if in_dom:
                            if rep['ext_class']:
                                stats['ext_seen'] += 1
                                stats['ext_noext_flag_false'] += 0 if r['noext'] else 1
                            if split:
                                stats['split_seen'] += 1
                                stats['split_nosplit_flag_false'] += 0 if r['nosplit'] else 1
                            check.fail('get_module(%r) = %r but importlib finds %r' % (name, cs, co), rep)
                        else:
                            why = [k for k in ('valid', 'nons', 'noclash', 'regular') if not r[k]]
                            stats['out_of_domain']['find:' + '+'.join(why)] = stats['out_of_domain'].get('find:' + '+'.join(why), 0) + 1
                    elif in_dom and r['nosplit'] and r['noext']:
                        stats['in_domain_agree'] += 1
                    # spec side of the model against importlib as well (keeps the Lean spec honest)
                    sp = r['spec']
                    spf = None if sp is None else ('/'.join(sp['file']) if 'file' in sp else 'ns')
                    of = None if co is None else (co.get('file') if 'file' in co else 'ns')
                    if spf != of:
                        stats['dis_spec'] += 1
                        if stats['dis_spec'] <= 5:
                            check.oblige('correspondence importlibFind (Lean spec) vs PathFinder', False,
                                         'name %r roots %r: spec %r, importlib %r, tree %s' % (name, perm, spf, of, json.dumps(tree_desc)))
                # ---- list_packages
                for root, r in zip(q_roots, a_list):
                    stats['evaluations'] += 1
                    s = env.list_packages(root)
                    if s != {'ok': r['model']}:
                        stats['dis_list'] += 1
                        if stats['dis_list'] <= 5:
                            check.oblige('correspondence list_packages', False,
                                         'root %r roots %r: supp %r, model %r' % (root, perm, s, r['model']) + blob('list', tree_desc, root=root))
                    if 'ok' in s:
                        list_oracle(check, env, base, stats, tree_desc, root, s['ok'], 'list_packages(%r)' % root, r)
                # ---- norm_package
                for (fn, rel), r in zip(rels, a_norm):
                    stats['evaluations'] += 1
                    s = env.norm_package(rel, fn)
                    if s != r['model']:
                        stats['dis_norm'] += 1
                        if stats['dis_norm'] <= 5:
                            check.oblige('correspondence norm_package', False,
                                         'file %r rel %r: supp %r, model %r' % (canon_path(fn, base), rel, s, r['model']) +
                                         blob('norm', tree_desc, file=canon_path(fn, base)[len(T) + 1:], rel=rel))
                    pkg = file_package(fn)
                    o = oracle_resolve(rel, pkg)
                    stats['rel_outcomes']['ok' if 'ok' in s else s['err']] = stats['rel_outcomes'].get('ok' if 'ok' in s else s['err'], 0) + 1
                    stats['hyp']['clean'] += 1 if r['clean'] else 0
                    stats['hyp']['n_rel'] += 1
                    if r['spec'] != o or r['pkg'] != pkg:
                        stats['dis_spec'] += 1
                        if stats['dis_spec'] <= 5:
                            check.oblige('correspondence resolveName/packageOf (Lean spec) vs importlib', False,
                                         'file %r rel %r: spec %r pkg %r, importlib %r pkg %r' % (canon_path(fn, base), rel, r['spec'], r['pkg'], o, pkg))
                    if s != o:
                        if r['clean']:
                            check.fail('norm_package(%r, %s) = %r but resolve_name(%r, %r) = %r' % (rel, canon_path(fn, base), s, rel, pkg, o),
                                       {'kind': 'relative', 'tree': tree_desc, 'file': canon_path(fn, base)[len(T) + 1:], 'rel': rel,
                                        'supp': s, 'importlib': o, 'package': pkg})
                        else:
                            stats['out_of_domain']['relative:gap'] = stats['out_of_domain'].get('relative:gap', 0) + 1
                    elif rel.startswith('.'):
                        stats['distinct'].add((tree_no, canon_path(fn, base), rel))
                # ---- the same files reached through a SYMLINKED package directory: the package of a file is where it is
                # imported from (its path), not where the link points (oracle only: the Fs model has no links)
                if rels:
                    symlink_stage(check, env, base, stats, tree_desc, [(fn, rel) for (fn, rel), r in zip(rels, a_norm) if r['clean']])
                # ---- get_nmodule
                for (fn, nm), r in zip(ngets, a_nget):
                    stats['evaluations'] += 1
                    s = canon_res(env.get_module(nm, nfile=fn), base)
                    m = model_get(r, base)
                    okc = s == m
                    if not okc:
                        stats['dis_get'] += 1
                        stats['dis_nget'] = stats.get('dis_nget', 0) + 1
                        if stats['dis_nget'] <= 5:
                            check.oblige('correspondence get_nmodule', False,
                                         'file %r name %r: supp %r, model %r' % (canon_path(fn, base), nm, s, m) +
                                         blob('nget', tree_desc, file=canon_path(fn, base)[len(T) + 1:], name=nm))
                # ---- assist on import lines
                for (fn, line), r in zip(asst, a_asst):
                    stats['evaluations'] += 1
                    s = env.assist(line, fn)
                    mod = {'ok': r['model']}      # assistant.list_packages: [] when norm_package raises ImportError
                    if s != mod:
                        stats['dis_assist'] += 1
                        if stats['dis_assist'] <= 5:
                            check.oblige('correspondence assist on import lines', False,
                                         'file %r line %r: supp %r, model %r' % (canon_path(fn, base), line, s, mod) +
                                         blob('assist', tree_desc, file=canon_path(fn, base)[len(T) + 1:], line=line))
                    if 'ok' in s and 'ok' in r['norm']:
                        stats['assist_lines'] += 1
                        list_oracle(check, env, base, stats, tree_desc, r['norm']['ok'], s['ok'], 'assist(%r) in %s' % (line, canon_path(fn, base)), r)
                    elif 'ok' in s and s['ok']:
                        check.fail('assist(%r) in %s proposes %r although the relative name is above the top-level package'
                                   % (line, canon_path(fn, base), s['ok']),
                                   {'kind': 'assist-above', 'tree': tree_desc, 'file': canon_path(fn, base)[len(T) + 1:], 'line': line})
                for pnd in stats['pending_list']:
                    if len(pnd) == 6:
                        pending_all.append(pnd + (env, tree_desc))
                stats['pending_list'] = []
            settle_pending(check, stats, base, pending_all, fs_files, fs_dirs, sysmods)
    finally:
        shutil.rmtree(base, ignore_errors=True)
        for k in [k for k in sys.path_importer_cache if k == base or k.startswith(base + '/')]:
            del sys.path_importer_cache[k]


def symlink_stage(check, env, base, stats, tree_desc, clean_rels):
    done = 0
    seen_dirs = set()
    for fn, rel in clean_rels:
        d = os.path.dirname(fn)
        if d in seen_dirs or not os.path.exists(os.path.join(d, '__init__.py')) or os.path.dirname(d) == base:
            continue
        seen_dirs.add(d)
        link = os.path.join(os.path.dirname(d), 'zqlnk')
        if os.path.lexists(link):
            continue
        try:
            os.symlink(os.path.basename(d), link)        # relative link to the sibling directory
        except OSError:
            return
        try:
            for fn2, rel2 in clean_rels:
                if os.path.dirname(fn2) != d:
                    continue
                alias = os.path.join(link, os.path.basename(fn2))
                s = env.norm_package(rel2, alias)
                pkg = file_package(alias)
                o = oracle_resolve(rel2, pkg)
                stats['evaluations'] += 1
                stats['symlink_queries'] = stats.get('symlink_queries', 0) + 1
                if s != o:
                    check.fail('norm_package(%r, %s) = %r but resolve_name(%r, %r) = %r (file reached through a symlinked package directory)'
                               % (rel2, canon_path(alias, base), s, rel2, pkg, o),
                               {'kind': 'relative-symlink', 'tree': tree_desc, 'link': canon_path(link, base)[len(T) + 1:],
                                'target': os.path.basename(d), 'file': canon_path(alias, base)[len(T) + 1:], 'rel': rel2,
                                'supp': s, 'importlib': o, 'package': pkg})
        finally:
            os.unlink(link)
        done += 1
        if done >= 2:
            break


def assist_root(supp, line):
    """the package whose children `assist` lists for an import line ending at the cursor (assistant.py's own
    string manipulations, re-done here only to know which model query to ask; the result is compared)"""
    from_module = re.match(r'\s*from\s+([\w.]*)$', line)
    if from_module:
        package, sep, prefix = from_module.group(1).rpartition('.')
        if (not package or package.startswith('.')) and sep:
            package += '.'
        return package
    name = line.rpartition(' ')[2]
    return supp['split_pkg'](name)[0] if name else ''


def list_oracle(check, env, base, stats, tree_desc, root, proposals, what, r):
    """proposals ⊇ children importlib can enumerate; proposals ⊆ importable ∪ loaded"""
    root = '.'.join(c for c in root.split('.') if c)     # 'pk.sub.' (from `from .sub.`) means the package pk.sub
    if root:
        o = env.oracle_find(root)
        if o and o.get('locations'):
            dirs_ = o['locations']
        elif o and 'ns' in o:
            dirs_ = o['ns']
        else:
            dirs_ = []
    else:
        dirs_ = env.path
    kids = oracle_children(dirs_)
    if isinstance(kids, dict):
        kids = []
    for k in kids:
        if k not in proposals:
            # out of domain: a child package without __init__.py (extension-only / bytecode-only package)
            src_pkg = any(os.path.isdir(os.path.join(d, k)) and not os.path.exists(os.path.join(d, k, '__init__.py')) for d in dirs_)
            if src_pkg:
                stats['out_of_domain']['list:sourceless-package'] = stats['out_of_domain'].get('list:sourceless-package', 0) + 1
            else:
                check.fail('%s misses %r which pkgutil.iter_modules enumerates' % (what, k),
                           {'kind': 'list', 'tree': tree_desc, 'root': root, 'missing': k, 'proposals': proposals})
    if kids:
        stats['distinct'].add((json.dumps(tree_desc['roots']), tree_desc['files'][0] if tree_desc['files'] else '', 'list', root, what))
    for n in proposals:
        dotted = (root + '.' + n) if root else n
        if not n or '.' in n or '/' in n:
            stats['out_of_domain']['list:odd-name'] = stats['out_of_domain'].get('list:odd-name', 0) + 1
            continue
        if env.oracle_find(dotted) is not None or env.loaded(dotted):
            continue
        s = env.get_module(dotted)
        # domain of the proposal's dotted name: decided later by the model's decidable hypotheses
        stats['pending_list'].append((what, dotted, root, n, canon_res(s, base), is_split(env, dotted, s)))


def settle_pending(check, stats, base, pend, fs_files, fs_dirs, sysmods):
    """proposals that are neither importable nor loaded: in the domain of the name -> failing input"""
    if not pend:
        return
    envs = []
    for p in pend:
        if not any(p[6] is e for e in envs):
            envs.append(p[6])
    groups = [{'roots': [comps_of(x, base) for x in e.path], 'sysmods': sysmods,
               'queries': [{'q': 'get', 'name': p[1]} for p in pend if p[6] is e]} for e in envs]
    rep = common.ask_driver([{'op': 'tree', 'files': fs_files, 'dirs': fs_dirs, 'groups': groups}], exe='drv_fs')[0]['r']
    for e, answers in zip(envs, rep):
        for (what, dotted, root, n, s, split, _env, tree_desc), r in zip([p for p in pend if p[6] is e], answers):
            in_dom = r['valid'] and r['nons'] and r['noclash'] and r['regular']
            if not in_dom:
                why = [k for k in ('valid', 'nons', 'noclash', 'regular') if not r[k]]
                key = 'list-proposal:' + '+'.join(why)
                stats['out_of_domain'][key] = stats['out_of_domain'].get(key, 0) + 1
                continue
            if split:
                stats['split_seen'] += 1
            check.fail('%s proposes %r which is neither importable nor loaded' % (what, n),
                       {'kind': 'list', 'tree': tree_desc, 'root': root, 'proposal': n, 'supp': s, 'importlib': None,
                        'model': model_get(r, base), 'split_class': split, 'model_equals_supp': s == model_get(r, base)})


def run(check):
    quick = check.tier == 'quick'
    rng = check.rng
    # 1. translate
    try:
        changed = common.regen(tr_fs.REL, tr_fs.translate(REPO))
        check.oblige('translator tr_fs (project.py SUFFIXES/SOURCE_SUFFIXES/literals -> Generated/Fs.lean)', True)
        check.extra['generated_changed'] = changed
    except tr_fs.Untranslatable as e:
        check.oblige('translator tr_fs (project.py SUFFIXES/SOURCE_SUFFIXES/literals -> Generated/Fs.lean)', False,
                     'source shape not recognised: %s' % e)
    except Exception as e:  # noqa
        check.oblige('translator tr_fs (project.py SUFFIXES/SOURCE_SUFFIXES/literals -> Generated/Fs.lean)', False, repr(e))
    # 2. prove
    check.prove(extra_targets=('drv_fs',))
    for k in check.known:
        if k.get('id') == SPLIT_ID:
            k['_matcher'] = split_matcher
        if k.get('id') == EXT_ID:
            k['_matcher'] = ext_matcher

    try:
        supp = load_supp()
    except Exception as e:  # noqa
        check.oblige('import supp from ' + REPO, False, repr(e))
        return
    # the generated tables are the ones the loaded module uses
    tables = common.ask_driver([{'op': 'tables'}], exe='drv_fs')[0]
    pm = supp['project_mod']
    check.oblige('generated suffix tables = loaded supp.project tables',
                 tables.get('suffixes') == list(pm.SUFFIXES) and tables.get('source_suffixes') == list(pm.SOURCE_SUFFIXES)
                 and tables.get('loader_suffixes') == EXT + list(importlib.machinery.SOURCE_SUFFIXES) + list(importlib.machinery.BYTECODE_SUFFIXES),
                 '' if tables.get('suffixes') == list(pm.SUFFIXES) else 'driver %r, module %r' % (tables.get('suffixes'), pm.SUFFIXES))

    full_path = norm_sys_path()
    small = [p for p in full_path if p.endswith('.zip') or p.endswith('lib-dynload')]
    stats = {'evaluations': 0, 'dis_get': 0, 'dis_list': 0, 'dis_norm': 0, 'dis_assist': 0, 'dis_spec': 0, 'dis_pkg': 0,
             'ext_seen': 0, 'ext_noext_flag_false': 0,
             'hyp': {'valid': 0, 'nons': 0, 'noclash': 0, 'noext': 0, 'regular': 0, 'nosplit': 0, 'n': 0, 'clean': 0, 'n_rel': 0},
             'outcomes': {}, 'rel_outcomes': {}, 'out_of_domain': {}, 'split_seen': 0, 'split_nosplit_flag_false': 0,
             'in_domain_agree': 0, 'distinct': set(), 'assist_lines': 0, 'pending_list': [],
             'syspath_full': full_path, 'syspath_small': small}

    # 3a. split_pkg / join_pkg
    strs = ['', '.', '..', '...', 'a', 'a.b', 'a.b.c', '.a', '..a', '.a.b', '..a.b', 'a.', 'a.b.', '.a.', 'pk.sub.deep', '....x', 'a..b', '..a..b']
    for _ in range(100 if quick else 2000):
        strs.append(''.join(rng.choice('.ab.c') for _ in range(rng.randrange(0, 8))))
    reqs = [{'op': 'splitpkg', 's': s} for s in strs] + [{'op': 'joinpkg', 'a': a, 'b': b} for a in strs[:40] for b in ('', 'x', 'x.y')]
    rep = common.ask_driver(reqs, exe='drv_fs')
    bad = []
    for s, r in zip(strs, rep[:len(strs)]):
        if list(supp['split_pkg'](s)) != r:
            bad.append('split_pkg(%r): supp %r, model %r' % (s, supp['split_pkg'](s), r))
    for (a, b), r in zip([(a, b) for a in strs[:40] for b in ('', 'x', 'x.y')], rep[len(strs):]):
        if supp['join_pkg'](a, b) != r:
            bad.append('join_pkg(%r, %r): supp %r, model %r' % (a, b, supp['join_pkg'](a, b), r))
    stats['evaluations'] += len(reqs)
    check.oblige('correspondence split_pkg / join_pkg', not bad, '; '.join(bad[:5]))

    # 3b. trees
    n_trees = 24 if quick else 400
    specs = []
    for i in range(n_trees):
        n_roots = 1 + i % 3
        quirky = i % 4 == 3
        files, dirs = gen_tree(rng, n_roots, quirky, force_deep=(i % 3 == 0))
        specs.append({'files': files, 'dirs': dirs, 'n_roots': n_roots, 'quirky': quirky, 'full_sys_path': i % 6 == 1})
    # the recorded witness first, then the generated trees
    specs.insert(0, {'files': [('r1', 'pk', '__init__.py'), ('r2', 'pk', '__init__.py'), ('r2', 'pk', 'm2.py')],
                     'dirs': [('r1',), ('r1', 'pk'), ('r2',), ('r2', 'pk')], 'n_roots': 2, 'quirky': False, 'full_sys_path': False})
    specs.insert(1, {'files': [('r1', 'm.abi3.so'), ('r1', 'm.py')], 'dirs': [('r1',)], 'n_roots': 1, 'quirky': False,
                     'full_sys_path': False})
    for i, spec in enumerate(specs):
        run_tree(check, supp, stats, spec, quick, i)

    for name, key in (('get_module (model = Project.get_module: selected file, source flag, loaded, ImportError)', 'dis_get'),
                      ('list_packages (model = Project.list_packages as a set)', 'dis_list'),
                      ('norm_package (model = Project.norm_package, value or exception class)', 'dis_norm'),
                      ('assist on import lines (model = listPackages ∘ normPackage)', 'dis_assist'),
                      ('Lean spec (importlibFind / resolveName / packageOf) = importlib on the same inputs', 'dis_spec')):
        if stats[key] == 0:
            check.oblige('correspondence ' + name, True)

    check.cov['evaluations'] = stats['evaluations']
    check.cov['distinct_nontrivial'] = len(stats['distinct'])
    check.cov['rule'] = ('generated trees (1-3 roots in every order, packages to depth 4, shared names across roots, extension/bytecode '
                         'files, every 4th tree with out-of-domain quirks, every 6th with the full sys.path and stdlib names); per tree and '
                         'root order: every file-backed dotted name, parent x child cross products, misspelt and absent names; every relative '
                         'specifier of level 1..depth+1 x 3 tails from every file; list_packages of every package, "", absent roots; assist on '
                         'import lines. non-trivial = distinct (tree, root order, name) resolved to a file, distinct (file, relative specifier) '
                         'that agreed with resolve_name, distinct list/assist queries with at least one enumerable child')
    check.extra.update({
        'trees': len(specs), 'hypotheses_true_of': stats['hyp'], 'get_module_outcomes': stats['outcomes'],
        'norm_package_outcomes': stats['rel_outcomes'], 'norm_package_through_symlinked_package_dirs': stats.get('symlink_queries', 0), 'out_of_domain_disagreements_with_importlib (observations, not failures)': stats['out_of_domain'],
        'in_domain_names_agreeing_with_importlib': stats['in_domain_agree'], 'split_package_hits': stats['split_seen'],
        'extension_next_to_source_hits': stats['ext_seen'],
        'extension_next_to_source_hits_with_NoExtensionNextToSource_false': stats['ext_noext_flag_false'],
        'split_package_find_hits_with_NoSplitPackage_false': stats['split_nosplit_flag_false'],
        'assist_lines_compared': stats['assist_lines'],
        'disagreements': {k: stats[k] for k in ('dis_get', 'dis_list', 'dis_norm', 'dis_assist', 'dis_spec')},
    })
    for spec in specs[1:3]:
        check.sample({'roots': spec['n_roots'], 'files': ['/'.join(f) for f in spec['files']][:40]})
    check.assumptions += [
        'paths are normalised absolute POSIX paths, module names have non-empty /-free components (the harness generates only such); '
        'os.path.exists/listdir/join/dirname/basename are modelled by hand on a finite Fs and validated only by this correspondence',
        'the model is the cache-free search (C09 covers _module_cache/_context_cache/_norm_cache); dyn_modules empty; the __import__ of '
        'non-source files is not performed (only the selected file is compared); sys.modules and sys.path are parameters',
        'no __init__.py directly above the temporary directory (norm_package would climb into directories the Fs snapshot does not contain)',
        'domain of the oracle comparison = the decidable hypotheses of C07_find evaluated by the driver per name: validComps, '
        'NoNamespaceDirs, NoModulePackageClash (module file next to a package directory of the same name), Regular '
        '(no directory named like a module file, no __init__.<ext> / __init__.pyc packages); outside it disagreements are counted, not failed',
        'builtin/frozen modules are compared only through the sys.modules fallback; .pth files, zip imports and meta-path finders are not modelled',
    ]
    check.trusted += ['translators/tr_fs.py (reads SUFFIXES/SOURCE_SUFFIXES from the loaded module; AST check of the __init__ literals)',
                      'importlib.machinery.PathFinder / importlib.util.resolve_name / pkgutil.iter_modules of CPython 3.12 as the oracle',
                      'the frame-local read of `filename` in get_module (sys.setprofile) used to observe the file selected for non-source modules']


# ----------------------------------------------------------------------------- replay

def replay_correspondence(supp, rep):
    """re-run one recorded model/code disagreement: real code vs the model driver on the recorded tree"""
    tree = rep['tree']
    base = os.path.realpath(tempfile.mkdtemp(prefix='c07-replay-'))
    try:
        files, dirs = [f.split('/') for f in tree['files']], [d.split('/') for d in tree['dirs']]
        materialise(base, files, dirs)
        full = norm_sys_path()
        syspath = full if tree.get('sys_path') == 'full' else [p for p in full if p.endswith('.zip') or p.endswith('lib-dynload')]
        fs_files, fs_dirs = [[T] + f for f in files], [[T]] + [[T] + d for d in dirs]
        firsts = set(n.split('.')[0] for n in STDLIB_NAMES + STDLIB_ROOTS) if tree.get('sys_path') == 'full' else ()
        for e in syspath:
            f2, d2 = snapshot_entry(e, firsts)
            fs_files += f2
            fs_dirs += d2
        with sys_path_as(syspath):
            env = Env(supp, base, tree['roots'], syspath)
            fn = os.path.join(base, rep['file']) if 'file' in rep else None
            k = rep['kind']
            if k == 'get':
                q, real = {'q': 'get', 'name': rep['name']}, canon_res(env.get_module(rep['name']), base)
            elif k == 'nget':
                q, real = {'q': 'nget', 'name': rep['name'], 'file': comps_of(fn, base)}, canon_res(env.get_module(rep['name'], nfile=fn), base)
            elif k == 'list':
                q, real = {'q': 'list', 'root': rep['root']}, env.list_packages(rep['root'])
            elif k == 'norm':
                q, real = {'q': 'norm', 'file': comps_of(fn, base), 'rel': rep['rel']}, env.norm_package(rep['rel'], fn)
            else:
                q, real = {'q': 'alist', 'root': assist_root(supp, rep['line']), 'file': comps_of(fn, base)}, env.assist(rep['line'], fn)
            r = common.ask_driver([{'op': 'tree', 'files': fs_files, 'dirs': fs_dirs, 'groups': [
                {'roots': [comps_of(x, base) for x in env.path], 'sysmods': sorted(sys.modules), 'queries': [q]}]}], exe='drv_fs')[0]['r'][0][0]
            if k in ('get', 'nget'):
                model = model_get(r, base)
            elif k == 'list':
                model = {'ok': r['model']}
            elif k == 'norm':
                model = r['model']
            else:
                model = {'ok': r['model']}
            print('  %s %s: code %r, model %r -> %s' % (k, {x: rep[x] for x in rep if x not in ('tree', 'kind')}, real, model,
                                                       'agree' if real == model else 'DISAGREE'))
            return 0 if real == model else 1
    finally:
        shutil.rmtree(base, ignore_errors=True)


def replay(path):
    data = json.load(open(path))
    supp = load_supp()
    still = 0
    for item in data.get('failing_inputs', []):
        rep = item['replay']
        tree = rep['tree']
        base = os.path.realpath(tempfile.mkdtemp(prefix='c07-replay-'))
        try:
            materialise(base, [f.split('/') for f in tree['files']], [d.split('/') for d in tree['dirs']])
            full = norm_sys_path()
            syspath = full if tree.get('sys_path') == 'full' else [p for p in full if p.endswith('.zip') or p.endswith('lib-dynload')]
            with sys_path_as(syspath):
                env = Env(supp, base, tree['roots'], syspath)
                if rep['kind'] == 'find':
                    ok, s, o = find_verdict(env, rep['name'])
                    print('get_module(%r): supp %r, importlib %r -> %s' % (rep['name'], canon_res(s, base), canon_res(o, base), 'agree' if ok else 'DISAGREE'))
                elif rep['kind'] == 'assist-above':
                    s = env.assist(rep['line'], os.path.join(base, rep['file']))
                    ok = s == {'ok': []}
                    print('assist(%r) in %s = %r -> %s' % (rep['line'], rep['file'], s, 'agree' if ok else 'DISAGREE'))
                elif rep['kind'] in ('relative', 'relative-symlink'):
                    if rep['kind'] == 'relative-symlink':
                        os.symlink(rep['target'], os.path.join(base, rep['link']))
                    fn = os.path.join(base, rep['file'])
                    s, o = env.norm_package(rep['rel'], fn), oracle_resolve(rep['rel'], file_package(fn))
                    ok = s == o
                    print('norm_package(%r, %s): supp %r, resolve_name %r -> %s' % (rep['rel'], rep['file'], s, o, 'agree' if ok else 'DISAGREE'))
                else:
                    s = env.list_packages(rep['root'])
                    props = s.get('ok', [])
                    if 'missing' in rep:
                        ok = rep['missing'] in props
                    else:
                        dotted = (rep['root'] + '.' + rep['proposal']) if rep['root'] else rep['proposal']
                        ok = rep['proposal'] not in props or env.oracle_find(dotted) is not None or env.loaded(dotted)
                    print('list_packages(%r) = %r -> %s' % (rep['root'], s, 'agree' if ok else 'DISAGREE'))
                still += 0 if ok else 1
        finally:
            shutil.rmtree(base, ignore_errors=True)
    for b in data.get('no_longer_checks', []):
        print('no longer checks: ' + b.split(' REPLAY')[0][:400])
        if ' REPLAY' in b:
            still += replay_correspondence(supp, json.loads(b.split(' REPLAY', 1)[1]))
    print('replay: %d recorded inputs / correspondence disagreements still fail' % still)
    return 1 if still else 0
