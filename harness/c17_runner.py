"""C17 runner: executed in a FRESH interpreter (own PYTHONHASHSEED, own amount of prior allocation).

    python c17_runner.py <repo> <jobfile> <n_junk>

Reads a JSON list of requests, answers each with the real supp API, prints one JSON list.
Nothing here is compared with a model: the outputs of several such processes are compared with each other.
"""
import json
import sys


def jsonable(x):
    if isinstance(x, (list, tuple)):
        return [jsonable(y) for y in x]
    if isinstance(x, dict):
        return {str(k): jsonable(v) for k, v in x.items()}
    if x is None or isinstance(x, (bool, int, float, str)):
        return x
    return '<%s>' % type(x).__name__


def main():
    repo, jobfile, n_junk = sys.argv[1], sys.argv[2], int(sys.argv[3])
    junk = [object() for _ in range(n_junk)]          # shifts the addresses of everything allocated later
    junk2 = [[i] for i in range(n_junk % 1000)]
    sys.path.insert(0, repo)
    import logging
    logging.disable(logging.CRITICAL)
    from supp.assistant import location, assist
    from supp.linter import lint
    from supp.project import Project

    out = []
    for req in json.load(open(jobfile)):
        try:
            p = Project(list(req['roots']))
            kind = req['kind']
            if kind == 'location':
                r = location(p, req['src'], tuple(req['pos']), req['file'])
            elif kind == 'assist':
                m, props = assist(p, req['src'], tuple(req['pos']), req['file'])
                r = [m, list(props)]
            elif kind == 'lint':
                r = [list(d[:4]) for d in lint(p, req['src'], req['file'])]
            elif kind == 'exported':
                mod = p.get_module(req['module'])
                r = sorted([k, type(v).__name__, list(getattr(v, 'declared_at', (0, 0)))] for k, v in mod._attrs.items())
            else:
                r = {'exc': 'bad request'}
            out.append(jsonable(r))
        except Exception as e:  # noqa  (which exception is C08's business; here only: the same one everywhere)
            out.append({'exc': type(e).__name__})
    del junk, junk2
    sys.stdout.write(json.dumps(out))


if __name__ == '__main__':
    main()
