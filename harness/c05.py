"""C05 — names resolve in the scope CPython's compiler assigns them to.

theorems : Props/C05.lean over the graph evaluator: every binding in a table is owned by the flow's scope or a
           scope on its lookup chain (functions and the module, never a class body in between); class bodies are
           hidden from their methods; a function's own names are never satisfied from outside
tie      : the real flow graph is serialised; the driver evaluates Graph.wf (hypothesis of the theorems) on it and
           returns, per read, the table entry, the owner scope of every alternative and the lookup chain; diffed
           with the real names_at answer and the real Name.scope of every alternative
search   : the real code against the compiler's resolution (harness/symres.py, written from the language reference
           and cross-checked with the symtable module): every alternative supp lists for a read must be owned by
           the scope the compiler resolves the identifier to
"""
import ast
import glob
import json
import os
import shutil

from . import common, flowgraph, pygen, symres

KNOWN = {
    'C05-comp-var-leak': 'a comprehension variable is still listed as a possible definition of a later read of the same name '
                         'outside the comprehension (the region after a comprehension joins the comprehension\'s table)',
    'C05-global-declared-read': 'a name declared global in a function nested in a function that binds the same name resolves to '
                                'the enclosing function\'s local instead of the module global',
    'C05-class-comprehension': 'a read inside a comprehension in a class body resolves to class-body bindings, which Python hides from '
                               'the comprehension (a comprehension is a function-like scope nested in the class)',
    'C05-augassign-del-only': 'a name whose only bindings in a function are augmented assignments (x += 1) or del statements is a local for the '
                              'compiler but not for supp (no visit_AugAssign / visit_Delete): its reads resolve to outer bindings',
    'C05-nonlocal-binding': 'a binding made under a nonlocal declaration is owned by the inner function instead of the enclosing '
                            'function that owns the variable (reads then resolve to the inner function)',
}


def extra_programs(rng):
    """deep nesting, shadowing, global and nonlocal"""
    out = []
    names = ['a', 'b', 'c']
    for _ in range(40):
        lines = ['%s = 0' % rng.choice(names)]
        depth = rng.randint(1, 4)
        ind = 0
        for d in range(depth):
            pad = '    ' * ind
            kind = rng.choice(['def', 'def', 'class', 'lambda'])
            if kind == 'class':
                lines.append(pad + 'class K%d:' % d)
                ind += 1
                pad = '    ' * ind
                lines.append(pad + '%s = 1' % rng.choice(names))
                lines.append(pad + 'print(%s)' % rng.choice(names))
                lines.append(pad + 'def m%d(self, %s=%s):' % (d, rng.choice(names), rng.choice(names)))
                ind += 1
            elif kind == 'lambda':
                lines.append(pad + 'f%d = lambda %s: %s + %s' % (d, rng.choice(names), rng.choice(names), rng.choice(names)))
                continue
            else:
                lines.append(pad + 'def f%d(%s):' % (d, rng.choice(names)))
                ind += 1
            pad = '    ' * ind
            r = rng.random()
            if r < 0.25:
                lines.append(pad + 'global %s' % rng.choice(names))
            elif r < 0.4 and d > 0:
                lines.append(pad + 'pass')
            for _k in range(rng.randint(1, 3)):
                if rng.random() < 0.5:
                    lines.append(pad + '%s = %s' % (rng.choice(names), rng.choice(names)))
                else:
                    lines.append(pad + 'print(%s, %s)' % (rng.choice(names), rng.choice(names)))
            if rng.random() < 0.3:
                lines.append(pad + 'print([%s for %s in %s])' % (rng.choice(names), rng.choice(names), rng.choice(names)))
        lines.append('print(a, b, c)')
        out.append('\n'.join(lines) + '\n')
    # one binding construct at a time: a function whose ONLY binding of x is of that kind, an outer x, reads before and after
    kinds = [
        'x = 1', 'x: int = 1', 'x += 1', 'x, y = c', '[x, *y] = c', 'for x in c:\n        pass', 'for (x, y) in c:\n        pass',
        'with c as x:\n        pass', 'with c as (x, y):\n        pass', 'try:\n        pass\n    except E as x:\n        pass',
        'import x', 'import os as x', 'from os import path as x', 'from os import x', 'def x():\n        pass', 'class x:\n        pass',
        'async def x():\n        pass', 'if (x := c):\n        pass', 'while c:\n        x = 1', 'c = [0 for _ in c if (x := 1)]',
        'try:\n        x = 1\n    finally:\n        pass', 'if c:\n        pass\n    else:\n        x = 1', 'del x',
    ]
    for kind in kinds:
        body = '    print(x)\n    %s\n    print(x)\n    return x\n' % kind
        out.append('x = 0\ndef f(c):\n' + body)
        out.append('x = 0\nclass K:\n    def m(self, c):\n    ' + body.replace('\n    ', '\n        ').rstrip(' ') )
        out.append('def outer(x):\n    def f(c):\n    ' + body.replace('\n    ', '\n        ').rstrip(' ') + '    return f\n')
        out.append('x = 0\nf = lambda c, x=x: x\ndef g(c):\n    h = lambda: x\n' + body)
    out.append('x = 0\ndef P():\n    x = 1\n    def S():\n        global x\n        return x\n    return S\n')
    out.append('def P():\n    x = 1\n    def S():\n        nonlocal x\n        x = 2\n        return x\n    return S, x\n')
    # declarations x where the same spelling is read: a `nonlocal x` / `global x` rebinding in a nested function, and reads of x
    # that the compiler resolves elsewhere (module level with and without a module binding, an unrelated function, a sibling
    # nested function, a class body, the declaring function's parent)
    for decl, outer_bind in (('nonlocal', True), ('global', True), ('global', False)):
        for module_x in (True, False):
            for binder in ('x = x + 1', 'x = 2', 'import x', 'def x():\n            pass', 'for x in c:\n            pass'):
                src = ('x = 0\n' if module_x else '') + \
                    'def make(c):\n' + ('    x = 1\n' if outer_bind or decl == 'nonlocal' else '') + \
                    '    def bump():\n        %s x\n        %s\n        return x\n' % (decl, binder) + \
                    '    def peek():\n        return x\n    return bump, peek' + (', x' if outer_bind or decl == 'nonlocal' else '') + '\n' + \
                    'def report():\n    return x\nclass K:\n    y = x\n    def m(self):\n        return x\nprint(x)\n'
                out.append(src)
    out.append('x = 5\ndef f(ys):\n    r = [x for x in ys]\n    return x, r\n')
    out.append('class A:\n    k = 1\n    def m(self):\n        return k\nk = 2\n')
    return out


def corpus(check):
    quick = check.tier == 'quick'
    progs = [('special%d' % i, s) for i, s in enumerate(extra_programs(check.rng)) if pygen.valid(s)]
    check.extra['special_programs'] = len(progs)
    for i in range(150 if quick else 2500):
        g = pygen.Gen(check.rng, depth=check.rng.choice([3, 4]), loops=0.5)
        src = g.program()
        if not pygen.valid(src):
            continue
        progs.append(('gen%d' % i, src))
    files = sorted(glob.glob(os.path.join(common.REPO, 'supp', '*.py'))) + sorted(glob.glob(os.path.join(common.REPO, 'tests', '*.py')))
    import sysconfig
    std = sorted(glob.glob(os.path.join(sysconfig.get_paths()['stdlib'], '*.py')))
    files += std[:40] if quick else std + sorted(glob.glob(os.path.join(sysconfig.get_paths()['stdlib'], '*', '*.py')))[:400]
    for fn in files:
        try:
            src = open(fn, encoding='utf-8').read()
            ast.parse(src)
        except Exception:
            continue
        if len(src) < 120000:
            progs.append(('file:' + os.path.basename(fn), src))
    return progs


def binding_scope(builder, pos, skip_node=None):
    """the compiler scope a binding written at `pos` belongs to syntactically (innermost def/lambda/class containing it;
    `skip_node`: the def/class statement whose own name is the binding)"""
    best = None
    for s in builder.scopes:
        n = s.node
        if s.kind in ('module', 'comp') or not hasattr(n, 'end_lineno') or n is skip_node:
            continue
        if (n.lineno, n.col_offset) <= tuple(pos) <= (n.end_lineno, n.end_col_offset):
            if best is None or (n.lineno, n.col_offset) >= (best.node.lineno, best.node.col_offset):
                best = s
    return best


def supp_owner(S, gv, alt_obj, class_nodes, builder=None):
    sc = S['scope']
    nm = S['name']
    if isinstance(alt_obj, nm.RuntimeName):
        return ('global-or-builtin',)
    if any(alt_obj is g for g in gv.top._global_names.values()):
        # supp keeps it in the module's table of global names: right only if the binding is written at module level or under a
        # `global` declaration (a binding under `nonlocal` routed there would answer reads of the module global)
        pos = getattr(alt_obj, 'declared_at', None)
        name = getattr(alt_obj, 'name', None)
        if builder is not None and pos and name:
            b = binding_scope(builder, pos, getattr(alt_obj, 'node', None) if isinstance(alt_obj, (sc.FuncScope, sc.ClassScope)) else None)
            if b is not None and name in b.bound and name not in b.globals:
                return norm_owner(b.owner_key(), builder)
        return ('global-or-builtin',)
    s = getattr(alt_obj, 'scope', None)
    if isinstance(s, sc.SourceScope):
        return ('global-or-builtin',)
    if isinstance(s, sc.FuncScope):
        return ('function', id(s.node))
    if isinstance(s, sc.ClassScope):
        node = class_nodes.get((s.name, tuple(s.location)))
        return ('class', id(node)) if node is not None else ('class', None)
    return ('unknown', repr(s))


def norm_owner(key, builder):
    """compiler owner -> comparable key; a comprehension's variables count as bindings of the enclosing scope"""
    if key[0] in ('module', 'global-or-builtin'):
        return ('global-or-builtin',)
    if key[0] == 'comp':
        for s in builder.scopes:
            if s.kind == 'comp' and s.node is key[1]:
                p = s.parent
                while p.kind == 'comp':
                    p = p.parent
                return norm_owner(p.owner_key(), builder)
    return (key[0], id(key[1]))


def classify(read_scope, name, alt_obj, comp_names, node, builder, got=None, want=None):
    """known-finding class of a mismatch, or None"""
    cn = comp_names.get(id(alt_obj))
    if cn is not None:
        # the alternative is a comprehension variable: is the read outside that comprehension?
        inside = cn.lineno <= node.lineno <= getattr(cn, 'end_lineno', cn.lineno) and \
            (node.lineno, node.col_offset) >= (cn.lineno, cn.col_offset) and \
            (node.lineno, node.col_offset) <= (cn.end_lineno, cn.end_col_offset)
        if not inside:
            return 'C05-comp-var-leak'
    s = read_scope
    o = s
    while o is not None:
        if name in o.bound:
            if name in o.weak and name not in o.strong and name not in o.globals and name not in o.nonlocals:
                return 'C05-augassign-del-only'
            break
        o = o.parent
    a = s
    while a is not None:
        if a.kind == 'comp':
            p = a.parent
            while p is not None and p.kind == 'comp':
                p = p.parent
            if p is not None and p.kind == 'class':
                return 'C05-class-comprehension'   # the read is in (a function nested in) a comprehension of a class body
        a = a.parent
    # the two declaration classes, each only in the direction the finding describes:
    #   global-declared-read: the compiler says global, supp answers with a local of an ENCLOSING function of the declaring scope
    #   nonlocal-binding:     supp says the function that DECLARES the name nonlocal owns the binding, the compiler says the
    #                         function that declaration refers to
    while s is not None:
        if name in s.globals and want == ('global-or-builtin',) and got[0] == 'function':
            e = s.parent
            while e is not None:
                if e.kind == 'function' and name in e.bound and norm_owner(e.owner_key(), builder) == got:
                    return 'C05-global-declared-read'
                e = e.parent
        s = s.parent
    for s in builder.scopes:
        if name in s.nonlocals and norm_owner(s.owner_key(), builder) == got and \
                norm_owner(symres.resolve(s, name), builder) == want:
            return 'C05-nonlocal-binding'
    return None


def run(check):
    check.prove(extra_targets=('drv_flow',))
    S = flowgraph.load_supp()
    judge(check, S, corpus(check))


def judge(check, S, programs):
    quick = check.tier == 'quick'
    u = S['util']
    nm = S['name']
    tmp = '/tmp/verif-c05-%d' % os.getpid()
    os.makedirs(tmp, exist_ok=True)
    project = S['project'].Project([tmp])
    fname = os.path.join(tmp, 'm.py')
    requests, meta = [], []
    n_reads = n_alts = n_class_skipped = 0
    sym_mismatch = 0
    nontrivial = 0
    known_seen = {}
    for label, src in programs:
        try:
            gv = flowgraph.analyse(S, src, fname, project)
        except RecursionError:
            continue
        except Exception as e:
            check.extra.setdefault('extractor_crashes_skipped', []).append('%s: %s' % (label, type(e).__name__))
            continue
        tree = gv.top.source.tree
        builder, owners = symres.analyse(tree)
        if not label.startswith('file:') or quick:
            mm = symres.symtable_crosscheck(src, builder)
            sym_mismatch += len(mm)
            if mm and sym_mismatch <= 3:
                check.oblige('oracle self-check: harness/symres.py agrees with the symtable module', False, '%s: %r\n%s' % (label, mm[:3], src[:600]))
        class_nodes = {}
        for n in ast.walk(tree):
            if isinstance(n, ast.ClassDef):
                class_nodes[(n.name, (n.body[0].lineno, n.body[0].col_offset))] = n
        comp_names = {}
        for f in gv.top._all_flows:
            if f.hint == 'comp':
                for n_ in f._names:
                    comp_names[id(n_)] = None
        if comp_names:
            for n in ast.walk(tree):
                if isinstance(n, symres.COMPS):
                    for g_ in n.generators:
                        for t in ast.walk(g_.target):
                            if isinstance(t, ast.Name):
                                for f in gv.top._all_flows:
                                    if f.hint == 'comp':
                                        for n_ in f._names:
                                            if n_.name == t.id and tuple(n_.declared_at) == (t.lineno, t.col_offset):
                                                comp_names[id(n_)] = n
            comp_names = {k: v for k, v in comp_names.items() if v is not None}
        reads = gv.reads()
        rows_real = []
        for q, node in reads:
            n_reads += 1
            rs = builder.scope_of_read.get(id(node))
            try:
                v = node.flow.names_at(u.np(node)).get(node.id)
            except RecursionError:
                rows_real.append(None)
                continue
            alts = [] if v is None else (v.alt_names if isinstance(v, nm.MultiName) else [v])
            alts = [a for a in alts if not isinstance(a, nm.UndefinedName)]
            own_ids = []
            for a in alts:
                if isinstance(a, nm.RuntimeName):
                    continue
                s = getattr(a, 'scope', None)
                own_ids.append([gv.name_id(a), gv.scope_id(gv.top) if any(a is g for g in gv.top._global_names.values()) else gv.scope_id(s)])
            rows_real.append(sorted(own_ids))
            if rs is None:
                continue
            want = norm_owner(owners[id(node)], builder)
            if rs.kind == 'class' and node.id in rs.bound:
                n_class_skipped += 1
                continue
            if len(alts) > 0 and (rs.kind != 'module'):
                nontrivial += 1
            for a in alts:
                n_alts += 1
                got = supp_owner(S, gv, a, class_nodes, builder)
                if got != want:
                    cls = classify(rs, node.id, a, comp_names, node, builder, got, want)
                    if cls:
                        known_seen[cls] = known_seen.get(cls, 0) + 1
                        check.known_hits.setdefault(cls, KNOWN[cls]) if any(k['id'] == cls for k in check.known) else \
                            check.fail('binding resolved in a scope other than the compiler\'s (unlisted class %s)' % cls,
                                       {'source': src, 'read': q, 'compiler_owner': repr(want), 'supp_owner': repr(got)})
                    else:
                        check.fail('a read resolves to a binding owned by a scope other than the one the compiler resolves it to',
                                   {'source': src if len(src) < 4000 else label, 'read': q, 'compiler_owner': repr(want), 'supp_owner': repr(got),
                                    'alternative': repr(a)})
        requests.append({'op': 'scoping', 'graph': gv.json, 'queries': [q for q, _ in reads]})
        meta.append((label, src, reads, rows_real, gv))
    replies = common.ask_driver(requests, exe='drv_flow')
    dis = wf_false = chain_bad = 0
    for (label, src, reads, rows_real, gv), rep in zip(meta, replies):
        if 'rows' not in rep:
            check.oblige('correspondence owners', False, '%s: driver said %r' % (label, rep))
            dis += 1
            continue
        if not rep['wf']:
            wf_false += 1
            if wf_false <= 3:
                check.oblige('real flow graphs satisfy Graph.wf (hypothesis of the C05 theorems)', False, '%s\n%s' % (label, src[:800]))
        for (q, node), real, row in zip(reads, rows_real, rep['rows']):
            if real is None:
                continue
            model = sorted([o[0], o[1]] for o in row['owners'])
            if model != real:
                dis += 1
                if dis <= 4:
                    check.oblige('correspondence owners', False, '%s read %s: impl %r, model %r' % (label, q, real, model))
            if any(o[1] not in row['chain'] for o in row['owners']):
                chain_bad += 1
    if dis == 0:
        check.oblige('correspondence owners (owner scope of every alternative: model = implementation)', True)
    if wf_false == 0:
        check.oblige('real flow graphs satisfy Graph.wf (hypothesis of the C05 theorems)', True)
    check.oblige('every owner lies on the lookup chain (instance of C05_chain_at on the real graphs)', chain_bad == 0, '%d reads' % chain_bad)
    if sym_mismatch == 0:
        check.oblige('oracle self-check: harness/symres.py agrees with the symtable module', True)
    check.cov['evaluations'] = n_reads
    check.cov['distinct_nontrivial'] = nontrivial
    check.cov['rule'] = ('programs: hand-shaped deep nestings with shadowing/global/nonlocal, generated programs with nested def/class/lambda '
                         '(harness/pygen.py), repo files and stdlib files (quick 40, thorough all top-level + 400 package modules); evaluations = reads; '
                         'non-trivial = reads outside module level with at least one definition')
    check.extra.update({'programs': len(meta), 'alternatives_compared': n_alts, 'class_body_reads_of_own_names_skipped': n_class_skipped,
                        'known_finding_hits': known_seen, 'graphs_not_wf': wf_false})
    for label, src, reads, _r, _g in meta[:2]:
        check.sample({'program': label, 'source_head': src[:300]})
    check.assumptions += ['the compiler\'s resolution is re-implemented in harness/symres.py and cross-checked with symtable on every generated program',
                          'comprehension variables are compared as bindings of the enclosing scope, class-body reads only for names the class does not bind (as the property says)']
    shutil.rmtree(tmp, ignore_errors=True)


def replay(path):
    data = json.load(open(path))
    S = flowgraph.load_supp()
    progs = []
    for k, item in enumerate(data.get('failing_inputs', [])):
        src = item['replay'].get('source', '')
        if '\n' in src and src not in [p[1] for p in progs]:
            progs.append(('replay%d' % k, src))
    chk = common.Check('C05', 'quick', 0)
    judge(chk, S, progs)
    for f in chk.failures[:10]:
        print('STILL FAILS:', f['what'], json.dumps(f['replay'])[:300])
    print('REPLAY: %d recorded programs re-judged, %d failing reads now' % (len(progs), len(chk.failures)))
    return 1 if chk.failures else 0
