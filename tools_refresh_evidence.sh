#!/bin/bash
# re-run every quick check on /repo (4 at a time) so that the evidence files and Generated/*.lean are those of the unchanged tree
cd /verif
ALL="C01 C02 C03 C04 C05 C06 C07 C08 C09 C10 C11 C12 C13 C14 C15 C16 C17"
printf '%s\n' $ALL | xargs -P 4 -I{} sh -c 'VERIF_SEED=${VERIF_SEED:-0} ./check {} --tier quick > /tmp/refresh_{}.log 2>&1; echo "{} exit $? $(grep "^OK\|^VIOLATION" /tmp/refresh_{}.log | cut -c1-120)"'
