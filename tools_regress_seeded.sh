#!/bin/bash
# usage: tools_regress_seeded.sh [id ...]   -- re-run every stored seeded change (seeded/<id>/patch.diff) against the quick check of its
# property on a scratch worktree of /repo's HEAD; prints one line per change.  Sequential on purpose (the translators regenerate
# lean/SuppModel/Generated/*.lean from the checkout under test).  Run tools_refresh_evidence.sh afterwards.
cd /verif
IDS="$@"
[ -z "$IDS" ] && IDS=$(ls seeded)
for id in $IDS; do
  d=/verif/seeded/$id
  prop=$(python3 -c "import json;print(json.load(open('$d/meta.json'))['property'])")
  WT=/tmp/regrwt-$$
  git -C /repo worktree add -q --detach $WT HEAD || exit 2
  if ! ( cd $WT && git apply $d/patch.diff ) 2>/dev/null; then
    echo "$id ($prop): patch no longer applies to HEAD (written for an earlier commit)"
    git -C /repo worktree remove --force $WT
    continue
  fi
  SUPP_REPO=$WT timeout 1500 ./check $prop --tier quick > /tmp/regr-$id.log 2>&1
  rc=$?
  echo "$id ($prop): exit=$rc failing_inputs=$(grep -c 'FAILING INPUT' /tmp/regr-$id.log) $(grep '^VIOLATION\|^OK' /tmp/regr-$id.log | head -1 | cut -c1-100)"
  git -C /repo worktree remove --force $WT
done
