#!/bin/bash
# usage: tools_confirm_mutant.sh <dir with patch.diff demo.py>  -> prints tests/demo outcomes with and without the change
D=$1
WT=/tmp/confwt-$$
git -C /repo worktree add -q $WT HEAD || exit 2
cd $WT
d0=$(PYTHONPATH=$WT timeout 300 /venv/bin/python $D/demo.py $WT >/dev/null 2>&1; echo $?)
git apply $D/patch.diff || { echo "patch does not apply"; cd /; git -C /repo worktree remove --force $WT; exit 2; }
t=$(PYTHONPATH=$WT timeout 600 /venv/bin/python -m pytest -q -p no:cacheprovider tests 2>&1 | tail -1)
d1=$(PYTHONPATH=$WT timeout 300 /venv/bin/python $D/demo.py $WT >/dev/null 2>&1; echo $?)
cd /; git -C /repo worktree remove --force $WT
echo "$(basename $D): tests-with-change [$t] demo-without=$d0 demo-with=$d1"
