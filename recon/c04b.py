import sys, random, itertools
sys.path.insert(0, sys.argv[1])
import logging; logging.disable(logging.CRITICAL)
from supp.project import Project
from supp.util import Source, get_name_usages, np
from supp.nast import extract_scope
from supp.name import MultiName, UndefinedName
p = Project(['/tmp/recon/py/proj'])
def gen(rnd, depth, ind):
    out = []
    for _ in range(rnd.randint(1, 3)):
        k = rnd.random()
        v = rnd.choice('abc')
        pad = '    ' * ind
        if k < 0.3 or depth == 0:
            out.append(pad + '%s = 1' % v)
        elif k < 0.45:
            out.append(pad + 'print(%s)' % v)
        elif k < 0.65:
            out.append(pad + 'if c:'); out += gen(rnd, depth-1, ind+1)
            if rnd.random() < 0.5:
                out.append(pad + 'else:'); out += gen(rnd, depth-1, ind+1)
        elif k < 0.85:
            out.append(pad + 'while c:'); out += gen(rnd, depth-1, ind+1)
        else:
            out.append(pad + 'try:'); out += gen(rnd, depth-1, ind+1)
            out.append(pad + 'except E:'); out += gen(rnd, depth-1, ind+1)
    out.append('    ' * ind + 'print(a, b, c)')
    return out
def alts(n):
    if n is None: return None
    if isinstance(n, MultiName):
        return sorted([('U' if isinstance(a, UndefinedName) else a.declared_at) for a in n.alt_names], key=str)
    return [getattr(n, 'declared_at', 'rt')]
def run(src, order):
    s = Source(src, 'x.py'); scope = extract_scope(s, p); reads = get_name_usages(s.tree)
    return {i: alts(reads[i].flow.names_at(np(reads[i])).get(reads[i].id)) for i in order}
bad = 0
for seed in range(300):
    rnd = random.Random(seed)
    src = 'def f(c, E):\n' + '\n'.join(gen(rnd, 3, 1)) + '\n'
    n = len(get_name_usages(Source(src, 'x.py').tree))
    base = run(src, range(n))
    for t in range(6):
        order = list(range(n)); rnd.shuffle(order)
        if t == 0: order.reverse()
        r = run(src, order)
        if r != base:
            bad += 1
            if bad <= 2: print('ORDER-DEP seed', seed); print(src)
            break
print('order-dependent programs:', bad, 'of 300')
