import sys, os, time
sys.path.insert(0, '/repo')
import logging; logging.disable(logging.CRITICAL)
from supp.assistant import location, assist
from supp.linter import lint
from supp.project import Project
root = '/tmp/recon/py/proj9'
os.makedirs(root, exist_ok=True)
T = [1000000000]
def w(name, content):
    fn = os.path.join(root, name); open(fn, 'w').write(content)
    T[0] += 10; os.utime(fn, (T[0], T[0]))
w('b.py', 'class K:\n    one = 1\nv1 = 1\n')
w('a.py', 'from b import *\nfrom b import K\n')
p = Project([root])
def q(proj):
    with proj.check_changes():
        r1 = assist(proj, 'import a\na.', (2, 2), root + '/x.py')[1]
    with proj.check_changes():
        r2 = assist(proj, 'import a\na.K.', (2, 4), root + '/x.py')[1]
    with proj.check_changes():
        r3 = [t[:2] for t in lint(proj, 'from a import *\nprint(v1, v2)\n', root + '/x.py')]
    return r1, r2, r3
print('long-lived 1', q(p))
w('b.py', 'class K:\n    two = 2\nv2 = 2\n')
print('long-lived 2', q(p))
print('fresh       ', q(Project([root])))
