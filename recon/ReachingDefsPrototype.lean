namespace RD
abbrev Ident := Nat
abbrev Site := Nat
abbrev RId := Nat

inductive Stmt where
  | skip
  | bind (x : Ident) (d : Site)
  | read (x : Ident) (r : RId)
  | seq (s t : Stmt)
  | ite (a b : Stmt)
  | while_ (b : Stmt)

abbrev State := Ident → Option Site
def upd (σ : State) (x : Ident) (d : Site) : State := fun y => if y = x then some d else σ y

inductive Exec : Stmt → State → State → Prop
  | skip : Exec .skip σ σ
  | bind : Exec (.bind x d) σ (upd σ x d)
  | read : Exec (.read x r) σ σ
  | seq : Exec s σ σ1 → Exec t σ1 σ2 → Exec (.seq s t) σ σ2
  | iteL : Exec a σ σ' → Exec (.ite a b) σ σ'
  | iteR : Exec b σ σ' → Exec (.ite a b) σ σ'
  | whileExit : Exec (.while_ b) σ σ
  | whileStep : Exec b σ σ1 → Exec (.while_ b) σ1 σ2 → Exec (.while_ b) σ σ2

/-- some execution of `s` from `σ` evaluates read `r` in state `σr` -/
inductive Reach : Stmt → State → RId → State → Prop
  | here : Reach (.read x r) σ r σ
  | seqL : Reach s σ r σr → Reach (.seq s t) σ r σr
  | seqR : Exec s σ σ1 → Reach t σ1 r σr → Reach (.seq s t) σ r σr
  | iteL : Reach a σ r σr → Reach (.ite a b) σ r σr
  | iteR : Reach b σ r σr → Reach (.ite a b) σ r σr
  | loop : Exec (.while_ b) σ σ1 → Reach b σ1 r σr → Reach (.while_ b) σ r σr

abbrev Tbl := Ident → Option Site → Prop
def Tbl.join (T U : Tbl) : Tbl := fun x a => T x a ∨ U x a

def A : Stmt → Tbl → Tbl
  | .skip, T => T
  | .bind x d, T => fun y a => if y = x then a = some d else T y a
  | .read _ _, T => T
  | .seq s t, T => A t (A s T)
  | .ite a b, T => (A a T).join (A b T)
  | .while_ b, T => T.join (A b (T.join (A b T)))

/-- supp's table at read `r` (names_at) -/
def at_ : Stmt → RId → Tbl → Tbl
  | .skip, _, _ => fun _ _ => False
  | .bind _ _, _, _ => fun _ _ => False
  | .read _ r', r, T => fun y a => r = r' ∧ T y a
  | .seq s t, r, T => (at_ s r T).join (at_ t r (A s T))
  | .ite a b, r, T => (at_ a r T).join (at_ b r T)
  | .while_ b, r, T => at_ b r (T.join (A b T))

def gen : Stmt → Ident → Option Site → Prop
  | .skip, _, _ => False
  | .bind x d, y, a => y = x ∧ a = some d
  | .read _ _, _, _ => False
  | .seq s t, y, a => gen t y a ∨ (pass t y ∧ gen s y a)
  | .ite s t, y, a => gen s y a ∨ gen t y a
  | .while_ b, y, a => gen b y a
where pass : Stmt → Ident → Prop
  | .skip, _ => True
  | .bind x _, y => y ≠ x
  | .read _ _, _ => True
  | .seq s t, y => pass s y ∧ pass t y
  | .ite s t, y => pass s y ∨ pass t y
  | .while_ _, _ => True

theorem A_normal (s : Stmt) (T : Tbl) (y : Ident) (a : Option Site) :
    A s T y a ↔ (gen s y a ∨ (gen.pass s y ∧ T y a)) := by
  induction s generalizing T with
  | skip => simp [A, gen, gen.pass]
  | bind x d => simp only [A, gen, gen.pass]; by_cases h : y = x <;> simp [h]
  | read x r => simp [A, gen, gen.pass]
  | seq s t ihs iht => simp only [A, gen, gen.pass, iht, ihs]; grind
  | ite s t ihs iht => simp only [A, Tbl.join, gen, gen.pass, iht, ihs]; grind
  | while_ b ih => simp only [A, Tbl.join, gen, gen.pass, ih]; grind

theorem exec_sound (h : Exec s σ σ') (y : Ident) :
    gen s y (σ' y) ∨ (gen.pass s y ∧ σ' y = σ y) := by
  induction h with
  | skip => simp [gen.pass]
  | @bind x d σ => by_cases h : y = x <;> simp [gen, gen.pass, upd, h]
  | read => simp [gen.pass]
  | seq _ _ ih1 ih2 => simp only [gen, gen.pass]; grind
  | iteL _ ih => simp only [gen, gen.pass]; grind
  | iteR _ ih => simp only [gen, gen.pass]; grind
  | whileExit => simp [gen.pass]
  | whileStep _ _ ih1 ih2 => simp only [gen, gen.pass] at *; grind

theorem sound (h : Exec s σ σ') (T : Tbl) (hT : ∀ y, T y (σ y)) (y : Ident) : A s T y (σ' y) := by
  rw [A_normal]; rcases exec_sound h y with h | ⟨p, e⟩
  · exact .inl h
  · exact .inr ⟨p, e ▸ hT y⟩

/-- C02 shape: the binding a real execution reads at `r` is among supp's alternatives at `r` -/
theorem reach_sound (h : Reach s σ r σr) (T : Tbl) (hT : ∀ y, T y (σ y)) (y : Ident) :
    at_ s r T y (σr y) := by
  induction h generalizing T with
  | here => exact ⟨rfl, hT y⟩
  | seqL _ ih => exact .inl (ih T hT)
  | seqR he _ ih => exact .inr (ih _ (fun z => sound he T hT z))
  | iteL _ ih => exact .inl (ih T hT)
  | iteR _ ih => exact .inr (ih T hT)
  | @loop b σ σ1 r σr he _ ih =>
      simp only [at_]
      apply ih
      intro z
      have := sound he T hT z
      simp only [A, Tbl.join, A_normal] at this ⊢
      grind

/-! completeness (C03 shape): every alternative is realised by some execution -/

theorem exec_gen (s : Stmt) (y : Ident) (a : Option Site) (hg : gen s y a) (σ : State) :
    ∃ σ', Exec s σ σ' ∧ σ' y = a := by
  induction s generalizing σ a with
  | skip => simp [gen] at hg
  | bind x d => simp [gen] at hg; exact ⟨_, .bind, by simp [upd, hg.1, hg.2]⟩
  | read x r => simp [gen] at hg
  | seq s t ihs iht =>
      simp only [gen] at hg
      rcases hg with hg | ⟨hp, hg⟩
      · obtain ⟨σ1, h1⟩ := exec_any s σ
        obtain ⟨σ2, h2, e⟩ := iht a hg σ1
        exact ⟨σ2, .seq h1 h2, e⟩
      · obtain ⟨σ1, h1, e1⟩ := ihs a hg σ
        obtain ⟨σ2, h2, e2⟩ := exec_pass t y hp σ1
        exact ⟨σ2, .seq h1 h2, by rw [e2, e1]⟩
  | ite s t ihs iht =>
      simp only [gen] at hg
      rcases hg with hg | hg
      · obtain ⟨σ', h, e⟩ := ihs a hg σ; exact ⟨σ', .iteL h, e⟩
      · obtain ⟨σ', h, e⟩ := iht a hg σ; exact ⟨σ', .iteR h, e⟩
  | while_ b ih =>
      simp only [gen] at hg
      obtain ⟨σ', h, e⟩ := ih a hg σ
      exact ⟨σ', .whileStep h .whileExit, e⟩
where
  exec_any (s : Stmt) (σ : State) : ∃ σ', Exec s σ σ' := by
    induction s generalizing σ with
    | skip => exact ⟨_, .skip⟩
    | bind x d => exact ⟨_, .bind⟩
    | read x r => exact ⟨_, .read⟩
    | seq s t ihs iht => obtain ⟨σ1, h1⟩ := ihs σ; obtain ⟨σ2, h2⟩ := iht σ1; exact ⟨_, .seq h1 h2⟩
    | ite s t ihs _ => obtain ⟨σ1, h1⟩ := ihs σ; exact ⟨_, .iteL h1⟩
    | while_ b _ => exact ⟨_, .whileExit⟩
  exec_pass (s : Stmt) (y : Ident) (hp : gen.pass s y) (σ : State) : ∃ σ', Exec s σ σ' ∧ σ' y = σ y := by
    induction s generalizing σ with
    | skip => exact ⟨_, .skip, rfl⟩
    | bind x d => simp [gen.pass] at hp; exact ⟨_, .bind, by simp [upd, hp]⟩
    | read x r => exact ⟨_, .read, rfl⟩
    | seq s t ihs iht =>
        simp only [gen.pass] at hp
        obtain ⟨σ1, h1, e1⟩ := ihs hp.1 σ; obtain ⟨σ2, h2, e2⟩ := iht hp.2 σ1
        exact ⟨_, .seq h1 h2, by rw [e2, e1]⟩
    | ite s t ihs iht =>
        simp only [gen.pass] at hp
        rcases hp with hp | hp
        · obtain ⟨σ1, h1, e1⟩ := ihs hp σ; exact ⟨_, .iteL h1, e1⟩
        · obtain ⟨σ1, h1, e1⟩ := iht hp σ; exact ⟨_, .iteR h1, e1⟩
    | while_ b _ => exact ⟨_, .whileExit, rfl⟩

/-- exactness of the table after `s`, per name, for a set `Σ` of entry states abstracted by `T` -/
theorem complete (s : Stmt) (T : Tbl) (S : State → Prop) (hne : ∃ σ, S σ)
    (hT : ∀ y a, T y a → ∃ σ, S σ ∧ σ y = a) (y : Ident) (a : Option Site) (h : A s T y a) :
    ∃ σ σ', S σ ∧ Exec s σ σ' ∧ σ' y = a := by
  rw [A_normal] at h
  rcases h with hg | ⟨hp, ht⟩
  · obtain ⟨σ, hs⟩ := hne
    obtain ⟨σ', h, e⟩ := exec_gen s y a hg σ
    exact ⟨σ, σ', hs, h, e⟩
  · obtain ⟨σ, hs, e⟩ := hT y a ht
    obtain ⟨σ', h, e'⟩ := exec_gen.exec_pass s y hp σ
    exact ⟨σ, σ', hs, h, by rw [e', e]⟩
end RD

namespace RD
-- non-vacuity: a loop whose body reads a loop-carried name inside a branch (the shape the
-- pinned tree gets wrong): read 7 of name 0 sees the binding at site 5 and "unbound"
def ex : Stmt := .while_ (.seq (.ite (.read 0 7) .skip) (.bind 0 5))
example : at_ ex 7 (fun _ a => a = none) 0 (some 5) := by
  simp [ex, at_, A, Tbl.join]
example : at_ ex 7 (fun _ a => a = none) 0 none := by
  simp [ex, at_, A, Tbl.join]
#print axioms reach_sound
#print axioms complete
end RD
