/-
  C04 — answers do not depend on which positions were queried before.
  Property theorems ONLY.  They are about the graph-level evaluator of
  SuppModel/Flow/Graph.lean (pure, `lookupAt`) and SuppModel/Flow/Memo.lean (with the
  memos of scope.py made explicit, `runQueries`), for EVERY graph — in particular every
  graph the real extractor can build — and every history of queries, of any length.

  STATUS.  `C04_history_stmt` / `C04_two_histories_stmt` (the property at full strength: every
  graph, every history) are FALSE of the model: SuppModel/Witness/C04.lean.  A table cached on
  the objects at top level is reused while a loop is being resolved although it may have been
  computed by resolving — in a NESTED resolution, whose memo was dropped — that very loop.
  Proved instead, for every graph and every history:
    * `C04_pure_deterministic`, `C04_memo_total` (as first stated);
    * `C04_history_partial`, `C04_two_histories_partial`: the property for every answer on which
      the CAUTIOUS evaluator of SuppModel/Flow/Flat.lean (= the real one, except that it gives up
      instead of starting a nested loop resolution) agrees with the real one — a decidable
      hypothesis the driver evaluates per run;
    * `C04_cautious_history`: the cautious evaluator itself has the property outright.
-/
import SuppModel.Flow.Lemmas

namespace SuppModel.Props.C04
open SuppModel.Flow

/-- the pure evaluator is a function of (graph, flow, position, name): more fuel never
    changes an answer it has given -/
theorem C04_pure_deterministic (g : Graph) (n n' : Nat) (f : Nat) (pos : Pos) (x : String)
    (a b : Option Val) (ha : lookupAt g n f pos x = some a) (hb : lookupAt g n' f pos x = some b) :
    a = b :=
  lookupAt_det g n n' f pos x a b ha hb

/-- HISTORY INDEPENDENCE (full strength; FALSE of the model, see Witness/C04.lean): whatever was
    queried before on the same analysed module (any queries, any order, any number of times), an
    answer the memoised evaluator gives is the answer of the pure evaluator from a cold start. -/
def C04_history_stmt : Prop :=
  ∀ (g : Graph) (n : Nat) (qs : List Query) (i : Nat) (q : Query) (a : Option Val),
    qs[i]? = some q → (runQueries g n {} qs)[i]? = some (some a) →
    ∃ n', lookupAt g n' q.flow q.pos q.key = some a

/-- two histories agree on every query they share (full strength; FALSE of the model) -/
def C04_two_histories_stmt : Prop :=
  ∀ (g : Graph) (n₁ n₂ : Nat) (qs₁ qs₂ : List Query) (i j : Nat) (q : Query) (a b : Option Val),
    qs₁[i]? = some q → qs₂[j]? = some q →
    (runQueries g n₁ {} qs₁)[i]? = some (some a) →
    (runQueries g n₂ {} qs₂)[j]? = some (some b) → a = b

/-- HISTORY INDEPENDENCE, for every answer the cautious evaluator confirms: whatever was queried
    before (any queries, any order, any number of times), such an answer of the memoised
    evaluator is the answer of the pure evaluator from a cold start. -/
theorem C04_history_partial (g : Graph) (n : Nat) (qs : List Query) (i : Nat) (q : Query)
    (a : Option Val)
    (hflat : (runQueriesFlat g n {} qs)[i]? = (runQueries g n {} qs)[i]?)
    (hq : qs[i]? = some q) (ha : (runQueries g n {} qs)[i]? = some (some a)) :
    ∃ n', lookupAt g n' q.flow q.pos q.key = some a :=
  runQueriesFlat_sound g n qs {} (FlatOK.empty g) rfl i q a hq (hflat.trans ha)

/-- consequently two histories agree on every such query they share -/
theorem C04_two_histories_partial (g : Graph) (n₁ n₂ : Nat) (qs₁ qs₂ : List Query) (i j : Nat)
    (q : Query) (a b : Option Val)
    (hflat₁ : (runQueriesFlat g n₁ {} qs₁)[i]? = (runQueries g n₁ {} qs₁)[i]?)
    (hflat₂ : (runQueriesFlat g n₂ {} qs₂)[j]? = (runQueries g n₂ {} qs₂)[j]?)
    (h₁ : qs₁[i]? = some q) (h₂ : qs₂[j]? = some q)
    (ha : (runQueries g n₁ {} qs₁)[i]? = some (some a))
    (hb : (runQueries g n₂ {} qs₂)[j]? = some (some b)) : a = b := by
  obtain ⟨m₁, e₁⟩ := C04_history_partial g n₁ qs₁ i q a hflat₁ h₁ ha
  obtain ⟨m₂, e₂⟩ := C04_history_partial g n₂ qs₂ j q b hflat₂ h₂ hb
  exact C04_pure_deterministic g m₁ m₂ q.flow q.pos q.key a b e₁ e₂

/-- the cautious evaluator has the property outright, for every graph and every history -/
theorem C04_cautious_history (g : Graph) (n : Nat) (qs : List Query) (i : Nat) (q : Query)
    (a : Option Val) (hq : qs[i]? = some q)
    (ha : (runQueriesFlat g n {} qs)[i]? = some (some a)) :
    ∃ n', lookupAt g n' q.flow q.pos q.key = some a :=
  runQueriesFlat_sound g n qs {} (FlatOK.empty g) rfl i q a hq ha

/-- and where the cautious evaluator answers a query, the real one, from the same memo, gives
    the same answer and reaches the same memo: the cautious evaluator only ever gives up -/
theorem C04_cautious_le (g : Graph) (n : Nat) (m m' : Memo) (f : Nat) (pos : Pos) (t : Tbl)
    (h : fNamesAt g n m f pos = some (m', t)) : mNamesAt g n m f pos = some (m', t) :=
  fNamesAt_le g n m f pos (m', t) h

/-- and the memoised evaluator does answer whenever the pure one does: a memo hit never
    costs an answer (same fuel) -/
theorem C04_memo_total (g : Graph) (n : Nat) (qs : List Query) (i : Nat) (q : Query)
    (hq : qs[i]? = some q)
    (hall : ∀ q' ∈ qs, (lookupAt g n q'.flow q'.pos q'.key).isSome) :
    ((runQueries g n {} qs)[i]?.bind id).isSome :=
  runQueries_total g n qs {} rfl hall i q hq

/-! ### non-vacuity: a module with a `for` loop whose body contains an `if`

    flow 0  module top, binds x                          x = 0
    flow 1  loop head / body start, binds i              for i in x:
            parents: flow 0 and the back edge (loop 0, from flow 3)
    flow 2  `if` branch, binds y                             if i: y = 1
    flow 3  join after the `if`, binds z  (body end)         z = 2
    flow 4  after the loop, binds w                      w = 3
-/

private def nm (i : Nat) (s : String) : NameRec := { id := i, name := s, loc := (1, 0), scope := 0 }

def exGraph : Graph :=
  Graph.mk
    [FlowRec.mk 0 0 [nm 100 "x"] [],
     FlowRec.mk 1 0 [nm 101 "i"] [Parent.flow 0, Parent.loop 0 3],
     FlowRec.mk 2 0 [nm 102 "y"] [Parent.flow 1],
     FlowRec.mk 3 0 [nm 103 "z"] [Parent.flow 2, Parent.flow 1],
     FlowRec.mk 4 0 [nm 104 "w"] [Parent.flow 1]]
    [ScopeRec.mk 0 .module none [] 4 []] []

def qA : Query := ⟨3, (0, 0), "y"⟩   -- `y` at the join: maybe unbound
def qB : Query := ⟨4, (9, 9), "z"⟩   -- `z` after the loop: maybe unbound (zero iterations)
def qC : Query := ⟨2, (0, 0), "z"⟩   -- `z` inside the `if`: bound by the previous iteration only

/-- both orders give the same answers (permuted), and they are the pure evaluator's -/
example :
    runQueries exGraph 20 {} [qA, qB, qC] =
      [some (some [.undef "y", .nm 102]), some (some [.undef "z", .nm 103]),
       some (some [.undef "z", .nm 103])] ∧
    runQueries exGraph 20 {} [qC, qB, qA] =
      [some (some [.undef "z", .nm 103]), some (some [.undef "z", .nm 103]),
       some (some [.undef "y", .nm 102])] ∧
    [qA, qB, qC].map (fun q => lookupAt exGraph 20 q.flow q.pos q.key) =
      [some (some [.undef "y", .nm 102]), some (some [.undef "z", .nm 103]),
       some (some [.undef "z", .nm 103])] := by
  decide +kernel

/-- the hypotheses of `C04_history_partial` / `C04_two_histories_partial` are met by both
    histories (at every index), with answers that are not `none` -/
example :
    runQueriesFlat exGraph 20 {} [qA, qB, qC] = runQueries exGraph 20 {} [qA, qB, qC] ∧
    runQueriesFlat exGraph 20 {} [qC, qB, qA] = runQueries exGraph 20 {} [qC, qB, qA] ∧
    [qA, qB, qC][2]? = some qC ∧ [qC, qB, qA][0]? = some qC ∧
    (runQueries exGraph 20 {} [qA, qB, qC])[2]? = some (some (some [.undef "z", .nm 103])) ∧
    (runQueries exGraph 20 {} [qC, qB, qA])[0]? = some (some (some [.undef "z", .nm 103])) :=
  ⟨by decide +kernel, by decide +kernel, rfl, rfl, by decide +kernel, by decide +kernel⟩

/-- the hypothesis of `C04_memo_total` is met -/
example : ∀ q' ∈ [qA, qB, qC], (lookupAt exGraph 20 q'.flow q'.pos q'.key).isSome := by
  decide +kernel

/-- two loops in sequence (flow 1 / body 2 / back edge loop 1, then flow 3 / body 4 / back edge
    loop 2, flow 5 after): also inside the domain of the partial theorems, in both query orders -/
def exSeq : Graph :=
  Graph.mk
    [FlowRec.mk 0 0 [nm 100 "x"] [],
     FlowRec.mk 1 0 [nm 101 "i"] [Parent.flow 0, Parent.loop 1 2],
     FlowRec.mk 2 0 [nm 102 "y"] [Parent.flow 1],
     FlowRec.mk 3 0 [nm 103 "j"] [Parent.flow 1, Parent.loop 2 4],
     FlowRec.mk 4 0 [nm 104 "z"] [Parent.flow 3],
     FlowRec.mk 5 0 [nm 105 "w"] [Parent.flow 3]]
    [ScopeRec.mk 0 .module none [] 5 []] []

def seqHistory : List Query := [⟨4, (0, 0), "y"⟩, ⟨5, (9, 9), "z"⟩, ⟨2, (0, 0), "y"⟩, ⟨4, (0, 0), "z"⟩]

example :
    runQueriesFlat exSeq 30 {} seqHistory = runQueries exSeq 30 {} seqHistory ∧
    runQueriesFlat exSeq 30 {} seqHistory.reverse = runQueries exSeq 30 {} seqHistory.reverse ∧
    runQueries exSeq 30 {} seqHistory =
      [some (some [.undef "y", .nm 102]), some (some [.undef "z", .nm 104]),
       some (some [.undef "y", .nm 102]), some (some [.undef "z", .nm 104])] ∧
    (runQueries exSeq 30 {} seqHistory.reverse).reverse = runQueries exSeq 30 {} seqHistory := by
  decide +kernel

end SuppModel.Props.C04
