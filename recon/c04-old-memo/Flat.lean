/-
  A CAUTIOUS copy of the memoised evaluator of Memo.lean.  `fFlowNames … fScopeNames`,
  `fNamesAt`, `runQueriesFlat` are, line for line, `mFlowNames … mScopeNames`, `mNamesAt`,
  `runQueries`, except that `fLoopNames` GIVES UP (answers `none`, as if out of fuel) instead
  of starting the resolution of a loop
    * while another resolution is in progress (a NESTED resolution), or
    * when the instance-level memo already holds a table for the same loop under another target.
  Whenever the cautious evaluator answers, the real one gives the same answer and the same memo
  (`Flow/LemmasFlat.lean`: `flatLe`, `fNamesAt_le`); and the cautious evaluator is a memoisation of the pure
  evaluator for EVERY graph (`runQueriesFlat_sound`) — which the real one is not
  (`Witness/C04.lean`): a table cached on the objects at top level is reused while a loop is
  being resolved, although it may have been computed by resolving, in a nested resolution, that
  very loop.  `runQueriesFlat g n {} qs = runQueries g n {} qs` is therefore a decidable
  certificate, per run, that the history `qs` stayed in the regime where C04 is proved.
  Executable, core Lean only (the driver may evaluate it).
-/
import SuppModel.Flow.Memo
namespace SuppModel.Flow

/-- does `inst` hold a value for loop `l` (under whatever target)? -/
def Store.hasLoop (s : Store) (l : Nat) : Bool :=
  s.any (fun e => match e.1 with | .loop l' _ => l' == l | _ => false)

mutual
def fFlowNames (g : Graph) : Nat → Memo → Nat → Option (Memo × Tbl)
  | 0, _, _ => none
  | fuel + 1, m, f =>
    match m.find? (.names f) with
    | some t => some (m, t)
    | none =>
      match g.flow? f with
      | none => none
      | some fr => do
        let (m1, p) ← fParentNames g fuel m fr
        let t := ownTable fr.names ++ p
        pure (m1.store (.names f) t, t)
def fParentNames (g : Graph) : Nat → Memo → FlowRec → Option (Memo × Tbl)
  | 0, _, _ => none
  | fuel + 1, m, fr =>
    match m.find? (.pnames fr.id) with
    | some t => some (m, t)
    | none => do
      let (m1, t) ← (match fr.parents with
        | [] =>
          match g.scope? fr.scope with
          | none => none
          | some sc =>
            match sc.parent with
            | none => some (m, ([] : Tbl))
            | some ps => do
              let (m1, outer) ← fScopeNames g fuel m ps
              match sc.kind with
              | .module => pure (m1, globalsTable sc ++ outer)
              | .cls => pure (m1, outer)
              | _ => pure (m1, outer.filter (fun e => !sc.locals.contains e.1))
        | [Parent.flow p] => fFlowNames g fuel m p
        | [Parent.loop l t] => do
          let (m1, r) ← fLoopNames g fuel m l t
          pure (m1, r.getD [])
        | ps => do
          let (m1, tables) ← fParentTables g fuel m ps
          pure (m1, mergeTables tables))
      pure (m1.store (.pnames fr.id) t, t)
def fParentTables (g : Graph) : Nat → Memo → List Parent → Option (Memo × List Tbl)
  | 0, _, _ => none
  | _ + 1, m, [] => some (m, [])
  | fuel + 1, m, Parent.flow p :: rest => do
    let (m1, t) ← fFlowNames g fuel m p
    let (m2, ts) ← fParentTables g fuel m1 rest
    pure (m2, t :: ts)
  | fuel + 1, m, Parent.loop l t :: rest => do
    let (m1, r) ← fLoopNames g fuel m l t
    let (m2, ts) ← fParentTables g fuel m1 rest
    pure (m2, match r with | some t => t :: ts | none => ts)
def fLoopNames (g : Graph) : Nat → Memo → Nat → Nat → Option (Memo × Option Tbl)
  | 0, _, _, _ => none
  | fuel + 1, m, l, target =>
    if m.resolving.contains l then some (m, none)
    else
      match m.find? (.loop l target) with
      | some t => some (m, some t)
      | none =>
        if !m.stack.isEmpty || m.inst.hasLoop l then none   -- GIVE UP: nested resolution / second target
        else do
          let m1 : Memo := { m with stack := [] :: m.stack, resolving := l :: m.resolving }
          let (m2, t) ← fFlowNames g fuel m1 target
          let m3 : Memo := { m2 with stack := m2.stack.drop 1, resolving := m2.resolving.erase l }
          pure (m3.store (.loop l target) t, some t)
def fScopeNames (g : Graph) : Nat → Memo → Nat → Option (Memo × Tbl)
  | 0, _, _ => none
  | fuel + 1, m, s =>
    match g.scope? s with
    | none => none
    | some sc =>
      match sc.kind with
      | .builtin => some (m, builtinTable g)
      | .module => do
        let (m1, t) ← fFlowNames g fuel m sc.final
        pure (m1, t ++ globalsTable sc)
      | .func => fFlowNames g fuel m sc.final
      | .cls =>
        match sc.parent with
        | some p => fScopeNames g fuel m p
        | none => none
end

def fNamesAt (g : Graph) (fuel : Nat) (m : Memo) (f : Nat) (pos : Pos) : Option (Memo × Tbl) :=
  match g.flow? f with
  | none => none
  | some fr => do
    let (m1, p) ← fParentNames g fuel m fr
    pure (m1, ownTable (fr.names.take (bisectRight fr.names pos)) ++ p)

def runQueriesFlat (g : Graph) (fuel : Nat) : Memo → List Query → List (Option (Option Val))
  | _, [] => []
  | m, q :: qs =>
    match fNamesAt g fuel m q.flow q.pos with
    | none => none :: runQueriesFlat g fuel m qs
    | some (m1, t) => some (t.get? q.key) :: runQueriesFlat g fuel m1 qs

end SuppModel.Flow
