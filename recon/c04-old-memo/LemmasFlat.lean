/-
  The cautious evaluator of Flat.lean is a memoisation of the pure evaluator, for every graph.

  INFORMAL ARGUMENT.  Write k[R] for the value the pure evaluator gives key k (a flow's `names`,
  its `parent_names`, or a loop's table) while the loops in R are being resolved.  The pure
  evaluator is fuel-monotone, so "k[R] = t" (`Sound g R k t`: some fuel gives t) is well defined.
  A memo state m of the cautious evaluator has at most ONE resolution in progress
  (`m.resolving = []` or `[l]`).  Say R is LACKING for `inst` if no loop of R has a table in
  `inst`.  Invariant `FlatOK g m`:
    (i)   every `inst` entry (k,t) satisfies k[R] = t for EVERY R lacking for `inst`;
    (ii)  `m.resolving` is lacking for `inst` (a loop with a table is never resolved again);
    (iii) every entry (k,t) of the scratch store satisfies k[m.resolving ++ R] = t for every R
          lacking for `inst`.
  Every call, started in m and returning (m', t) for key k, re-establishes the invariant for m',
  restores `resolving` and the stack depth, only adds loop tables to `inst`, and
          k[m.resolving ++ R] = t   for every R lacking for m'.inst.                     (*)
  * memo hit in `inst`: by (i) with m.resolving ++ R, lacking by (ii);  hit in scratch: (iii).
  * computed value: (*) of the sub-calls (their final `inst`s have fewer loop tables than
    m'.inst, so R is lacking for them too) + one step of the pure evaluator.
  * store at top level: (*) for R is exactly (i) for the new entry;  in a resolution: (iii).
  * loop l, in `m.resolving ++ R`: both sides say UNRESOLVED.  Loop l not resolving, no table:
    the cautious evaluator is at top level (else it gives up) and no table for l exists under
    any target; it evaluates the target in {resolving := [l], scratch := []}: invariant holds,
    (ii) because l has no table.  By (*) target[l :: R] = t for R lacking for the `inst` after the
    call; the new `inst` entry (loop l ↦ t) needs "l ∉ R and target[l :: R] = t" for R lacking for
    the NEW inst - and l is not in such an R because l now HAS a table.
  The point where the REAL evaluator escapes this argument is the give-up: a resolution started
  inside another one stores loop l' ↦ t' in the scratch store of the outer resolution only; when
  that is dropped, `inst` keeps tables that depended on resolving l' although l' has no table, and
  (i) fails for R = [l'] (Witness/C04.lean).
-/
import SuppModel.Flow.LemmasPure
import SuppModel.Flow.Flat
namespace SuppModel.Flow

/-- the value of key `k`, for the pure evaluator, while the loops `R` are being resolved -/
def Sound (g : Graph) (R : List Nat) : Key → Tbl → Prop
  | .names f, t => EvFl g R f t
  | .pnames f, t => ∃ fr, g.flow? f = some fr ∧ EvPn g R fr t
  | .loop l tg, t => EvLp g R l tg (some t)

def Lacking (inst : Store) (R : List Nat) : Prop := ∀ l ∈ R, inst.hasLoop l = false

def InstOK (g : Graph) (inst : Store) : Prop :=
  ∀ k t, inst.get? k = some t → ∀ R, Lacking inst R → Sound g R k t

structure FlatOK (g : Graph) (m : Memo) : Prop where
  inst : InstOK g m.inst
  lack : Lacking m.inst m.resolving
  len : m.stack.length = m.resolving.length
  le1 : m.stack.length ≤ 1
  top : ∀ s rest, m.stack = s :: rest → ∀ k t, s.get? k = some t →
          ∀ R, Lacking m.inst R → Sound g (m.resolving ++ R) k t

/-- what every call guarantees about the memo it returns -/
structure Post (g : Graph) (m m' : Memo) : Prop where
  ok : FlatOK g m'
  res : m'.resolving = m.resolving
  len : m'.stack.length = m.stack.length
  mono : ∀ l, m.inst.hasLoop l = true → m'.inst.hasLoop l = true

theorem Store.get?_cons (k : Key) (t : Tbl) (s : Store) (k' : Key) :
    Store.get? ((k, t) :: s) k' = if k = k' then some t else Store.get? s k' := by
  rw [Store.get?]

theorem Store.hasLoop_cons (k : Key) (t : Tbl) (s : Store) (l : Nat) :
    Store.hasLoop ((k, t) :: s) l =
      ((match k with | .loop l' _ => l' == l | _ => false) || Store.hasLoop s l) := by
  unfold Store.hasLoop
  rw [List.any_cons]
  cases k <;> rfl

theorem Store.hasLoop_of_get? (s : Store) (l tg : Nat) (t : Tbl)
    (h : s.get? (.loop l tg) = some t) : s.hasLoop l = true := by
  induction s with
  | nil => simp [Store.get?] at h
  | cons e s ih =>
    obtain ⟨k, v⟩ := e
    rw [Store.get?_cons] at h
    rw [Store.hasLoop_cons]
    by_cases hk : k = .loop l tg
    · subst hk; simp
    · simp only [hk, if_false] at h
      simp [ih h]

theorem Lacking.nil (inst : Store) : Lacking inst [] := by intro l hl; simp at hl

theorem Lacking.append {inst : Store} {R R' : List Nat} (h : Lacking inst R) (h' : Lacking inst R') :
    Lacking inst (R ++ R') := by
  intro l hl
  rcases List.mem_append.mp hl with h1 | h1
  · exact h l h1
  · exact h' l h1

theorem Lacking.of_cons {k : Key} {t : Tbl} {inst : Store} {R : List Nat}
    (h : Lacking ((k, t) :: inst) R) : Lacking inst R := by
  intro l hl
  have := h l hl
  rw [Store.hasLoop_cons] at this
  simp only [Bool.or_eq_false_iff] at this
  exact this.2

theorem Lacking.of_mono {inst inst' : Store} {R : List Nat}
    (hm : ∀ l, inst.hasLoop l = true → inst'.hasLoop l = true) (h : Lacking inst' R) :
    Lacking inst R := by
  intro l hl
  have := h l hl
  cases h1 : inst.hasLoop l with
  | false => rfl
  | true => rw [hm l h1] at this; exact this

theorem Post.refl {g : Graph} {m : Memo} (h : FlatOK g m) : Post g m m :=
  ⟨h, rfl, rfl, fun _ h => h⟩

theorem Post.trans {g : Graph} {m m1 m2 : Memo} (h1 : Post g m m1) (h2 : Post g m1 m2) :
    Post g m m2 :=
  ⟨h2.ok, h2.res.trans h1.res, h2.len.trans h1.len, fun l h => h2.mono l (h1.mono l h)⟩

theorem Post.lacking {g : Graph} {m m' : Memo} (h : Post g m m') {R : List Nat}
    (hl : Lacking m'.inst R) : Lacking m.inst R := Lacking.of_mono h.mono hl

/-- a memo hit is sound -/
theorem FlatOK.find {g : Graph} {m : Memo} (h : FlatOK g m) {k : Key} {t : Tbl}
    (hf : m.find? k = some t) : ∀ R, Lacking m.inst R → Sound g (m.resolving ++ R) k t := by
  intro R hR
  unfold Memo.find? at hf
  cases hi : m.inst.get? k with
  | some t' =>
    simp only [hi] at hf
    obtain rfl : t' = t := by simpa using hf
    exact h.inst k t' hi _ (Lacking.append h.lack hR)
  | none =>
    simp only [hi] at hf
    cases hs : m.stack with
    | nil => simp [hs] at hf
    | cons s rest =>
      simp only [hs] at hf
      exact h.top s rest hs k t hf R hR

theorem Memo.store_nil {m : Memo} (h : m.stack = []) (k : Key) (t : Tbl) :
    m.store k t = { m with inst := (k, t) :: m.inst } := by
  unfold Memo.store; rw [h]

theorem Memo.store_inst_cons {m : Memo} {s : Store} {rest : List Store} (h : m.stack = s :: rest)
    (k : Key) (t : Tbl) : (m.store k t).inst = m.inst := by
  unfold Memo.store; rw [h]

theorem Memo.store_mono (m : Memo) (k : Key) (t : Tbl) (l : Nat) (h : m.inst.hasLoop l = true) :
    (m.store k t).inst.hasLoop l = true := by
  cases hst : m.stack with
  | nil => rw [Memo.store_nil hst]; simp only []; rw [Store.hasLoop_cons, h]; simp
  | cons s rest => rw [Memo.store_inst_cons hst]; exact h

/-- storing a sound value keeps the invariant -/
theorem Post.store {g : Graph} {m : Memo} (h : FlatOK g m) {k : Key} {t : Tbl}
    (hs : ∀ R, Lacking (m.store k t).inst R → Sound g (m.resolving ++ R) k t) :
    Post g m (m.store k t) := by
  cases hst : m.stack with
  | nil =>
    have hres : m.resolving = [] := by
      have := h.len; rw [hst] at this; exact List.eq_nil_of_length_eq_zero this.symm
    rw [Memo.store_nil hst] at hs ⊢
    refine ⟨⟨?_, ?_, ?_, ?_, ?_⟩, rfl, ?_, ?_⟩
    · intro k' t' hg R hR
      simp only [] at hg hR
      rw [Store.get?_cons] at hg
      by_cases hk : k = k'
      · subst hk
        simp only [if_true] at hg
        cases hg
        have := hs R hR
        rwa [hres] at this
      · simp only [hk, if_false] at hg
        exact h.inst k' t' hg R (Lacking.of_cons hR)
    · simp only [hres]; exact Lacking.nil _
    · exact h.len
    · exact h.le1
    · intro s rest hs'; simp [hst] at hs'
    · rfl
    · intro l hl
      simp only [] at hl ⊢
      rw [Store.hasLoop_cons, hl]; simp
  | cons s rest =>
    have hi := Memo.store_inst_cons hst k t
    rw [hi] at hs
    unfold Memo.store
    rw [hst]
    refine ⟨⟨h.inst, h.lack, ?_, ?_, ?_⟩, rfl, ?_, fun _ h => h⟩
    · simpa [hst] using h.len
    · simpa [hst] using h.le1
    · intro s' rest' hs' k' t' hg R hR
      simp only [List.cons.injEq] at hs'
      obtain ⟨rfl, rfl⟩ := hs'
      rw [Store.get?_cons] at hg
      by_cases hk : k = k'
      · subst hk
        simp only [if_true] at hg
        cases hg
        exact hs R hR
      · simp only [hk, if_false] at hg
        exact h.top s rest hst k' t' hg R hR
    · simp [hst]

/-- compute (from `m` to `m1`), then store -/
theorem Post.store_step {g : Graph} {m m1 : Memo} {k : Key} {t : Tbl} (h1 : Post g m m1)
    (hv : ∀ R, Lacking m1.inst R → Sound g (m.resolving ++ R) k t) :
    Post g m (m1.store k t) ∧ ∀ R, Lacking (m1.store k t).inst R → Sound g (m.resolving ++ R) k t := by
  have hl : ∀ R, Lacking (m1.store k t).inst R → Lacking m1.inst R :=
    fun R hR => Lacking.of_mono (Memo.store_mono m1 k t) hR
  have hst : Post g m1 (m1.store k t) :=
    Post.store h1.ok (fun R hR => by rw [h1.res]; exact hv R (hl R hR))
  exact ⟨h1.trans hst, fun R hR => hv R (hl R hR)⟩

theorem some_pair_inj {α β} {a a' : α} {b b' : β} (h : some (a, b) = some (a', b')) :
    a = a' ∧ b = b' := by
  cases h; exact ⟨rfl, rfl⟩

structure FlatSim (g : Graph) (n : Nat) : Prop where
  fl : ∀ (m m' : Memo) f t, FlatOK g m → fFlowNames g n m f = some (m', t) →
        Post g m m' ∧ ∀ R, Lacking m'.inst R → EvFl g (m.resolving ++ R) f t
  pn : ∀ (m m' : Memo) fr t, g.flow? fr.id = some fr → FlatOK g m →
        fParentNames g n m fr = some (m', t) →
        Post g m m' ∧ ∀ R, Lacking m'.inst R → EvPn g (m.resolving ++ R) fr t
  pt : ∀ (m m' : Memo) ps ts, FlatOK g m → fParentTables g n m ps = some (m', ts) →
        Post g m m' ∧ ∀ R, Lacking m'.inst R → EvPt g (m.resolving ++ R) ps ts
  lp : ∀ (m m' : Memo) l tg r, FlatOK g m → fLoopNames g n m l tg = some (m', r) →
        Post g m m' ∧ ∀ R, Lacking m'.inst R → EvLp g (m.resolving ++ R) l tg r
  sc : ∀ (m m' : Memo) s t, FlatOK g m → fScopeNames g n m s = some (m', t) →
        Post g m m' ∧ ∀ R, Lacking m'.inst R → EvSc g (m.resolving ++ R) s t

theorem flatSim_fl {g : Graph} {n : Nat} (ih : FlatSim g n) (m m' : Memo) (f : Nat) (t : Tbl)
    (hok : FlatOK g m) (h : fFlowNames g (n + 1) m f = some (m', t)) :
    Post g m m' ∧ ∀ R, Lacking m'.inst R → EvFl g (m.resolving ++ R) f t := by
  rw [fFlowNames] at h
  cases hfind : m.find? (.names f) with
  | some t' =>
    simp only [hfind] at h
    obtain ⟨rfl, rfl⟩ := some_pair_inj h
    exact ⟨Post.refl hok, fun R hR => hok.find hfind R hR⟩
  | none =>
    simp only [hfind] at h
    cases hfr : g.flow? f with
    | none => simp [hfr] at h
    | some fr =>
      simp only [hfr] at h
      obtain ⟨⟨m1, p⟩, hsub, hfin⟩ := bind_eq_some' h
      obtain ⟨rfl, rfl⟩ := some_pair_inj hfin
      have hid := flow?_id hfr
      obtain ⟨h1, hv⟩ := ih.pn m m1 fr p (by rw [hid]; exact hfr) hok hsub
      exact Post.store_step (k := .names f) h1 (fun R hR => EvFl.mk hfr (hv R hR))

theorem flatSim_pn {g : Graph} {n : Nat} (ih : FlatSim g n) (m m' : Memo) (fr : FlowRec) (t : Tbl)
    (hfr : g.flow? fr.id = some fr) (hok : FlatOK g m)
    (h : fParentNames g (n + 1) m fr = some (m', t)) :
    Post g m m' ∧ ∀ R, Lacking m'.inst R → EvPn g (m.resolving ++ R) fr t := by
  rw [fParentNames] at h
  cases hfind : m.find? (.pnames fr.id) with
  | some t' =>
    simp only [hfind] at h
    obtain ⟨rfl, rfl⟩ := some_pair_inj h
    refine ⟨Post.refl hok, fun R hR => ?_⟩
    obtain ⟨fr', hfr', hev⟩ := hok.find hfind R hR
    rw [hfr] at hfr'
    cases hfr'
    exact hev
  | none =>
    simp only [hfind] at h
    obtain ⟨⟨m1, t1⟩, hX, hfin⟩ := bind_eq_some' h
    obtain ⟨rfl, rfl⟩ := some_pair_inj hfin
    suffices hs : Post g m m1 ∧ ∀ R, Lacking m1.inst R → EvPn g (m.resolving ++ R) fr t1 by
      have := Post.store_step (k := .pnames fr.id) (t := t1) hs.1
        (fun R hR => ⟨fr, hfr, hs.2 R hR⟩)
      refine ⟨this.1, fun R hR => ?_⟩
      obtain ⟨fr', hfr', hev⟩ := this.2 R hR
      rw [hfr] at hfr'
      cases hfr'
      exact hev
    generalize hps : fr.parents = ps at hX
    match ps, hps with
    | [], hps =>
      simp only [] at hX
      cases hsc : g.scope? fr.scope with
      | none => simp [hsc] at hX
      | some sc =>
        simp only [hsc] at hX
        cases hpar : sc.parent with
        | none =>
          simp only [hpar] at hX
          obtain ⟨rfl, rfl⟩ := some_pair_inj hX
          exact ⟨Post.refl hok, fun R _ => EvPn.root hps hsc hpar⟩
        | some ps' =>
          simp only [hpar] at hX
          obtain ⟨⟨m1', outer⟩, hsub, hfin2⟩ := bind_eq_some' hX
          have hw : m1' = m1 ∧ scopeWrap sc outer = t1 := by
            unfold scopeWrap
            cases hk : sc.kind <;> simp only [hk] at hfin2 ⊢ <;> exact some_pair_inj hfin2
          obtain ⟨rfl, rfl⟩ := hw
          obtain ⟨h1, hv⟩ := ih.sc m m1' ps' outer hok hsub
          exact ⟨h1, fun R hR => EvPn.scope hps hsc hpar (hv R hR)⟩
    | [Parent.flow p], hps =>
      simp only [] at hX
      obtain ⟨h1, hv⟩ := ih.fl m m1 p t1 hok hX
      exact ⟨h1, fun R hR => EvPn.flow hps (hv R hR)⟩
    | [Parent.loop l tg], hps =>
      simp only [] at hX
      obtain ⟨⟨m1', r⟩, hsub, hfin2⟩ := bind_eq_some' hX
      obtain ⟨rfl, rfl⟩ := some_pair_inj hfin2
      obtain ⟨h1, hv⟩ := ih.lp m m1' l tg r hok hsub
      exact ⟨h1, fun R hR => EvPn.loop hps (hv R hR)⟩
    | a :: b :: rest, hps =>
      simp only [] at hX
      obtain ⟨⟨m1', ts⟩, hsub, hfin2⟩ := bind_eq_some' hX
      obtain ⟨rfl, rfl⟩ := some_pair_inj hfin2
      obtain ⟨h1, hv⟩ := ih.pt m m1' (a :: b :: rest) ts hok hsub
      exact ⟨h1, fun R hR => EvPn.many hps (hv R hR)⟩

theorem flatSim_pt {g : Graph} {n : Nat} (ih : FlatSim g n) (m m' : Memo) (ps : List Parent)
    (ts : List Tbl) (hok : FlatOK g m) (h : fParentTables g (n + 1) m ps = some (m', ts)) :
    Post g m m' ∧ ∀ R, Lacking m'.inst R → EvPt g (m.resolving ++ R) ps ts := by
  match ps with
  | [] =>
    rw [fParentTables] at h
    obtain ⟨rfl, rfl⟩ := some_pair_inj h
    exact ⟨Post.refl hok, fun R _ => EvPt.nil⟩
  | Parent.flow p :: rest =>
    rw [fParentTables] at h
    obtain ⟨⟨m1, t1⟩, hsub1, h2⟩ := bind_eq_some' h
    obtain ⟨⟨m2, ts2⟩, hsub2, hfin⟩ := bind_eq_some' h2
    obtain ⟨rfl, rfl⟩ := some_pair_inj hfin
    obtain ⟨h1, hv1⟩ := ih.fl m m1 p t1 hok hsub1
    obtain ⟨h2, hv2⟩ := ih.pt m1 m2 rest ts2 h1.ok hsub2
    refine ⟨h1.trans h2, fun R hR => EvPt.flow (hv1 R (h2.lacking hR)) ?_⟩
    have := hv2 R hR
    rwa [h1.res] at this
  | Parent.loop l tg :: rest =>
    rw [fParentTables] at h
    obtain ⟨⟨m1, r⟩, hsub1, h2⟩ := bind_eq_some' h
    obtain ⟨⟨m2, ts2⟩, hsub2, hfin⟩ := bind_eq_some' h2
    have hfin' : m2 = m' ∧ consOpt r ts2 = ts := by
      unfold consOpt
      cases r <;> exact some_pair_inj hfin
    obtain ⟨rfl, rfl⟩ := hfin'
    obtain ⟨h1, hv1⟩ := ih.lp m m1 l tg r hok hsub1
    obtain ⟨h2, hv2⟩ := ih.pt m1 m2 rest ts2 h1.ok hsub2
    refine ⟨h1.trans h2, fun R hR => EvPt.loop (hv1 R (h2.lacking hR)) ?_⟩
    have := hv2 R hR
    rwa [h1.res] at this

theorem flatSim_sc {g : Graph} {n : Nat} (ih : FlatSim g n) (m m' : Memo) (s : Nat) (t : Tbl)
    (hok : FlatOK g m) (h : fScopeNames g (n + 1) m s = some (m', t)) :
    Post g m m' ∧ ∀ R, Lacking m'.inst R → EvSc g (m.resolving ++ R) s t := by
  rw [fScopeNames] at h
  cases hsc : g.scope? s with
  | none => simp [hsc] at h
  | some sc =>
    simp only [hsc] at h
    cases hk : sc.kind with
    | builtin =>
      simp only [hk] at h
      obtain ⟨rfl, rfl⟩ := some_pair_inj h
      exact ⟨Post.refl hok, fun R _ => EvSc.builtin hsc hk⟩
    | module =>
      simp only [hk] at h
      obtain ⟨⟨m1, t1⟩, hsub, hfin⟩ := bind_eq_some' h
      obtain ⟨rfl, rfl⟩ := some_pair_inj hfin
      obtain ⟨h1, hv⟩ := ih.fl m m1 sc.final t1 hok hsub
      exact ⟨h1, fun R hR => EvSc.module hsc hk (hv R hR)⟩
    | func =>
      simp only [hk] at h
      obtain ⟨h1, hv⟩ := ih.fl m m' sc.final t hok h
      exact ⟨h1, fun R hR => EvSc.func hsc hk (hv R hR)⟩
    | cls =>
      simp only [hk] at h
      cases hp : sc.parent with
      | none => simp [hp] at h
      | some p =>
        simp only [hp] at h
        obtain ⟨h1, hv⟩ := ih.sc m m' p t hok h
        exact ⟨h1, fun R hR => EvSc.cls hsc hk hp (hv R hR)⟩

theorem contains_append_left {R R' : List Nat} {l : Nat} (h : R.contains l = true) :
    (R ++ R').contains l = true := by
  simp only [List.contains_eq_mem, List.mem_append, decide_eq_true_eq] at h ⊢
  exact Or.inl h

theorem flatSim_lp {g : Graph} {n : Nat} (ih : FlatSim g n) (m m' : Memo) (l tg : Nat)
    (r : Option Tbl) (hok : FlatOK g m) (h : fLoopNames g (n + 1) m l tg = some (m', r)) :
    Post g m m' ∧ ∀ R, Lacking m'.inst R → EvLp g (m.resolving ++ R) l tg r := by
  rw [fLoopNames] at h
  by_cases hc : m.resolving.contains l = true
  · rw [if_pos hc] at h
    obtain ⟨rfl, rfl⟩ := some_pair_inj h
    exact ⟨Post.refl hok, fun R _ => EvLp.unresolved (contains_append_left hc)⟩
  · rw [if_neg hc] at h
    cases hfind : m.find? (.loop l tg) with
    | some t' =>
      simp only [hfind] at h
      obtain ⟨rfl, rfl⟩ := some_pair_inj h
      exact ⟨Post.refl hok, fun R hR => hok.find hfind R hR⟩
    | none =>
      simp only [hfind] at h
      by_cases hgu : (!m.stack.isEmpty || m.inst.hasLoop l) = true
      · rw [if_pos hgu] at h; cases h
      · rw [if_neg hgu] at h
        simp only [Bool.or_eq_true, Bool.not_eq_true', not_or, Bool.not_eq_false,
          Bool.not_eq_true] at hgu
        obtain ⟨hemp, hno⟩ := hgu
        have hstack : m.stack = [] := List.isEmpty_iff.mp hemp
        have hres : m.resolving = [] := by
          have := hok.len; rw [hstack] at this; exact List.eq_nil_of_length_eq_zero this.symm
        obtain ⟨⟨m2, t2⟩, hsub, hfin⟩ := bind_eq_some' h
        obtain ⟨hm', rfl⟩ := some_pair_inj hfin
        -- the state in which the target is evaluated
        have hok1 : FlatOK g { m with stack := [] :: m.stack, resolving := l :: m.resolving } := by
          refine ⟨hok.inst, ?_, ?_, ?_, ?_⟩
          · intro l' hl'
            simp only [List.mem_cons] at hl'
            rcases hl' with rfl | hl'
            · exact hno
            · exact hok.lack l' hl'
          · simp [hok.len]
          · simp [hstack]
          · intro s rest hs k t hg
            simp only [List.cons.injEq] at hs
            obtain ⟨rfl, -⟩ := hs
            simp [Store.get?] at hg
        obtain ⟨h1, hv⟩ := ih.fl _ m2 tg t2 hok1 hsub
        have hres2 : m2.resolving = [l] := by rw [h1.res, hres]
        have hlen2 : m2.stack.length = 1 := by rw [h1.len, hstack]; rfl
        have hdrop : m2.stack.drop 1 = [] := by
          apply List.eq_nil_of_length_eq_zero; simp [hlen2]
        -- the state after the resolution, before the table is stored
        have hok3 : FlatOK g { m2 with stack := m2.stack.drop 1, resolving := m2.resolving.erase l } := by
          refine ⟨h1.ok.inst, ?_, ?_, ?_, ?_⟩
          · simp only [hres2, List.erase_cons_head]; exact Lacking.nil _
          · simp [hres2, hdrop]
          · simp [hdrop]
          · intro s rest hs; simp [hdrop] at hs
        have hkey : ∀ R, Lacking ((Key.loop l tg, t2) :: m2.inst) R → EvLp g R l tg (some t2) := by
          intro R hR
          have hnot : R.contains l = false := by
            cases hcl : R.contains l with
            | false => rfl
            | true =>
              have hmem : l ∈ R := by simpa using hcl
              have := hR l hmem
              rw [Store.hasLoop_cons] at this
              simp at this
          have := hv R (Lacking.of_cons hR)
          simp only [hres] at this
          exact EvLp.resolved hnot this
        have hst3 : ({ m2 with stack := m2.stack.drop 1, resolving := m2.resolving.erase l } : Memo).stack = [] :=
          hdrop
        have hpost3 := Post.store (k := .loop l tg) (t := t2) hok3 (by
          rw [Memo.store_nil hst3]
          intro R hR
          simp only [hres2, List.erase_cons_head, List.nil_append]
          exact hkey R hR)
        rw [Memo.store_nil hst3] at hm' hpost3
        subst hm'
        refine ⟨⟨hpost3.ok, ?_, ?_, ?_⟩, ?_⟩
        · simp [hres2, hres]
        · simp [hdrop, hstack]
        · intro l' hl'
          simp only []
          rw [Store.hasLoop_cons, h1.mono l' hl']
          simp
        · intro R hR
          rw [hres]
          exact hkey R hR

theorem flatSim (g : Graph) : ∀ n, FlatSim g n := by
  intro n
  induction n with
  | zero =>
    constructor <;> intros <;>
      simp_all [fFlowNames, fParentNames, fParentTables, fLoopNames, fScopeNames]
  | succ n ih =>
    exact ⟨flatSim_fl ih, flatSim_pn ih, flatSim_pt ih, flatSim_lp ih, flatSim_sc ih⟩

/-! ### the cautious evaluator only ever gives up: where it answers, the real one answers the same -/

structure FlatLe (g : Graph) (n : Nat) : Prop where
  fl : ∀ m f, Le (fFlowNames g n m f) (mFlowNames g n m f)
  pn : ∀ m fr, Le (fParentNames g n m fr) (mParentNames g n m fr)
  pt : ∀ m ps, Le (fParentTables g n m ps) (mParentTables g n m ps)
  lp : ∀ m l tg, Le (fLoopNames g n m l tg) (mLoopNames g n m l tg)
  sc : ∀ m s, Le (fScopeNames g n m s) (mScopeNames g n m s)

theorem flatLe (g : Graph) : ∀ n, FlatLe g n := by
  intro n
  induction n with
  | zero =>
    constructor <;> intros <;>
      simp [fFlowNames, fParentNames, fParentTables, fLoopNames, fScopeNames, Le.none]
  | succ n ih =>
    constructor
    · intro m f
      rw [fFlowNames, mFlowNames]
      cases m.find? (.names f) with
      | some t => exact Le.refl _
      | none =>
        simp only []
        cases g.flow? f with
        | none => exact Le.refl _
        | some fr => exact Le.bind (ih.pn _ _) (fun _ => Le.refl _)
    · intro m fr
      rw [fParentNames, mParentNames]
      cases m.find? (.pnames fr.id) with
      | some t => exact Le.refl _
      | none =>
        simp only []
        refine Le.bind ?_ (fun _ => Le.refl _)
        generalize fr.parents = ps
        match ps with
        | [] =>
          simp only []
          cases g.scope? fr.scope with
          | none => exact Le.refl _
          | some sc =>
            simp only []
            cases sc.parent with
            | none => exact Le.refl _
            | some ps => exact Le.bind (ih.sc _ _) (fun _ => Le.refl _)
        | [Parent.flow p] => exact ih.fl _ _
        | [Parent.loop l t] => exact Le.bind (ih.lp _ _ _) (fun _ => Le.refl _)
        | _ :: _ :: _ => simp only []; exact Le.bind (ih.pt _ _) (fun _ => Le.refl _)
    · intro m ps
      match ps with
      | [] => rw [fParentTables, mParentTables]; exact Le.refl _
      | Parent.flow p :: rest =>
        rw [fParentTables, mParentTables]
        exact Le.bind (ih.fl _ _) (fun _ => Le.bind (ih.pt _ _) (fun _ => Le.refl _))
      | Parent.loop l t :: rest =>
        rw [fParentTables, mParentTables]
        exact Le.bind (ih.lp _ _ _) (fun _ => Le.bind (ih.pt _ _) (fun _ => Le.refl _))
    · intro m l tg
      rw [fLoopNames, mLoopNames]
      split
      · exact Le.refl _
      · cases m.find? (.loop l tg) with
        | some t => exact Le.refl _
        | none =>
          simp only []
          split
          · exact Le.none _
          · exact Le.bind (ih.fl _ _) (fun _ => Le.refl _)
    · intro m s
      rw [fScopeNames, mScopeNames]
      cases g.scope? s with
      | none => exact Le.refl _
      | some sc =>
        simp only []
        cases sc.kind with
        | builtin => exact Le.refl _
        | module => exact Le.bind (ih.fl _ _) (fun _ => Le.refl _)
        | func => exact ih.fl _ _
        | cls =>
          simp only []
          cases sc.parent with
          | none => exact Le.refl _
          | some p => exact ih.sc _ _

theorem fNamesAt_le (g : Graph) (n : Nat) (m : Memo) (f : Nat) (pos : Pos) :
    Le (fNamesAt g n m f pos) (mNamesAt g n m f pos) := by
  unfold fNamesAt mNamesAt
  cases g.flow? f with
  | none => exact Le.refl _
  | some fr => exact Le.bind ((flatLe g n).pn _ _) (fun _ => Le.refl _)

/-! ### histories -/

theorem FlatOK.empty (g : Graph) : FlatOK g {} := by
  refine ⟨?_, Lacking.nil _, rfl, by simp, ?_⟩
  · intro k t h; simp [Store.get?] at h
  · intro s rest h; simp at h

theorem fNamesAt_sound {g : Graph} {n : Nat} {m m' : Memo} {f : Nat} {pos : Pos} {t : Tbl}
    (hok : FlatOK g m) (hres : m.resolving = []) (h : fNamesAt g n m f pos = some (m', t)) :
    FlatOK g m' ∧ m'.resolving = [] ∧ ∃ n', namesAt g n' [] f pos = some t := by
  unfold fNamesAt at h
  cases hfr : g.flow? f with
  | none => simp [hfr] at h
  | some fr =>
    simp only [hfr] at h
    obtain ⟨⟨m1, p⟩, hsub, hfin⟩ := bind_eq_some' h
    obtain ⟨rfl, rfl⟩ := some_pair_inj hfin
    have hid := flow?_id hfr
    obtain ⟨h1, hv⟩ := (flatSim g n).pn m m1 fr p (by rw [hid]; exact hfr) hok hsub
    refine ⟨h1.ok, by rw [h1.res, hres], ?_⟩
    obtain ⟨n', hn'⟩ := hv [] (Lacking.nil _)
    rw [hres] at hn'
    have hn'' : parentNames g n' [] fr = some p := hn'
    exact ⟨n', by unfold namesAt; simp [hfr, hn'']⟩

/-- every answer of the cautious evaluator, after any history, is the pure evaluator's -/
theorem runQueriesFlat_sound (g : Graph) (n : Nat) (qs : List Query) :
    ∀ (m : Memo), FlatOK g m → m.resolving = [] →
      ∀ (i : Nat) (q : Query) (a : Option Val), qs[i]? = some q →
        (runQueriesFlat g n m qs)[i]? = some (some a) →
        ∃ n', lookupAt g n' q.flow q.pos q.key = some a := by
  induction qs with
  | nil => intro m _ _ i q a hq; simp at hq
  | cons q0 qs ih =>
    intro m hok hres i q a hq ha
    rw [runQueriesFlat] at ha
    cases hr : fNamesAt g n m q0.flow q0.pos with
    | none =>
      simp only [hr] at ha
      cases i with
      | zero => simp at ha
      | succ i =>
        simp only [List.getElem?_cons_succ] at hq ha
        exact ih m hok hres i q a hq ha
    | some r =>
      obtain ⟨m1, t⟩ := r
      simp only [hr] at ha
      obtain ⟨hok1, hres1, n', hn'⟩ := fNamesAt_sound hok hres hr
      cases i with
      | zero =>
        simp only [List.getElem?_cons_zero, Option.some.injEq] at hq ha
        subst hq
        exact ⟨n', by unfold lookupAt; simp [hn', ha]⟩
      | succ i =>
        simp only [List.getElem?_cons_succ] at hq ha
        exact ih m1 hok1 hres1 i q a hq ha

end SuppModel.Flow
