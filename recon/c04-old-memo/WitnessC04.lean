/-
  C04 — witnesses proved by evaluation (`decide +kernel`).

  The memoised evaluator of Flow/Memo.lean (= scope.py after the fix "name tables computed while
  a loop was being resolved were cached for good": per-resolution scratch memos, instance-level
  memo consulted first) is NOT a memoisation of the pure evaluator on every graph, and its
  answers DO depend on the history on some graphs.

  Mechanism (gSingle).  Flow 3 has two loop predecessors, loop 0 (target 3) and loop 1 (target 2);
  flow 2 has predecessors flow 1 and loop 0.  Cold query at flow 3:
    * loop 0 is resolved at top level; inside, loop 1 is met and resolved in a NESTED resolution;
      its table goes to the scratch memo of loop 0's resolution and is dropped with it; loop 0's
      table (which depended on loop 1 being RESOLVED) is stored on the object (`inst`);
    * then loop 1 is resolved at top level; flow 2 asks for loop 0 and `Memo.find?` returns the
      instance-level table, although under "loop 1 is being resolved" the pure evaluator's loop 0
      sees loop 1 UNRESOLVED.
  Same shape in scope.py: `obj.__dict__['names']` / `LoopFlow._names` win even while
  `LoopFlow.resolving` is non-empty.
  These graphs are not extractor-shaped (a flow whose only predecessors are loop edges, a loop
  edge listed before the forward edge); on the for/for graph `gNested` below, which is, all
  answers agree with the pure evaluator — but the cautious evaluator of Flow/Flat.lean gives up
  there, so `C04_history_partial` does not cover nested loops: there the property rests on the
  correspondence / oracle search of harness/c04.py only.
-/
import SuppModel.Props.C04

namespace SuppModel.Witness.C04
open SuppModel.Flow SuppModel.Props.C04

private def nm (i : Nat) (s : String) : NameRec := { id := i, name := s, loc := (1, 0), scope := 0 }
private def modScope (fin : Nat) : ScopeRec := ScopeRec.mk 0 .module none [] fin []

/-- one cold query already differs from the pure evaluator -/
def gSingle : Graph :=
  Graph.mk
    [FlowRec.mk 0 0 [nm 0 "b"] [],
     FlowRec.mk 1 0 [] [Parent.flow 0],
     FlowRec.mk 2 0 [nm 2 "a"] [Parent.flow 1, Parent.loop 0 3],
     FlowRec.mk 3 0 [] [Parent.loop 0 3, Parent.loop 1 2]]
    [modScope 3] []

def qSingle : Query := ⟨3, (9, 9), "b"⟩

theorem C04_single_memo :
    runQueries gSingle 15 {} [qSingle] = [some (some [.nm 0])] := by decide +kernel

theorem C04_single_pure :
    lookupAt gSingle 15 3 (9, 9) "b" = some (some [.undef "b", .nm 0]) := by decide +kernel

/-- the full-strength history statement is false of the model -/
theorem C04_history_false : ¬ C04_history_stmt := by
  intro h
  obtain ⟨n', hn'⟩ := h gSingle 15 [qSingle] 0 qSingle (some [.nm 0]) rfl
    (by rw [C04_single_memo]; rfl)
  have := C04_pure_deterministic gSingle n' 15 3 (9, 9) "b" _ _ hn' C04_single_pure
  revert this
  decide

/-- genuine history dependence: the answer to `qDep` depends on whether flow 0 was queried before -/
def gDep : Graph :=
  Graph.mk
    [FlowRec.mk 0 0 [nm 0 "b"] [Parent.loop 0 1],
     FlowRec.mk 1 0 [nm 1 "a"] [Parent.loop 1 2, Parent.flow 0],
     FlowRec.mk 2 0 [nm 2 "a"] [Parent.loop 0 1]]
    [modScope 2] []

def qWarm : Query := ⟨0, (9, 9), "b"⟩
def qDep : Query := ⟨1, (9, 9), "b"⟩

theorem C04_dep_warm :
    runQueries gDep 13 {} [qWarm, qDep] = [some (some [.nm 0]), some (some [.undef "b", .nm 0])] := by
  decide +kernel

theorem C04_dep_cold : runQueries gDep 13 {} [qDep] = [some (some [.nm 0])] := by decide +kernel

/-- the full-strength two-histories statement is false of the model -/
theorem C04_two_histories_false : ¬ C04_two_histories_stmt := by
  intro h
  have := h gDep 13 13 [qWarm, qDep] [qDep] 1 0 qDep (some [.undef "b", .nm 0]) (some [.nm 0])
    rfl rfl (by rw [C04_dep_warm]; rfl) (by rw [C04_dep_cold]; rfl)
  revert this
  decide

/-- on both witnesses the cautious evaluator gives up (so the partial theorems do not apply) -/
theorem C04_cautious_gives_up :
    runQueriesFlat gSingle 15 {} [qSingle] = [none] ∧
    runQueriesFlat gDep 13 {} [qWarm, qDep] = [none, none] ∧
    runQueriesFlat gDep 13 {} [qDep] = [none] := by decide +kernel

/-- `for i …: c; for j …: (if …: y); d` then `z`: an extractor-shaped graph with NESTED loops.
    flow 1 = outer head (back edge: loop 1 from flow 5), flow 2 = inner head (loop 2 from flow 4) -/
def gNested : Graph :=
  Graph.mk
    [FlowRec.mk 0 0 [nm 100 "x"] [],
     FlowRec.mk 1 0 [nm 101 "i", nm 102 "c"] [Parent.flow 0, Parent.loop 1 5],
     FlowRec.mk 2 0 [nm 103 "j"] [Parent.flow 1, Parent.loop 2 4],
     FlowRec.mk 3 0 [nm 104 "y"] [Parent.flow 2],
     FlowRec.mk 4 0 [] [Parent.flow 3, Parent.flow 2],
     FlowRec.mk 5 0 [nm 105 "d"] [Parent.flow 2],
     FlowRec.mk 6 0 [nm 106 "z"] [Parent.flow 1]]
    [modScope 6] []

def nestedHistory : List Query := [⟨6, (9, 9), "y"⟩, ⟨4, (0, 0), "y"⟩, ⟨4, (0, 0), "d"⟩]

/-- there the real evaluator agrees with the pure one, but the cautious one gives up on every
    query: nested loops are outside the domain of `C04_history_partial` -/
theorem C04_nested_not_covered :
    runQueries gNested 40 {} nestedHistory =
      nestedHistory.map (fun q => lookupAt gNested 40 q.flow q.pos q.key) ∧
    runQueries gNested 40 {} nestedHistory =
      [some (some [.undef "y", .nm 104]), some (some [.undef "y", .nm 104]),
       some (some [.undef "d", .nm 105])] ∧
    runQueriesFlat gNested 40 {} nestedHistory = [none, none, none] := by decide +kernel

end SuppModel.Witness.C04
