/-
  Same-fuel completeness of the memoised evaluator (Memo.lean) w.r.t. the pure one (Graph.lean).

  The memoised evaluator walks the call tree of the pure evaluator for the same fuel and the same
  set of loops being resolved (`m.resolving` IS the `R` of the pure evaluator), pruned wherever a
  memo entry is found.  A pruned call needs no fuel at all, every other call has exactly the fuel
  the pure evaluator has at that node; the pure evaluator answers `some` only if every call of
  its tree does.  So the memoised evaluator never runs out of fuel where the pure one does not.
  Only `resolving` has to be tracked: it is restored by every call.
  (Nothing is claimed here about WHICH table is returned — see LemmasFlat.lean / Witness/C04.lean.)
-/
import SuppModel.Flow.LemmasFuel
namespace SuppModel.Flow

@[simp] theorem Memo.store_resolving (m : Memo) (k : Key) (t : Tbl) :
    (m.store k t).resolving = m.resolving := by
  unfold Memo.store; split <;> rfl

structure Total (g : Graph) (n : Nat) : Prop where
  fl : ∀ (m : Memo) f t, flowNames g n m.resolving f = some t →
        ∃ r, mFlowNames g n m f = some r ∧ r.1.resolving = m.resolving
  pn : ∀ (m : Memo) fr t, parentNames g n m.resolving fr = some t →
        ∃ r, mParentNames g n m fr = some r ∧ r.1.resolving = m.resolving
  pt : ∀ (m : Memo) ps t, parentTables g n m.resolving ps = some t →
        ∃ r, mParentTables g n m ps = some r ∧ r.1.resolving = m.resolving
  lp : ∀ (m : Memo) l tg t, loopNames g n m.resolving l tg = some t →
        ∃ r, mLoopNames g n m l tg = some r ∧ r.1.resolving = m.resolving
  sc : ∀ (m : Memo) s t, scopeNames g n m.resolving s = some t →
        ∃ r, mScopeNames g n m s = some r ∧ r.1.resolving = m.resolving

theorem total_all (g : Graph) : ∀ n, Total g n := by
  intro n
  induction n with
  | zero => constructor <;> intros <;> simp_all [flowNames, parentNames, parentTables, loopNames, scopeNames]
  | succ n ih =>
    constructor
    · intro m f t h
      rw [flowNames] at h
      rw [mFlowNames]
      cases hfind : m.find? (.names f) with
      | some t' => exact ⟨(m, t'), rfl, rfl⟩
      | none =>
        simp only []
        cases hfr : g.flow? f with
        | none => simp [hfr] at h
        | some fr =>
          simp only [hfr] at h ⊢
          obtain ⟨p, hp, -⟩ := bind_eq_some' h
          obtain ⟨⟨m1, p'⟩, hr, hres⟩ := ih.pn m fr p hp
          refine ⟨((m1.store (.names f) (ownTable fr.names ++ p')), ownTable fr.names ++ p'), ?_, ?_⟩
          · simp [hr]
          · simpa using hres
    · intro m fr t h
      rw [parentNames] at h
      rw [mParentNames]
      cases hfind : m.find? (.pnames fr.id) with
      | some t' => exact ⟨(m, t'), rfl, rfl⟩
      | none =>
        simp only []
        generalize fr.parents = ps at h ⊢
        match ps with
        | [] =>
          simp only [] at h ⊢
          cases hsc : g.scope? fr.scope with
          | none => simp [hsc] at h
          | some sc =>
            simp only [hsc] at h ⊢
            cases hpar : sc.parent with
            | none => exact ⟨_, rfl, by simp⟩
            | some ps =>
              simp only [hpar] at h ⊢
              obtain ⟨o, ho, -⟩ := bind_eq_some' h
              obtain ⟨⟨m1, o'⟩, hr, hres⟩ := ih.sc m ps o ho
              have hres : m1.resolving = m.resolving := hres
              cases hk : sc.kind <;> simp [hr, hres]
        | [Parent.flow p] =>
          simp only [] at h ⊢
          obtain ⟨⟨m1, o'⟩, hr, hres⟩ := ih.fl m p t h
          have hres : m1.resolving = m.resolving := hres
          simp [hr, hres]
        | [Parent.loop l tg] =>
          simp only [] at h ⊢
          obtain ⟨o, ho, -⟩ := bind_eq_some' h
          obtain ⟨⟨m1, o'⟩, hr, hres⟩ := ih.lp m l tg o ho
          have hres : m1.resolving = m.resolving := hres
          simp [hr, hres]
        | _ :: _ :: _ =>
          simp only [] at h ⊢
          obtain ⟨o, ho, -⟩ := bind_eq_some' h
          obtain ⟨⟨m1, o'⟩, hr, hres⟩ := ih.pt m _ o ho
          have hres : m1.resolving = m.resolving := hres
          simp [hr, hres]
    · intro m ps t h
      match ps with
      | [] => rw [mParentTables]; exact ⟨(m, []), rfl, rfl⟩
      | Parent.flow p :: rest =>
        rw [parentTables] at h
        rw [mParentTables]
        obtain ⟨a, ha, h2⟩ := bind_eq_some' h
        obtain ⟨b, hb, -⟩ := bind_eq_some' h2
        obtain ⟨⟨m1, a'⟩, hr1, hres1⟩ := ih.fl m p a ha
        rw [← hres1] at hb
        obtain ⟨⟨m2, b'⟩, hr2, hres2⟩ := ih.pt m1 rest b hb
        exact ⟨(m2, a' :: b'), by simp [hr1, hr2], hres2.trans hres1⟩
      | Parent.loop l tg :: rest =>
        rw [parentTables] at h
        rw [mParentTables]
        obtain ⟨a, ha, h2⟩ := bind_eq_some' h
        obtain ⟨b, hb, -⟩ := bind_eq_some' h2
        obtain ⟨⟨m1, a'⟩, hr1, hres1⟩ := ih.lp m l tg a ha
        rw [← hres1] at hb
        obtain ⟨⟨m2, b'⟩, hr2, hres2⟩ := ih.pt m1 rest b hb
        cases a' with
        | none => exact ⟨(m2, b'), by simp [hr1, hr2], hres2.trans hres1⟩
        | some v => exact ⟨(m2, v :: b'), by simp [hr1, hr2], hres2.trans hres1⟩
    · intro m l tg t h
      rw [loopNames] at h
      rw [mLoopNames]
      by_cases hc : m.resolving.contains l = true
      · simp only [hc, if_true]; exact ⟨(m, none), rfl, rfl⟩
      · simp only [hc] at h ⊢
        cases hfind : m.find? (.loop l tg) with
        | some t' => exact ⟨(m, some t'), rfl, rfl⟩
        | none =>
          simp only []
          obtain ⟨a, ha, -⟩ := bind_eq_some' h
          obtain ⟨⟨m2, a'⟩, hr, hres⟩ :=
            ih.fl { m with stack := [] :: m.stack, resolving := l :: m.resolving } tg a ha
          refine ⟨_, by simp [hr]; rfl, ?_⟩
          simp only [Memo.store_resolving]
          simp only at hres
          simp [hres]
    · intro m s t h
      rw [scopeNames] at h
      rw [mScopeNames]
      cases hsc : g.scope? s with
      | none => simp [hsc] at h
      | some sc =>
        simp only [hsc] at h ⊢
        cases hk : sc.kind with
        | builtin => exact ⟨(m, builtinTable g), rfl, rfl⟩
        | module =>
          simp only [hk] at h ⊢
          obtain ⟨a, ha, -⟩ := bind_eq_some' h
          obtain ⟨⟨m1, a'⟩, hr, hres⟩ := ih.fl m sc.final a ha
          exact ⟨(m1, a' ++ globalsTable sc), by simp [hr], hres⟩
        | func => simp only [hk] at h ⊢; exact ih.fl m sc.final t h
        | cls =>
          simp only [hk] at h ⊢
          cases hp : sc.parent with
          | none => simp [hp] at h
          | some p => simp only [hp] at h ⊢; exact ih.sc m p t h

theorem mNamesAt_total (g : Graph) (n : Nat) (m : Memo) (hm : m.resolving = []) (f : Nat) (pos : Pos)
    (x : String) (h : (lookupAt g n f pos x).isSome) :
    ∃ r, mNamesAt g n m f pos = some r ∧ r.1.resolving = [] := by
  unfold lookupAt namesAt at h
  unfold mNamesAt
  cases hfr : g.flow? f with
  | none => simp [hfr] at h
  | some fr =>
    simp only [hfr] at h ⊢
    cases hp : parentNames g n [] fr with
    | none => simp [hp] at h
    | some p =>
      rw [← hm] at hp
      obtain ⟨⟨m1, p'⟩, hr, hres⟩ := (total_all g n).pn m fr p hp
      have hres : m1.resolving = m.resolving := hres
      exact ⟨(m1, _), by simp [hr]; rfl, by simp [hres, hm]⟩

theorem runQueries_total (g : Graph) (n : Nat) (qs : List Query) :
    ∀ (m : Memo), m.resolving = [] →
      (∀ q' ∈ qs, (lookupAt g n q'.flow q'.pos q'.key).isSome) →
      ∀ (i : Nat) (q : Query), qs[i]? = some q → ((runQueries g n m qs)[i]?.bind id).isSome := by
  induction qs with
  | nil => intro m _ _ i q hq; simp at hq
  | cons q0 qs ih =>
    intro m hm hall i q hq
    obtain ⟨⟨m1, t⟩, hr, hres⟩ := mNamesAt_total g n m hm q0.flow q0.pos q0.key (hall q0 (by simp))
    have hres : m1.resolving = [] := hres
    rw [runQueries, hr]
    cases i with
    | zero => simp
    | succ i =>
      simp only [List.getElem?_cons_succ] at hq ⊢
      exact ih m1 hres (fun q' hq' => hall q' (by simp [hq'])) i q hq

end SuppModel.Flow
