/-
  The evaluator AS IT RUNS: `cached_property` / `loop_cached_property` / `LoopFlow._names`
  memos made explicit, so that a HISTORY of queries is a fold over an explicit memo state.
  C04 says the memo never changes an answer: every query returns what the pure evaluator
  `flowNames g · [] f` of Graph.lean returns from a cold start.

  Python side (scope.py):
    * `Flow.names`, `Flow.parent_names` are `loop_cached_property`s: a value found in the
      instance dict wins (non-data descriptor); otherwise, while some loop is being resolved,
      the value is looked up / stored in the memo of the innermost resolution
      (`LoopFlow.resolving[-1]`), else stored in the instance dict;
    * `LoopFlow.names`: UNRESOLVED when its `_resolving` flag is set; else `self._names` if
      present; else the entry of the innermost resolution's memo; else push a fresh memo, set
      the flag, evaluate `parent.names`, pop, clear the flag, store the result where
      `loop_memo(self)` pointed when the call began.
-/
import SuppModel.Flow.Graph

namespace SuppModel.Flow

inductive Key where
  | names (f : Nat)
  | pnames (f : Nat)
  | loop (l : Nat) (target : Nat)
  deriving DecidableEq, Repr

abbrev Store := List (Key × Tbl)

def Store.get? (s : Store) (k : Key) : Option Tbl :=
  match s with
  | [] => none
  | (k', v) :: r => if k' = k then some v else Store.get? r k

structure Memo where
  inst : Store := []            -- cached on the objects themselves
  stack : List Store := []      -- memos of the resolutions in progress, innermost first
  resolving : List Nat := []    -- loops whose `_resolving` flag is set
  deriving Repr

/-- look a key up the way `loop_cached_property.__get__` / `LoopFlow.names` do -/
def Memo.find? (m : Memo) (k : Key) : Option Tbl :=
  match m.inst.get? k with
  | some t => some t
  | none =>
    match m.stack with
    | [] => none
    | top :: _ => top.get? k

/-- store into `loop_memo(obj)` -/
def Memo.store (m : Memo) (k : Key) (t : Tbl) : Memo :=
  match m.stack with
  | [] => { m with inst := (k, t) :: m.inst }
  | top :: rest => { m with stack := ((k, t) :: top) :: rest }

mutual
def mFlowNames (g : Graph) : Nat → Memo → Nat → Option (Memo × Tbl)
  | 0, _, _ => none
  | fuel + 1, m, f =>
    match m.find? (.names f) with
    | some t => some (m, t)
    | none =>
      match g.flow? f with
      | none => none
      | some fr => do
        let (m1, p) ← mParentNames g fuel m fr
        let t := ownTable fr.names ++ p
        pure (m1.store (.names f) t, t)
def mParentNames (g : Graph) : Nat → Memo → FlowRec → Option (Memo × Tbl)
  | 0, _, _ => none
  | fuel + 1, m, fr =>
    match m.find? (.pnames fr.id) with
    | some t => some (m, t)
    | none => do
      let (m1, t) ← (match fr.parents with
        | [] =>
          match g.scope? fr.scope with
          | none => none
          | some sc =>
            match sc.parent with
            | none => some (m, ([] : Tbl))
            | some ps => do
              let (m1, outer) ← mScopeNames g fuel m ps
              match sc.kind with
              | .module => pure (m1, globalsTable sc ++ outer)
              | .cls => pure (m1, outer)
              | _ => pure (m1, outer.filter (fun e => !sc.locals.contains e.1))
        | [Parent.flow p] => mFlowNames g fuel m p
        | [Parent.loop l t] => do
          let (m1, r) ← mLoopNames g fuel m l t
          pure (m1, r.getD [])
        | ps => do
          let (m1, tables) ← mParentTables g fuel m ps
          pure (m1, mergeTables tables))
      pure (m1.store (.pnames fr.id) t, t)
def mParentTables (g : Graph) : Nat → Memo → List Parent → Option (Memo × List Tbl)
  | 0, _, _ => none
  | _ + 1, m, [] => some (m, [])
  | fuel + 1, m, Parent.flow p :: rest => do
    let (m1, t) ← mFlowNames g fuel m p
    let (m2, ts) ← mParentTables g fuel m1 rest
    pure (m2, t :: ts)
  | fuel + 1, m, Parent.loop l t :: rest => do
    let (m1, r) ← mLoopNames g fuel m l t
    let (m2, ts) ← mParentTables g fuel m1 rest
    pure (m2, match r with | some t => t :: ts | none => ts)
def mLoopNames (g : Graph) : Nat → Memo → Nat → Nat → Option (Memo × Option Tbl)
  | 0, _, _, _ => none
  | fuel + 1, m, l, target =>
    if m.resolving.contains l then some (m, none)
    else
      match m.find? (.loop l target) with
      | some t => some (m, some t)
      | none => do
        let m1 : Memo := { m with stack := [] :: m.stack, resolving := l :: m.resolving }
        let (m2, t) ← mFlowNames g fuel m1 target
        let m3 : Memo := { m2 with stack := m2.stack.drop 1, resolving := m2.resolving.erase l }
        pure (m3.store (.loop l target) t, some t)
def mScopeNames (g : Graph) : Nat → Memo → Nat → Option (Memo × Tbl)
  | 0, _, _ => none
  | fuel + 1, m, s =>
    match g.scope? s with
    | none => none
    | some sc =>
      match sc.kind with
      | .builtin => some (m, builtinTable g)
      | .module => do
        let (m1, t) ← mFlowNames g fuel m sc.final
        pure (m1, t ++ globalsTable sc)
      | .func => mFlowNames g fuel m sc.final
      | .cls =>
        match sc.parent with
        | some p => mScopeNames g fuel m p
        | none => none
end

/-- one `names_at` query against a memo state -/
def mNamesAt (g : Graph) (fuel : Nat) (m : Memo) (f : Nat) (pos : Pos) : Option (Memo × Tbl) :=
  match g.flow? f with
  | none => none
  | some fr => do
    let (m1, p) ← mParentNames g fuel m fr
    pure (m1, ownTable (fr.names.take (bisectRight fr.names pos)) ++ p)

structure Query where
  flow : Nat
  pos : Pos
  key : String
  deriving Repr

/-- a history of queries on one analysed module: the answers, in order -/
def runQueries (g : Graph) (fuel : Nat) : Memo → List Query → List (Option (Option Val))
  | _, [] => []
  | m, q :: qs =>
    match mNamesAt g fuel m q.flow q.pos with
    | none => none :: runQueries g fuel m qs
    | some (m1, t) => some (t.get? q.key) :: runQueries g fuel m1 qs

end SuppModel.Flow
