import sys
sys.path.insert(0, '/repo')
import logging; logging.disable(logging.CRITICAL)
from supp.assistant import assist
from supp.project import Project
p = Project(['/tmp/recon/py/proj'])
def T(src):
    pre = src.split('|')[0]; s = src.replace('|', '')
    pos = (pre.count('\n') + 1, len(pre) - pre.rfind('\n') - 1)
    try:
        m, props = assist(p, s, pos, '/tmp/recon/py/proj/x.py')
        print(repr(src).ljust(40), repr(m), len(props), [x for x in props if 'mark' in x or x.startswith(m)][:4])
    except BaseException as e: print(repr(src).ljust(40), 'EXC', type(e).__name__, str(e)[:80])
for s in ['import os.pa|th\n', 'import o|s\n', 'from os import pa|th\n', 'from os.pa|th import join\n', 'from\tos.pa|\n', 'from os import (path,\n  se|p)\n',
          'import os\nos.pa|th\n', 'foo = 1\nfo|o\n', 'foo = 1\nx = fo|\n', 'foo=1\nx = foo.|\n', 'fo|o = 1\n', 'def f(a|b): pass\n', 'import os as o|s2\n', 'x = 1\nx.real.im|ag\n',
          'foo = 1\nprint(foo,fo|)\n', 'foo = 1\nx = {fo|}\n', 'foo = 1\nx = not fo|\n', 'foo = 1\nx = y[fo|]\n', 'foo = 1\nx = -fo|\n', 'foo = 1\nif x:fo|\n', 'föö = 1\nfö|\n', 'from os import pa|\n', 'from os import path, s|\n', 'import os, s|\n']:
    T(s)
