import sys, struct, random
sys.path.insert(0, '/repo')
from supp import umsgpack as U
bad = 0
def rt(v, label=''):
    global bad
    try:
        b = U.dumps(v); w = U.loads(b)
        ok = (w == v) and type(w) == type(v if not isinstance(v, tuple) else list(v))
        if not ok: bad += 1; print('RT FAIL', label, repr(v)[:60], repr(w)[:60])
        for cut in range(len(b)) if len(b) < 300 else [0, 1, 2, 3, 5, len(b)//2, len(b)-1]:
            try:
                U.loads(b[:cut]); bad += 1; print('PREFIX ACCEPTED', label, cut, repr(v)[:40])
            except U.InsufficientDataException: pass
            except Exception as e: bad += 1; print('PREFIX OTHER', type(e).__name__, label, cut, repr(v)[:40])
        return b
    except Exception as e:
        return 'EXC ' + type(e).__name__
for k in (5, 7, 8, 15, 16, 31, 32, 63, 64):
    for d in range(-3, 4):
        for sgn in (1, -1):
            n = sgn * (2**k) + d
            r = rt(n, 'int')
            if isinstance(r, str): print('int', n, r)
for L in (0, 1, 15, 16, 17, 31, 32, 33, 255, 256, 257, 65535, 65536, 65537):
    rt('a' * L, 'str'); rt(b'a' * L, 'bin'); rt([None] * L, 'arr'); rt({i: i for i in range(L)}, 'map'); rt(U.Ext(5, b'x' * L), 'ext')
rt('é' * 16); rt('\U0001F600' * 8); rt(1.5); rt(-0.0); rt(float('inf')); rt(True); rt(None); rt({(1, 2): [3]}, 'tuplekey')
print('nan', U.loads(U.dumps(float('nan'))))
# non-minimal forms
for b, exp in [(b'\xcc\x05', 5), (b'\xcd\x00\x05', 5), (b'\xce\x00\x00\x00\x05', 5), (b'\xcf' + b'\0'*7 + b'\x05', 5), (b'\xd0\x05', 5), (b'\xd1\x00\x05', 5), (b'\xd3' + b'\xff'*8, -1),
               (b'\xd9\x01a', 'a'), (b'\xda\x00\x01a', 'a'), (b'\xdb\x00\x00\x00\x01a', 'a'), (b'\xdc\x00\x01\xc0', [None]), (b'\xdd\x00\x00\x00\x01\xc0', [None]), (b'\xde\x00\x01\x01\x02', {1: 2}),
               (b'\xc5\x00\x01a', b'a'), (b'\xc7\x01\x05x', U.Ext(5, b'x')), (b'\xca\x3f\xc0\x00\x00', 1.5), (b'\x82\x01\x02\xcb\x3f\xf0\x00\x00\x00\x00\x00\x00\x03', 'dup 1 vs 1.0'), (b'\x82\x91\x01\x02\x91\x01\x03', 'dup list keys'),
               (b'\xc1', 'reserved'), (b'\x81\x80\x01', 'dict key'), (b'\x81\xd4\x05x\x01', 'ext key'), (b'\xd4\x85x', 'ext type 0x85'), (b'\xa1\xff', 'bad utf8')]:
    try: r = U.loads(b)
    except Exception as e: r = 'EXC ' + type(e).__name__
    print(b[:12], '->', repr(r)[:50], '' if r == exp else '(expected %r)' % (exp,))
print('bad', bad)
