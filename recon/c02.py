import sys, random, itertools
sys.path.insert(0, sys.argv[1])
import logging; logging.disable(logging.CRITICAL)
from supp.project import Project
from supp.util import Source, get_name_usages, np
from supp.nast import extract_scope
from supp.name import MultiName, UndefinedName
p = Project(['/tmp/recon/py/proj'])
# abstract program: list of stmts; ('bind', v) ('read', v) ('if', body, orelse) ('while', body, orelse)
def gen(rnd, depth):
    out = []
    for _ in range(rnd.randint(1, 3)):
        k = rnd.random(); v = rnd.choice('ab')
        if k < 0.3 or depth == 0: out.append(('bind', v))
        elif k < 0.5: out.append(('read', v))
        elif k < 0.75: out.append(('if', gen(rnd, depth-1), gen(rnd, depth-1) if rnd.random() < 0.5 else []))
        else: out.append(('while', gen(rnd, depth-1), gen(rnd, depth-1) if rnd.random() < 0.3 else []))
    return out
def render(prog, ind, lines, info):
    pad = '    ' * ind
    for st in prog:
        if st[0] == 'bind':
            lines.append(pad + '%s = 1' % st[1]); info[id(st)] = (len(lines) + 1, len(pad))
        elif st[0] == 'read':
            lines.append(pad + 'print(%s)' % st[1]); info[id(st)] = (len(lines) + 1, len(pad) + 6)
        elif st[0] == 'if':
            lines.append(pad + 'if c:'); render(st[1], ind+1, lines, info)
            if st[2]: lines.append(pad + 'else:'); render(st[2], ind+1, lines, info)
        else:
            lines.append(pad + 'while c:'); render(st[1], ind+1, lines, info)
            if st[2]: lines.append(pad + 'else:'); render(st[2], ind+1, lines, info)
# collecting semantics: set of states (frozenset of (var, site|None)); exact reaching defs by path enumeration w/ fixpoint
def run(prog, states, info, res):
    for st in prog:
        if st[0] == 'bind':
            states = {tuple(sorted(dict(s, **{st[1]: info[id(st)]}).items())) for s in map(dict, states)}
        elif st[0] == 'read':
            res.setdefault(info[id(st)], set()).update(dict(s).get(st[1]) for s in states)
        elif st[0] == 'if':
            states = run(st[1], states, info, res) | run(st[2], states, info, res)
        else:
            seen = set(states)
            while True:
                new = run(st[1], seen, info, res) | seen
                if new == seen: break
                seen = new
            states = run(st[2], seen, info, res)
    return states
def supp_res(src):
    s = Source(src, 'x.py'); scope = extract_scope(s, p); out = {}
    for r in get_name_usages(s.tree):
        if r.id not in 'ab': continue
        n = r.flow.names_at(np(r)).get(r.id)
        if n is None: out[np(r)] = {None}
        elif isinstance(n, MultiName): out[np(r)] = {None if isinstance(a, UndefinedName) else a.declared_at for a in n.alt_names}
        else: out[np(r)] = {n.declared_at}
    return out
unsound = imprecise = 0; total = 0
for seed in range(400):
    rnd = random.Random(seed); prog = gen(rnd, 3)
    lines = []; info = {}; render(prog, 1, lines, info)
    src = 'def f(c):\n' + '\n'.join(lines) + '\n'
    res = {}; run(prog, {()}, info, res)
    sr = supp_res(src)
    for k, v in res.items():
        total += 1
        if not v <= sr[k]:
            unsound += 1
            if unsound <= 1: print('UNSOUND', k, v, sr[k]); print(src)
        elif v != sr[k]:
            imprecise += 1
            if imprecise <= 1: print('IMPRECISE', k, v, sr[k]); print(src)
print('reads', total, 'unsound', unsound, 'imprecise', imprecise)
