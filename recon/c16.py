import sys, time
sys.path.insert(0, '/repo')
from supp.remote import Environment
env = Environment()
env.configure({'sources': ['.']})
print('assist', env.assist('foo = 1\nfo', (2, 2), 'x.py')[1].count('foo'))
for name, fn in [
    ('unknown method', lambda: env._call('nosuch')),
    ('wrong args', lambda: env._call('assist', 1)),
    ('server raise', lambda: env.eval('raise ValueError("boom")')),
    ('unserialisable', lambda: env.eval('return object()')),
    ('set result', lambda: env.eval('return {1,2}')),
    ('eval ok', lambda: env.eval('return [1, (2, 3), {"a": None}]')),
    ('lint', lambda: env.lint('import os\n', 'x.py')),
    ('location', lambda: env.location('x = 1\nx', (2, 1), 'x.py')),
    ('big', lambda: len(env.eval('return "a" * 3000000'))),
    ('huge int', lambda: env.eval('return 2**70')),
]:
    try: print(name, '->', repr(fn())[:120])
    except BaseException as e: print(name, '-> EXC', type(e).__name__, str(e)[:120])
print('alive', env.proc.poll())
try:
    env.close(); print('closed ok')
except BaseException as e:
    print('close EXC', type(e).__name__, e)
time.sleep(1.5)
print('alive after close', env.proc.poll())
