"""Controlled line-level scheduler for supp.remote.Environment with fake Popen/Client (feasibility probe)."""
import sys, threading, itertools
sys.path.insert(0, sys.argv[1] if len(sys.argv) > 1 else '/repo')
import supp.remote as R

class Sched:
    def __init__(self, schedule):
        self.schedule = list(schedule); self.cv = threading.Condition(); self.current = None
        self.alive = {}; self.blocked = {}; self.trace = []
    def register(self, tid): 
        with self.cv: self.alive[tid] = True; self.blocked[tid] = None; self.cv.notify_all()
    def finish(self, tid):
        with self.cv:
            self.alive[tid] = False
            if self.current == tid: self.current = None
            self.cv.notify_all()
    def pause(self, tid, why):
        """called by thread tid at every line event: give control back and wait to be scheduled"""
        with self.cv:
            if self.current == tid: self.current = None
            self.trace.append((tid, why)); self.cv.notify_all()
            while self.current != tid: self.cv.wait()
    def drive(self):
        with self.cv:
            while True:
                while self.current is not None: self.cv.wait()
                runnable = [t for t, a in self.alive.items() if a and not (self.blocked[t] and self.blocked[t]())]
                if not runnable:
                    return 'deadlock' if any(self.alive.values()) else 'done'
                nxt = None
                while self.schedule:
                    c = self.schedule.pop(0)
                    if c in runnable: nxt = c; break
                if nxt is None: nxt = runnable[0]
                self.current = nxt; self.cv.notify_all()

sched = None; popen_count = [0]
def tracer(tid):
    def local(frame, event, arg):
        if event == 'line': sched.pause(tid, frame.f_lineno)
        return local
    def glob(frame, event, arg):
        if frame.f_code.co_filename == R.__file__.replace('.pyc', '.py'): return local
        return None
    return glob
class FakeLock:
    def __init__(self): self.owner = None
    def __enter__(self):
        tid = threading.current_thread().name
        sched.blocked[tid] = lambda: self.owner is not None
        sched.pause(tid, 'acquire'); sched.blocked[tid] = None; self.owner = tid
    def __exit__(self, *a): self.owner = None
class FakeThread:
    n = itertools.count()
    def __init__(self, target): self.target = target; self.tid = 'S%d' % next(self.n); self.done = False
    def start(self):
        def body():
            sys.settrace(tracer(self.tid)); sched.pause(self.tid, 'start')
            try: self.target()
            except BaseException as e: results[self.tid] = 'EXC ' + type(e).__name__
            finally: sys.settrace(None); self.done = True; sched.finish(self.tid)
        sched.register(self.tid); threading.Thread(target=body, name=self.tid).start()
    def join(self):
        tid = threading.current_thread().name
        sched.blocked[tid] = lambda: not self.done
        sched.pause(tid, 'join'); sched.blocked[tid] = None
class FakeConn:
    def send_bytes(self, b): self.last = R.loads(b)
    def recv_bytes(self): return R.dumps((['ok', self.last[0]], True))
    def close(self): pass
def fake_run(self):
    popen_count[0] += 1; self.proc = object(); self.conn = FakeConn()
R.Lock = FakeLock; R.Thread = FakeThread
results = {}
def run_case(ops, schedule):
    global sched
    sched = Sched(schedule); popen_count[0] = 0; results.clear(); FakeThread.n = itertools.count()
    R.Environment._run = fake_run
    env = R.Environment()
    def worker(tid, op):
        sys.settrace(tracer(tid)); sched.pause(tid, 'start')
        try: results[tid] = op(env)
        except BaseException as e: results[tid] = 'EXC %s: %s' % (type(e).__name__, e)
        finally: sys.settrace(None); sched.finish(tid)
    ths = []
    for i, op in enumerate(ops):
        tid = 'T%d' % i; sched.register(tid)
        t = threading.Thread(target=worker, args=(tid, op), name=tid); ths.append(t); t.start()
    out = sched.drive()
    for t in ths: t.join(5)
    return out, popen_count[0], dict(results)
prep = lambda e: e.prepare()
call = lambda e: e._call('assist', 1)
# T0 prepares (spawns S0); T1 calls: acquires lock, passes `if self.prepare_thread`, then S0 runs to the end, then T1 joins
print(run_case([prep, call], ['T0'] * 12 + ['T1'] * 5 + ['S0'] * 10 + ['T1'] * 20))
print(run_case([prep, call], ['T0'] * 12 + ['S0'] * 10 + ['T1'] * 20))
print(run_case([call, call], ['T0', 'T1'] * 20))
found = None; n = 0
for a in range(1, 16):
    for b in range(1, 14):
        n += 1
        out = run_case([prep, call], ['T0'] * a + ['T1'] * b + ['S0'] * 12 + ['T1'] * 20 + ['T0'] * 20)
        if any(str(v).startswith('EXC') for v in out[2].values()) or out[1] != 1 or out[0] != 'done':
            found = (a, b, out); break
    if found: break
print('searched', n, 'schedules; race:', found)
