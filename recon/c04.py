import sys
sys.path.insert(0, '/repo')
from supp.linter import lint
from supp.assistant import location, assist
from supp.project import Project
from supp.util import Source, get_name_usages, np
from supp.nast import extract_scope
from textwrap import dedent
import itertools
p = Project(['/tmp/recon/py/proj'])
src = dedent('''
    def f(y, c):
        for x in y:
            if c:
                print(z)
            z = 1
        return z
''')
def alts(n):
    from supp.name import MultiName, UndefinedName
    if n is None: return None
    if isinstance(n, MultiName):
        return sorted([('U' if isinstance(a, UndefinedName) else a.declared_at) for a in n.alt_names], key=str)
    return [getattr(n, 'declared_at', 'rt')]
def run(order):
    s = Source(src, 'x.py')
    scope = extract_scope(s, p)
    reads = get_name_usages(s.tree)
    res = {}
    for i in order:
        r = reads[i]
        res[i] = (r.id, np(r), alts(r.flow.names_at(np(r)).get(r.id)))
    return res
s = Source(src, 'x.py'); n = len(get_name_usages(s.tree))
seen = {}
for perm in itertools.permutations(range(n)):
    r = run(perm)
    key = tuple(sorted((k, str(v)) for k, v in r.items()))
    seen.setdefault(key, perm)
print(len(seen), 'distinct outcomes over', n, 'reads')
for k, perm in seen.items():
    print(perm, [x for x in k if "'z'" in x[1]])
print('lint', [t[:4] for t in lint(p, src, 'x.py')])
# location at read of z line 5
print('location z@5', location(p, src, (5, 19), 'x.py'))
print('location z@7', location(p, src, (7, 12), 'x.py'))
