import sys, ast
sys.path.insert(0, '/repo')
import logging; logging.disable(logging.CRITICAL)
from supp.project import Project
from supp.linter import lint
p = Project(['/tmp/recon/py/proj'])
def L(src):
    try: return [(t[0], t[1]) for t in lint(p, src, 'x.py')]
    except BaseException as e: return 'EXC %s' % type(e).__name__
pairs = [
 ('def f(y):\n    for x in y: print(x)\n', None),
 ('def f(a):\n    with a as b: return b\n', None),
 ('def f(c):\n    if c: x = 1\n    else: x = 2\n    return x\n', None),
 ('def f():\n    x = 1; y = x; return y\n', None),
 ('def f(a):\n    x = (\n      a,\n      a)\n    return x\n', None),
 ('def f(a):\n    x = 1\n    x = [\n      x,\n      a]\n    return x\n', None),
 ('def f(ys):\n    return [\n      x\n      for x in ys\n      if x]\n', None),
 ('def f(ys):\n    try: x = 1\n    except E as e: x = e\n    return x\n', None),
 ('def f(ys):\n    while ys: x = ys.pop(); print(x)\n', None),
 ('class A:\n    def m(self): return self\n    x = 1; y = x\n', None),
 ('def f(a): return lambda b: a + b\n', None),
 ('def f(a):\n    def g(): return a\n    return g\n', None),
 ('def f(y):\n    for x in y:\n        pass\n    else: z = x\n    return z\n', None),
 ('def f(a, b): x = a if b else None; return x\n', None),
 ('def f(a):\n    x = a\\\n      + a\n    return x\n', None),
 ('def f(d):\n    for k, v in d: print(k,\n        v)\n', None),
 ('def f(d):\n    with d as (a, b): print(a, b)\n', None),
 ('def f(d):\n    x = y = d; return x, y\n', None),
 ('def f(d):\n    @d\n    def g(): pass\n    return g\n', None),
 ('def f(d): import os; return os\n', None),
 ('def f(d):\n  if d: return 1\n  elif d: return 2\n  else: return 3\n', None),
 ('def f(d):\n    g = [lambda: d for _ in d]; return g\n', None),
 ('def f(xs):\n    return {x: y for x in xs for y in x}\n', None),
]
for src, _ in pairs:
    norm = ast.unparse(ast.parse(src)) + '\n'
    a, b = L(src), L(norm)
    print(repr(src)[:60].ljust(62), 'OK' if a == b else 'DIFF', a, '' if a == b else b)
