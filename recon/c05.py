import sys, symtable
sys.path.insert(0, '/repo')
import logging; logging.disable(logging.CRITICAL)
from supp.project import Project
from supp.util import Source, get_name_usages, np
from supp.nast import extract_scope
from supp.name import MultiName, UndefinedName
p = Project(['/tmp/recon/py/proj'])
def show(src):
    s = Source(src, 'x.py'); sc = extract_scope(s, p)
    for r in get_name_usages(s.tree):
        if not hasattr(r, 'flow'): print('  ', r.id, np(r), 'NOFLOW'); continue
        n = r.flow.names_at(np(r)).get(r.id)
        alts = n.alt_names if isinstance(n, MultiName) else [n]
        print('  ', r.id, np(r), [('U' if isinstance(a, UndefinedName) else (type(a.scope).__name__ + ':' + getattr(a.scope, 'name', '')) if getattr(a, 'scope', None) is not None else 'builtin') if a is not None else None for a in alts])
for src in [
 'def P():\n    x = 1\n    def S():\n        global x\n        return x\n    return S\nx = 0\n',
 'def P():\n    x = 1\n    def S():\n        nonlocal x\n        x = 2\n        return x\n    return S\n',
 'class A:\n    k = 1\n    ys = [k for _ in (1,)]\n    def m(self):\n        return k\n',
 'def f():\n    print(len)\n    len = 1\n',
 'x = 1\ndef f():\n    class C:\n        x = x\n        def m(self): return x\n    x = 2\n',
]:
    print(repr(src)[:80]); show(src)
