import sys
sys.path.insert(0, '/repo')
import logging; logging.disable(logging.CRITICAL)
from supp.linter import lint
from supp.project import Project
p = Project(['/tmp/recon/py/proj'])
binds = {
 'assign': 'X = 1', 'ann': 'X: int = 1', 'for': 'for X in []: pass', 'with': 'with open() as X: pass',
 'except': 'try: pass\nexcept E as X: pass', 'comp': '[1 for X in []]', 'def': 'def X(): pass', 'class': 'class X: pass',
 'import': 'import X', 'fromimport': 'from m import X', 'dotted': 'import X.y', 'alias': 'import a.b as X',
 'future': 'from __future__ import X', 'walrus': '(X := 1)', 'lambdaarg': 'f = lambda X: 1\nf', 'param': 'def g(X): pass\ng',
 'star': 'a, *X = []\na', 'under': '_X = 1', 'underimport': 'import _X', 'global': 'global X\nX = 1', 'augonly': 'X = 1\nX += 1',
}
scopes = {
 'module': lambda b: b + '\n',
 'func': lambda b: 'def F():\n' + ''.join('    ' + l + '\n' for l in b.splitlines()) + 'F\n',
 'class': lambda b: 'class C:\n' + ''.join('    ' + l + '\n' for l in b.splitlines()) + 'C\n',
 'method': lambda b: 'class C:\n    def M(self):\n' + ''.join('        ' + l + '\n' for l in b.splitlines()) + 'C\n',
 'lambda-in-func': None,
}
for bk, b in binds.items():
    row = []
    for sk, f in scopes.items():
        if not f: continue
        src = f(b)
        try:
            r = [(t[0], t[1].split(': ')[1]) for t in lint(p, src, 'x.py') if t[0][0] == 'W']
        except SyntaxError: r = 'SYN'
        except BaseException as e: r = 'EXC ' + type(e).__name__
        row.append('%s=%s' % (sk, r))
    print(bk.ljust(12), ' '.join(row))
