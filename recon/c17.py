import sys
sys.path.insert(0, '/repo')
import logging; logging.disable(logging.CRITICAL)
junk = [object() for _ in range(int(sys.argv[1]))]
from supp.assistant import location
from supp.project import Project
src = '''
def f(a, b, c):
    if a:
        x = 1
    elif b:
        x = 2
    elif c:
        x = 3
    else:
        x = 4
    return x
'''
print(location(Project(['.']), src, (11, 12), 'x.py'))
