import sys
sys.path.insert(0, '/repo')
from supp.linter import lint
from supp.project import Project
from textwrap import dedent
p = Project(['/tmp/recon/py/proj'])
def L(src):
    src = dedent(src)
    try:
        r = lint(p, src, '/tmp/recon/py/proj/x.py')
        return [t[:4] for t in r]
    except Exception as e:
        return 'EXC %s: %s' % (type(e).__name__, e)

cases = {
'kwonly_default': '''
    d = 1
    def f(*, k=d):
        return k
    f()
''',
'class_keyword': '''
    M = type
    class A(metaclass=M):
        pass
''',
'posonly': '''
    def f(a, /, b):
        return a + b
    f(1, 2)
''',
'nonlocal': '''
    def f():
        x = 1
        def g():
            nonlocal x
            x = 2
            return x
        return g() + x
    f()
''',
'loop_carried_nested': '''
    def f(y, c):
        for x in y:
            if c:
                print(z)
            z = 1
    f([1,2], True)
''',
'loop_carried_plain': '''
    def f(y):
        for x in y:
            print(z)
            z = 1
''',
'lambda_kwdefault': '''
    d = 1
    g = lambda *, k=d: k
''',
'with_items': '''
    a = 1
    with open(a) as f, open(f) as g:
        print(f, g)
''',
'except_name': '''
    try:
        pass
    except (KeyError, ValueError) as e:
        print(e)
''',
'vararg_annotation': '''
    T = int
    def f(*a: T, **k: T) -> T:
        return a, k
''',
'decorator': '''
    def deco(f): return f
    @deco
    def g(): pass
    g()
''',
'comp': '''
    ys = [1]
    r = [x + y for x in ys for y in ys if x if y]
''',
'augassign': '''
    def f():
        x = 1
        x += 1
        return x
''',
'del': '''
    def f():
        x = 1
        del x
''',
'starred': '''
    def f(v):
        a, *b = v
        return a, b
''',
'for_attr_target': '''
    class A: pass
    s = A()
    for s.x in [1]:
        pass
''',
'return_outside': '''
    return 1
''',
'global_decl': '''
    def f():
        global G
        G = 1
    f()
    print(G)
''',
'walrus_comp': '''
    def f(ys):
        r = [y for x in ys if (y := x)]
        return y
''',
'class_body_read': '''
    class A:
        x = 1
        y = x
        def m(self):
            return x
''',
'try_finally_bind': '''
    def f():
        try:
            a = 1
        finally:
            b = 2
        return a, b
''',
'async_comp': '''
    async def f(ys):
        return [x async for x in ys]
''',
'match': '''
    def f(v):
        match v:
            case [a, b]:
                return a + b
            case {"k": c}:
                return c
''',
'type_params': '''
    def f[T](x: T) -> T:
        return x
''',
'kwonly_annot': '''
    T = int
    def f(*, k: T = 1):
        return k
''',
'lambda_vararg': '''
    g = lambda *a, **k: (a, k)
''',
'dict_comp': '''
    r = {k: v for k, v in [(1, 2)]}
''',
'nested_func_default_reads_outer_local': '''
    def f():
        a = 1
        def g(b=a):
            return b
        return g
''',
}
for k, v in cases.items():
    print(k, '->', L(v))
