import sys
sys.path.insert(0, '/repo')
from supp.assistant import location, assist
from supp.project import Project
from textwrap import dedent
p = Project(['/tmp/recon/py/proj'])
def sp(source):
    source = dedent(source)
    parts = source.split('|')
    pre = parts[0]
    line = pre.count('\n') + 1
    col = len(pre) - pre.rfind('\n') - 1
    return ''.join(parts), (line, col)
def T(label, src, fn):
    s, pos = sp(src)
    try:
        print(label, '->', fn(p, s, pos, '/tmp/recon/py/proj/x.py'))
    except BaseException as e:
        print(label, '-> EXC', type(e).__name__, e)
T('override loc', '''
    class B:
        def m(self): pass
    class D(B):
        def m(self): pass
    D().m|
''', location)
T('override cls loc', '''
    class B:
        def m(self): pass
    class D(B):
        def m(self): pass
    D.m|
''', location)
T('inst assign vs class', '''
    class B:
        def __init__(self):
            self.x = 1
    class D(B):
        x = 2
    D().x|
''', location)
T('attrs', '''
    class B:
        b = 1
        def __init__(self):
            self.bi = 1
    class C:
        c = 1
        def setup(self):
            self.ci = 2
    class D(B, C):
        d = 1
        def m(self):
            self.di = 3
    D().|
''', assist)
T('multi-inh order', '''
    class B:
        def m(self): pass
    class C:
        def m(self): pass
    class D(B, C):
        pass
    D().m|
''', location)
T('inh cycle', '''
    class A(B): pass
    class B(A): pass
    A().|
''', assist)
T('self cycle', '''
    class A(A): pass
    A().|
''', assist)
T('assign cycle', '''
    a = b
    b = a
    a.|
''', assist)
T('rec func', '''
    def f():
        return f()
    f().|
''', assist)
T('loc builtin', '''
    len|
''', location)
T('loc sys', '''
    import sys
    sys|
''', location)
T('locals var', '''
    def f():
        locals = 1
        return locals|
''', location)
T('half import', '''
    import |
''', assist)
T('half from', '''
    from os import |
''', assist)
T('half from2', '''
    from nonexistent_mod import |
''', assist)
T('from dot', '''
    from . import |
''', assist)
T('x=fo', '''
    foo = 1
    x=fo|
''', assist)
T('self.ba|r', '''
    class A:
        def m(self):
            self.ba|r = 1
            self.
''', assist)
T('self.ba|r 2', '''
    class A:
        def m(self):
            self.ba|r = 1
''', assist)
T('prefix [', '''
    foo = 1
    x = [fo|]
''', assist)
T('prefix op', '''
    foo = 1
    x = 1+fo|
''', assist)
