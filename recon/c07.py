import sys, os, importlib, importlib.util, importlib.machinery, shutil
sys.path.insert(0, '/repo')
import logging; logging.disable(logging.CRITICAL)
from supp.project import Project, SUFFIXES
print('SUFFIXES', SUFFIXES)
base = '/tmp/recon/py/proj7'
shutil.rmtree(base, ignore_errors=True)
def w(rel, content=''):
    fn = os.path.join(base, rel); os.makedirs(os.path.dirname(fn), exist_ok=True); open(fn, 'w').write(content); return fn
w('r1/pk/__init__.py'); w('r1/pk/m1.py')
w('r2/pk/__init__.py'); w('r2/pk/m2.py')
w('r1/mod.py'); w('r2/mod/__init__.py')
w('r2/only2.py')
w('r1/pk/sub/__init__.py'); w('r1/pk/sub/deep.py')
roots = [base + '/r1', base + '/r2']
p = Project(roots)
def imp(name):
    old = sys.path[:]; sys.path[:0] = roots
    importlib.invalidate_caches()
    try:
        spec = importlib.util.find_spec(name)
        return spec.origin if spec else None
    except (ImportError, ValueError) as e:
        return 'ERR %s' % type(e).__name__
    finally:
        sys.path[:] = old
        for k in list(sys.modules):
            if k.split('.')[0] in ('pk', 'mod', 'only2'): del sys.modules[k]
def sup(name):
    try:
        m = p.get_module(name); return getattr(m, 'filename', m)
    except BaseException as e:
        return 'ERR %s' % type(e).__name__
for n in ['pk', 'pk.m1', 'pk.m2', 'mod', 'only2', 'pk.sub.deep', 'pk.nope', 'nope', 'pk.m1.x', 'os', 'os.path', 'datetime', '_datetime', 'sys', 'pk.', '', 'mod.x']:
    a, b = imp(n) if n and not n.endswith('.') else 'n/a', sup(n)
    print('%-12s importlib=%s supp=%s %s' % (n, a, b, '' if str(a) == str(b) else '<<<< DIFF'))
f = base + '/r1/pk/sub/deep.py'
for rel, pkg in [('.', 'pk.sub'), ('.x', 'pk.sub'), ('..', 'pk.sub'), ('..m1', 'pk.sub'), ('...', 'pk.sub'), ('...x', 'pk.sub'), ('....x', 'pk.sub')]:
    try: a = importlib.util.resolve_name(rel, pkg)
    except BaseException as e: a = 'ERR %s' % type(e).__name__
    try: b = p.norm_package(rel, f)
    except BaseException as e: b = 'ERR %s' % type(e).__name__
    print('%-8s resolve_name=%s supp=%s %s' % (rel, a, b, '' if a == b else '<<<< DIFF'))
# __init__.py file: relative import from the package's __init__
f2 = base + '/r1/pk/sub/__init__.py'
print('from __init__ .x:', p.norm_package('.x', f2), importlib.util.resolve_name('.x', 'pk.sub'))
