import sys
sys.path.insert(0, '/repo')
import logging; logging.disable(logging.CRITICAL)
from supp.project import Project
from supp.util import Source
from supp.nast import extract_scope
p = Project(['/tmp/recon/py/proj'])
def chk(src):
    s = Source(src, 'x.py'); sc = extract_scope(s, p)
    lines = src.splitlines()
    out = []
    for flow, n in sc.all_names:
        l, c = n.declared_at
        txt = lines[l-1][c:c+len(n.name)] if 0 < l <= len(lines) else None
        ok = txt == n.name
        out.append('%s@%s:%r%s' % (n.name, n.declared_at, txt, '' if ok else ' <<BAD'))
    print(repr(src)[:70].ljust(72), ' '.join(out))
for src in [
 'import os#c\n',
 'import os, sys\n',
 'from a import (b,\n  c as d,\n  e)\n',
 'from foo import foo\n',
 'import a.b as b\n',
 'import a.b\n',
 'from a import b\\\n, c\n',
 'from a import b as \\\n   c\n',
 'def\tf(): pass\n',
 'def  f(): pass\n',
 'async  def  g(): pass\n',
 'class\tA: pass\n',
 '@dec\ndef h(): pass\n',
 'def f(a, *b, c=1, **d): pass\n',
 'def \\\nfoo(): pass\n',
 'x = 1; import os; from os import path as p\n',
 'import osx, os\n',
 'from . import a, ab\n',
 'from .a import a\n',
 'import aa.a as a\n',
 'from a import ba, a\n',
 'try:\n  pass\nexcept E as e:\n  pass\n',
 'from a import *\n',
 'lam = lambda q: q\n',
 'def  defx(): pass\n',
 'class A:\n  class  A: pass\n',
 'def f(): pass;\ndef ff(): pass\n',
 'def g(x, f): pass\ndef f(): pass\n',
 'import a.b.c, a.d\n',
 'if 1:\n    import a as b, c as a\n',
]:
    try: chk(src)
    except BaseException as e: print(repr(src)[:70], 'EXC', type(e).__name__, e)
