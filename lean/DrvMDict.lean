import SuppModel.Drv.Main
import SuppModel.Drv.MDict
def main : IO Unit := SuppModel.Drv.runLoop SuppModel.Drv.MDict.handle
