import SuppModel.Drv.Main
import SuppModel.Drv.Proj
def main : IO Unit := SuppModel.Drv.runLoop SuppModel.Drv.Proj.handle
