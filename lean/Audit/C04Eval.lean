import SuppModel.Props.C04Eval
#print axioms SuppModel.EvalMemo.C04Eval_final_invariant
#print axioms SuppModel.EvalMemo.C04Eval_history
#print axioms SuppModel.EvalMemo.C04Eval_two_histories
#print axioms SuppModel.EvalMemo.C04Eval_answers
#print axioms SuppModel.EvalMemo.C04Eval_history_fuel
#print axioms SuppModel.EvalMemo.C04Eval_pure_fuel
#print axioms SuppModel.EvalMemo.C04Eval_acyclic_exact
#print axioms SuppModel.EvalMemo.C04Eval_legacy_refuted
