import SuppModel.Props.C05
#print axioms SuppModel.Props.C05.C05_chain
#print axioms SuppModel.Props.C05.C05_chain_at
#print axioms SuppModel.Props.C05.C05_class_hidden
#print axioms SuppModel.Props.C05.C05_local_not_outer
