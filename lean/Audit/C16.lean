import SuppModel.Props.C16
#print axioms SuppModel.Props.C16.C16_inv
#print axioms SuppModel.Props.C16.C16_terminates
#print axioms SuppModel.Props.C16.C16_close
#print axioms SuppModel.Props.C16.C16_no_deadlock
#print axioms SuppModel.Props.C16.C16_exactly_one
#print axioms SuppModel.Props.C16.C16_at_most_one
#print axioms SuppModel.Props.C16.C16_server_exits
#print axioms SuppModel.Props.C16.C16_server_run
