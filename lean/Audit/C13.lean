import SuppModel.Props.C13
#print axioms SuppModel.Props.C13.C13_bisect
#print axioms SuppModel.Props.C13.C13_insert
#print axioms SuppModel.Props.C13.C13_names_at
#print axioms SuppModel.Props.C13.C13_history
#print axioms SuppModel.Props.C13.C13_layouts
#print axioms SuppModel.Props.C13.C13_layouts_history
#print axioms SuppModel.Props.C13.C13_order_implies_query
#print axioms SuppModel.Props.C13.C13_layouts_order
#print axioms SuppModel.Props.C13.C13_layouts_history_order
#print axioms SuppModel.Props.C13.C13_bisect_sorted
#print axioms SuppModel.Props.C13.C13_insert_sorted
#print axioms SuppModel.Props.C13.exPhi_preserves
