import SuppModel.Witness.C02
#print axioms SuppModel.Witness.C02.late_in_fragment
#print axioms SuppModel.Witness.C02.late_is_late
#print axioms SuppModel.Witness.C02.late_reach
#print axioms SuppModel.Witness.C02.late_not_listed
#print axioms SuppModel.Witness.C02.C02_sound_needs_late
