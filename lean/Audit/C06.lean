import SuppModel.Props.C06
#print axioms SuppModel.Props.C06.C06_class_lookup
#print axioms SuppModel.Props.C06.C06_instance_lookup
#print axioms SuppModel.Props.C06.C06_complete
#print axioms SuppModel.Props.C06.C06_complete_class
#print axioms SuppModel.Props.C06.C06_fuel_independent
#print axioms SuppModel.Props.C06.C06_total
