import SuppModel.Props.MDict
#print axioms SuppModel.MDict.MDict_init_nested
#print axioms SuppModel.MDict.MDict_getitem_first
#print axioms SuppModel.MDict.MDict_getitem_none
#print axioms SuppModel.MDict.MDict_getitem_chain
#print axioms SuppModel.MDict.MDict_contains
#print axioms SuppModel.MDict.MDict_get
#print axioms SuppModel.MDict.MDict_items_lookup
#print axioms SuppModel.MDict.MDict_iter_nodup
#print axioms SuppModel.MDict.MDict_iter_mem
#print axioms SuppModel.MDict.MDict_iter_order
#print axioms SuppModel.MDict.MDict_items_wf
#print axioms SuppModel.MDict.MDict_values
#print axioms SuppModel.MDict.MDict_addKey
