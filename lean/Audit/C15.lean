import SuppModel.Props.C15
#print axioms SuppModel.Props.C15.C15_transparent
#print axioms SuppModel.Props.C15.C15_isolated
#print axioms SuppModel.Props.C15.C15_paired
#print axioms SuppModel.Props.C15.C15_paired_encodable
#print axioms SuppModel.Props.C15.C15_close
#print axioms SuppModel.Props.C15.C15_server_assist
#print axioms SuppModel.Props.C15.C15_server_location
#print axioms SuppModel.Props.C15.C15_server_lint
#print axioms SuppModel.Props.C15.C15_server_eval
#print axioms SuppModel.Props.C15.C15_server_configure
#print axioms SuppModel.Props.C15.C15_server_noproject
