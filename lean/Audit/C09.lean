import SuppModel.Props.C09
import SuppModel.Witness.C09
#print axioms SuppModel.Props.C09.C09
#print axioms SuppModel.Props.C09.C09_transparent
#print axioms SuppModel.Props.C09.C09_partial
#print axioms SuppModel.Props.C09.C09_idempotent
#print axioms SuppModel.Props.C09.C09_invariant
