import SuppModel.Props.C14
#print axioms SuppModel.Props.C14.C14_dispatch
#print axioms SuppModel.Props.C14.C14_valid
#print axioms SuppModel.Props.C14.C14_accepts
#print axioms SuppModel.Props.C14.C14_roundtrip
#print axioms SuppModel.Props.C14.C14_roundtrip_id
#print axioms SuppModel.Props.C14.C14_prefix
#print axioms SuppModel.Props.C14.C14_range
#print axioms SuppModel.Props.C14.C14_loads_range
