import SuppModel.Props.C14
#print axioms SuppModel.Props.C14.C14_dispatch
#print axioms SuppModel.Props.C14.C14_valid
#print axioms SuppModel.Props.C14.C14_accepts
#print axioms SuppModel.Props.C14.C14_roundtrip
#print axioms SuppModel.Props.C14.C14_roundtrip_id
#print axioms SuppModel.Props.C14.C14_prefix
#print axioms SuppModel.Props.C14.C14_range
#print axioms SuppModel.Props.C14.C14_loads_range
#print axioms SuppModel.Props.C14.C14_minimal
#print axioms SuppModel.Props.C14.C14_minimal_nofloat
#print axioms SuppModel.Props.C14.C14_loads_errors
#print axioms SuppModel.Props.C14.C14_loads_no_logic
#print axioms SuppModel.Props.C14.C14_dumps_errors
