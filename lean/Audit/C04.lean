import SuppModel.Props.C04
#print axioms SuppModel.Props.C04.C04_pure_deterministic
#print axioms SuppModel.Props.C04.C04_history
#print axioms SuppModel.Props.C04.C04_two_histories
#print axioms SuppModel.Props.C04.C04_memo_total
