import SuppModel.Props.C04
import SuppModel.Witness.C04
#print axioms SuppModel.Props.C04.C04_pure_deterministic
#print axioms SuppModel.Props.C04.C04_checked_history
#print axioms SuppModel.Props.C04.C04_checked_two_histories
#print axioms SuppModel.Props.C04.C04_checked_le
#print axioms SuppModel.Props.C04.C04_exact_history
#print axioms SuppModel.Props.C04.C04_exact_total
#print axioms SuppModel.Props.C04.C04_history_validated
#print axioms SuppModel.Props.C04.C04_history_partial
#print axioms SuppModel.Props.C04.C04_two_histories_partial
#print axioms SuppModel.Props.C04.C04_memo_total
