import SuppModel.Props.Extract
#print axioms SuppModel.Props.Extract.extract_total
#print axioms SuppModel.Props.Extract.extract_every_load_has_flow
#print axioms SuppModel.Props.Extract.extract_names_sorted
#print axioms SuppModel.Props.Extract.extract_invariant
#print axioms SuppModel.Props.Extract.extract_wf
#print axioms SuppModel.Props.Extract.extract_C05_chain
#print axioms SuppModel.Props.Extract.extract_C05_chain_at
#print axioms SuppModel.Props.Extract.extract_C05_local_not_outer
#print axioms SuppModel.Props.Extract.extract_forward_edges
#print axioms SuppModel.Props.Extract.extract_wf_partial
#print axioms SuppModel.Props.Extract.extract_layout_partial
#print axioms SuppModel.Props.Extract.extract_layout_fragment
