import SuppModel.Props.C07
#print axioms SuppModel.Props.C07.C07_relative
#print axioms SuppModel.Props.C07.C07_relative_above
#print axioms SuppModel.Props.C07.sameChoice_generated
#print axioms SuppModel.Props.C07.C07_find
#print axioms SuppModel.Props.C07.C07_find_any_suffix_order
#print axioms SuppModel.Props.C07.C07_list_sup
#print axioms SuppModel.Props.C07.C07_list_sub
#print axioms SuppModel.Props.C07.C07_list
#print axioms SuppModel.Props.C07.C07_split_witness
#print axioms SuppModel.Props.C07.C07_ext_witness
#print axioms SuppModel.Props.C07.C07_find_stmt_false
