import SuppModel.Props.C11
#print axioms SuppModel.Props.C11.C11_found
#print axioms SuppModel.Props.C11.C11_lines_ok
#print axioms SuppModel.Props.C11.C11_sites_ok
#print axioms SuppModel.Props.C11.C11_site
#print axioms SuppModel.Props.C11.C11_found_iff
#print axioms SuppModel.Props.C11.C11_first
#print axioms SuppModel.Props.C11.C11_same
#print axioms SuppModel.Props.C11.C11_mark_shift
#print axioms SuppModel.Props.C11.C11_mark_text
#print axioms SuppModel.Props.C11.C11_location_unmoved
