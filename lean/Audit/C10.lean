import SuppModel.Props.C10
#print axioms SuppModel.Props.C10.C10_rule
#print axioms SuppModel.Props.C10.C10_rule_used
#print axioms SuppModel.Props.C10.C10_never_read_unused
#print axioms SuppModel.Props.C10.C10_report_fields
#print axioms SuppModel.Props.C10.C10_once
#print axioms SuppModel.Props.C10.C10_total
#print axioms SuppModel.Props.C10.C10_legacy_witness
