import SuppModel.Props.C02
#print axioms SuppModel.Props.C02.C02_sound
#print axioms SuppModel.Props.C02.C02_table_sound
#print axioms SuppModel.Props.C02.C02_outcomes
#print axioms SuppModel.Props.C02.C02_no_false_unused
#print axioms SuppModel.Props.C02.run_sound
#print axioms SuppModel.Props.C02.runProg_sound
#print axioms SuppModel.Props.C02.run_observed_listed
