import SuppModel.Props.C02
#print axioms SuppModel.Props.C02.C02_sound
#print axioms SuppModel.Props.C02.C02_table_sound
#print axioms SuppModel.Props.C02.C02_outcomes
#print axioms SuppModel.Props.C02.C02_no_false_unused
