import SuppModel.Props.C17
#print axioms SuppModel.Props.C17.C17_multiname_det
#print axioms SuppModel.Props.C17.C17_multiname_perm
#print axioms SuppModel.Props.C17.C17_source_order
#print axioms SuppModel.Props.C17.C17_alternatives
#print axioms SuppModel.Props.C17.C17_parent_names_det
#print axioms SuppModel.Props.C17.C17_parent_names_keys
#print axioms SuppModel.Props.C17.C17_assist_det
#print axioms SuppModel.Props.C17.C17_location_det
#print axioms SuppModel.Props.C17.C17_first_name_det
#print axioms SuppModel.Props.C17.C17_composite_det
#print axioms SuppModel.Props.C17.C17_sites_audited
#print axioms SuppModel.Props.C17.C17_legacy_violates
