import SuppModel.Props.C08
#print axioms SuppModel.Props.C08.C08_lint_shape
#print axioms SuppModel.Props.C08.C08_lint_one_E01
#print axioms SuppModel.Props.C08.C08_cursor_shape
#print axioms SuppModel.Props.C08.C08_lint_model_total
#print axioms SuppModel.Props.C08.C08_attrs_total
#print axioms SuppModel.Props.C08.C08_tables_total
