import SuppModel.Props.C01
#print axioms SuppModel.Props.C01.C01_visible
#print axioms SuppModel.Props.C01.C01_visible_after
#print axioms SuppModel.Props.C01.C01_visible_partial
#print axioms SuppModel.Props.C01.C01_keys_grow
#print axioms SuppModel.Props.C01.C01_outer
#print axioms SuppModel.Props.C01.C01_outer_read
#print axioms SuppModel.Props.C01.C01_class_entry
