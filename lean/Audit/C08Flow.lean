import SuppModel.Props.C08Flow
#print axioms SuppModel.Props.C08Flow.C08_eval_terminates_rank
#print axioms SuppModel.Props.C08Flow.C08_eval_terminates
#print axioms SuppModel.Props.C08Flow.C08_ranked_complete_unbounded
#print axioms SuppModel.Props.C08Flow.C08_ranked_complete
#print axioms SuppModel.Props.C08Flow.C08_eval_terminates_ex
#print axioms SuppModel.Props.C08Flow.C08_names_at_answers
#print axioms SuppModel.Props.C08Flow.C08_history_answers
#print axioms SuppModel.Props.C08Flow.C08_exact_history_answers
