import SuppModel.Props.C03
#print axioms SuppModel.Props.C03.C03_origin
#print axioms SuppModel.Props.C03.C03_precise
#print axioms SuppModel.Props.C03.C03_exact
#print axioms SuppModel.Props.C03.C03_possibly_undefined
#print axioms SuppModel.Props.C03.C03_undefined
#print axioms SuppModel.Props.C03.C03_undefined_only_from_entry
