import SuppModel.Props.C03
#print axioms SuppModel.Props.C03.C03_origin
#print axioms SuppModel.Props.C03.C03_undefined_only_from_entry
#print axioms SuppModel.Props.C03.C03_undefined
