import SuppModel.Drv.Main
import SuppModel.Drv.Flow
def main : IO Unit := SuppModel.Drv.runLoop SuppModel.Drv.Flow.handle
