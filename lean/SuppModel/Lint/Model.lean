/-
  Lint family, model of `supp.linter.lint` over an abstract analysed module.

  What is modelled (transliteration of supp/linter.py):
    * the usage loop `for name in name_usages:` -- E42 when the read has no flow, E02 on KeyError,
      the `locals` branch, `qualified_imports.add`, `use_name` (MultiName: every alternative);
      including the quirk that the `locals` branch skips MultiName table values (no `scope` attribute); no path
      of the loop raises any more (`getattr(sname, 'location', None)`; the legacy loop that raised on a MultiName
      named 'locals' is kept in Witness/C10.lean);
    * the report loop `for flow, name in scope.all_names:` -- its decision chain and report fields are the
      *generated* `Generated.reportFull / reportMsgArg / reportLine / reportCol`.

  Parameters (outside linter.py; supplied by the harness from the real analysis): the enumeration
  `scope.all_names` with the facts of each Name object, the reads `get_name_usages(tree)` in order, and for
  each read the table `flow.names_at(np(read))`.
-/
import SuppModel.Generated.Lint

namespace SuppModel.Lint

abbrev BindingId := Nat
abbrev ScopeId := Nat

/-- which class of supp/name.py, supp/scope.py the Name object is -/
inductive Kind where
  | assigned                                              -- AssignedName
  | argument                                              -- ArgumentName
  | imported (module : String) (isStar qualified : Bool)  -- ImportedName
  | funcdef                                               -- FuncScope (added to the flow by visit_FunctionDef)
  | classdef                                              -- ClassScope
  deriving DecidableEq, Repr

/-- kind of `flow.scope` -/
inductive ScopeKind where
  | module     -- SourceScope
  | cls        -- ClassScope
  | function   -- FuncScope of a def
  | lambda     -- FuncScope of a lambda
  deriving DecidableEq, Repr

/-- one `(flow, name)` pair of `scope.all_names` -/
structure Binding where
  id : BindingId
  name : String
  kind : Kind
  scopeKind : ScopeKind
  scope : ScopeId
  /-- `isinstance(flow.scope.parent, ClassScope)` -/
  parentIsClass : Bool
  declaredAt : Int × Int
  location : Int × Int
  deriving DecidableEq, Repr

/-- a table value that is not a MultiName, described by the attributes the usage loop reads -/
structure NameRef where
  /-- identity of the object; `none`: a RuntimeName (builtin), never in `all_names` -/
  id : Option BindingId
  name : String
  /-- `location == (0, 0)` -/
  locZero : Bool
  /-- `getattr(n, 'scope', None)` -/
  scope : Option ScopeId
  /-- `type(n) is ImportedName and n.qualified` -/
  qualifiedImport : Bool
  deriving DecidableEq, Repr

inductive Entry where
  | single (r : NameRef)
  /-- MultiName: its `.name` and the ids of its alternatives (UndefinedName / RuntimeName alternatives carry no id) -/
  | multi (name : String) (alts : List BindingId)
  deriving DecidableEq, Repr

def Entry.name : Entry → String
  | .single r => r.name
  | .multi n _ => n

/-- the objects `use_name` marks -/
def Entry.ids : Entry → List BindingId
  | .single r => r.id.toList
  | .multi _ alts => alts

structure ReadFlow where
  /-- identity of `name.flow.scope` -/
  scope : ScopeId
  /-- `flow.names_at(np(name))` as (key, value) pairs -/
  table : List (String × Entry)
  deriving DecidableEq, Repr

/-- one `ast.Name` in Load context, in the order of `get_name_usages` -/
structure Read where
  id : String
  loc : Int × Int
  /-- `none`: the node has no `.flow` attribute -/
  flow : Option ReadFlow
  deriving DecidableEq, Repr

structure Module where
  allNames : List Binding
  reads : List Read
  deriving DecidableEq, Repr

structure Diag where
  code : String
  message : String
  line : Int
  col : Int
  deriving DecidableEq, Repr

inductive PyErr where
  | attributeError
  deriving DecidableEq, Repr

/-- state of the usage loop: objects with a `used` attribute, `qualified_imports`, `result` so far -/
structure St where
  used : List BindingId
  qualified : List String
  diags : List Diag
  deriving DecidableEq, Repr

def St.init : St := ⟨[], [], []⟩

/-- `for n in itervalues(flow.names_at(location)): if getattr(n, 'scope', None) is flow.scope: use_name(n)` -/
def localsMarks (fl : ReadFlow) : List BindingId :=
  fl.table.flatMap fun kv =>
    match kv.2 with
    | .single r => if r.scope = some fl.scope then r.id.toList else []
    | .multi _ _ => []      -- a MultiName has no attribute `scope`

/-- one iteration of `for name in name_usages:` -/
def usageStep (st : St) (r : Read) : Except PyErr St :=
  match r.flow with
  | none =>
    .ok { st with diags := st.diags ++ [⟨"E42", Generated.unknownNamePrefix ++ r.id, r.loc.1, r.loc.2⟩] }
  | some fl =>
    match fl.table.lookup r.id with
    | none =>
      .ok { st with diags := st.diags ++ [⟨"E02", Generated.undefinedNamePrefix ++ r.id, r.loc.1, r.loc.2⟩] }
    | some (.multi _ alts) =>
      -- a MultiName has no `location`: `getattr(sname, 'location', None) == (0, 0)` is false, whatever its name
      .ok { st with used := alts ++ st.used }
    | some (.single s) =>
      if s.name = "locals" ∧ s.locZero = true then
        .ok { st with used := localsMarks fl ++ st.used }
      else
        .ok { st with used := s.id.toList ++ st.used,
                      qualified := if s.qualifiedImport then s.name :: st.qualified else st.qualified }

def usageLoop : St → List Read → Except PyErr St
  | st, [] => .ok st
  | st, r :: rs =>
    match usageStep st r with
    | .ok st' => usageLoop st' rs
    | .error e => .error e

def usage (m : Module) : Except PyErr St := usageLoop St.init m.reads

def Binding.view (b : Binding) : NameView :=
  ⟨b.name, b.declaredAt.1, b.declaredAt.2, b.location.1, b.location.2⟩

/-- `s.startswith('_')` -/
def startsUnderscore (s : String) : Bool := s.toList.head? == some '_'

def Kind.isImported : Kind → Bool
  | .imported .. => true
  | _ => false

/-- the atoms of the report chain for one `(flow, name)` after the usage loop -/
def factsOf (st : St) (b : Binding) : Facts where
  used := st.used.contains b.id
  underscore := startsUnderscore b.name
  isStar := match b.kind with | .imported _ s _ => s | _ => false
  scopeIgnored := b.scopeKind = .module ∨ b.scopeKind = .cls
  isImported := b.kind.isImported
  future := match b.kind with | .imported m _ _ => m = "__future__" | _ => false
  qualifiedUsed := st.qualified.contains b.name
  isArgument := b.kind = .argument
  parentIsClass := b.parentIsClass

def mkDiag (b : Binding) (c : Code) (pre : String) : Diag :=
  ⟨c.str, pre ++ Generated.reportMsgArg b.view, Generated.reportLine b.view, Generated.reportCol b.view⟩

/-- the body of the report loop for one pair -/
def reportOf (st : St) (b : Binding) : Option Diag :=
  (Generated.reportFull (factsOf st b)).map fun cp => mkDiag b cp.1 cp.2

/-- `lint` after parsing and analysis: the usage loop, then the report loop -/
def lintModel (m : Module) : Except PyErr (List Diag) :=
  match usage m with
  | .ok st => .ok (st.diags ++ m.allNames.filterMap (reportOf st))
  | .error e => .error e

/-! ### decidable hypotheses (evaluated by the driver on every module of every run) -/

/-- every table value listed under key `k` is called `k`, and so is every binding of `all_names` it may mark
    (true of supp's tables by construction: `{n.name: n for n in ...}`, MultiName rows built per key) -/
def TableWellKeyed (m : Module) : Prop :=
  ∀ r ∈ m.reads, ∀ fl ∈ r.flow, ∀ kv ∈ fl.table,
    kv.2.name = kv.1 ∧ ∀ i ∈ kv.2.ids, ∀ b ∈ m.allNames, b.id = i → b.name = kv.1

/-- scope attribute of a table value, when it is a single Name object with an identity -/
def Entry.scoped : Entry → Option (BindingId × Option ScopeId)
  | .single s => s.id.map fun i => (i, s.scope)
  | .multi _ _ => none

/-- the `scope` attribute of a table value is the scope of the flow that lists it in `all_names`
    (`Flow.add_name` sets `name.scope = self.scope`) -/
def RefsScoped (m : Module) : Prop :=
  ∀ r ∈ m.reads, ∀ fl ∈ r.flow, ∀ kv ∈ fl.table, ∀ p ∈ kv.2.scoped,
    ∀ b ∈ m.allNames, b.id = p.1 → p.2 = some b.scope

/-- `all_names` lists every Name object once -/
def NoDupIds (m : Module) : Prop := (m.allNames.map (·.id)).Nodup

/-- the read happens in scope `s` and resolves to the builtin `locals` -/
def Read.localsIn (r : Read) (s : ScopeId) : Bool :=
  match r.flow with
  | some fl => fl.scope == s &&
      (match fl.table.lookup r.id with | some (.single n) => n.name == "locals" && n.locZero | _ => false)
  | none => false

def LocalsReadIn (m : Module) (s : ScopeId) : Prop := ∃ r ∈ m.reads, r.localsIn s = true

instance (m : Module) : Decidable (TableWellKeyed m) := by unfold TableWellKeyed; infer_instance
instance (m : Module) : Decidable (RefsScoped m) := by unfold RefsScoped; infer_instance
instance (m : Module) : Decidable (NoDupIds m) := by unfold NoDupIds; infer_instance
instance (m : Module) (s : ScopeId) : Decidable (LocalsReadIn m s) := by unfold LocalsReadIn; infer_instance

end SuppModel.Lint
